import Spok.Lemmas.WfTok
/-! # The parser on a value-level admissible token stream returns a well-formed tree

On a token list `ts` with `StrV inp m ts` every successful parse function returns pieces that satisfy
the executable well-formedness conditions of `Syntax/WF.lean` (`argOKB`, `cmdsOKB`, `nodeOKB`, …), and
whose texts are slices of the input that decode to themselves (`Txt`: followed by an ASCII rune or the
end of the input, or made of identifier runes).  `parseLoop_wf` adds the two adjacency conditions of
`adjOKB`:

* a non-empty comment is never directly followed by a task without docstring — `parseLoop` itself
  turns `# c` + `task` into a docstring whenever `c` is not empty;
* `NAME := OTHER` is the last statement — after the value identifier the stream is in mode
  `afterIdent`, where the only token that does not make the parser fail is EOF. -/
namespace Spok.PW
open Spok

variable {inp : List Rune}

/-! ## texts -/

/-- a text of the tree: a slice of the input that is followed by an ASCII rune or the end of the
    input, or a slice of the input made of identifier runes -/
def Txt (inp v : List Rune) : Prop := SlA inp v ∨ (Sl inp v ∧ identRunesB v = true)

def argQ (inp : List Rune) : Arg → Prop
  | .str s => Txt inp s
  | .ident n => Txt inp n

def valQ (inp : List Rune) : Val → Prop
  | .str s => Txt inp s
  | .ident n => Txt inp n
  | .call f args => Txt inp f ∧ ∀ a ∈ args, argQ inp a

def nodeQ (inp : List Rune) : Node → Prop
  | .comment c => Txt inp c
  | .assign n v => Txt inp n ∧ valQ inp v
  | .task name doc deps outs cmds =>
    Txt inp name ∧ Txt inp doc ∧ (∀ a ∈ deps, argQ inp a) ∧ (∀ a ∈ outs, argQ inp a) ∧ ∀ c ∈ cmds, Txt inp c

def ArgOK (inp : List Rune) (a : Arg) : Prop := argOKB a = true ∧ argQ inp a
def NodeOK (inp : List Rune) (n : Node) : Prop := nodeOKB n = true ∧ nodeQ inp n

theorem slA_nil (inp : List Rune) : SlA inp [] := ⟨inp, [], by simp, trivial⟩
theorem txt_nil (inp : List Rune) : Txt inp [] := Or.inl (slA_nil inp)

theorem filter_eq_self_of_all {α} (p : α → Bool) : ∀ (xs : List α), (∀ x ∈ xs, p x = true) → xs.filter p = xs := by
  intro xs h
  exact List.filter_eq_self.mpr h

/-- what `stripQuotes` makes of a STRING token -/
theorem strTok_facts {v : List Rune} (h : StrTokOK inp v) : strOKB (stripQuotes v) = true ∧ SlA inp (stripQuotes v) := by
  obtain ⟨q1, s, q2, rfl, h1, h2, hs, pre, post, hsl⟩ := h
  have hnq : ∀ x ∈ s, (x.cp != QUOTE) = true := by
    have := hs
    simp only [strOKB, Bool.and_eq_true, List.all_eq_true] at this
    exact this.1
  have : stripQuotes (q1 :: s ++ [q2]) = s := by
    simp only [stripQuotes, List.cons_append, List.filter_cons, h1, List.filter_append, h2]
    simp [filter_eq_self_of_all _ s hnq]
  rw [this]
  refine ⟨hs, pre ++ [q1], q2 :: post, ?_, ?_⟩
  · rw [hsl]; simp
  · show q2.cp < 128; omega

theorem str_argOK {v : List Rune} (h : StrTokOK inp v) : ArgOK inp (.str (stripQuotes v)) :=
  ⟨(strTok_facts h).1, Or.inl (strTok_facts h).2⟩

theorem ident_argOK {m : VM} {v : List Rune} (h : tokOK inp m .ident v) (hm : m ≠ .afterTask) : ArgOK inp (.ident v) := by
  obtain ⟨h1, h2, _, h4⟩ := h
  refine ⟨?_, Or.inr ⟨h4, h1⟩⟩
  have := h2 hm
  cases v with
  | nil => exact absurd rfl this
  | cons x xs => simpa [argOKB] using h1

/-! ## facts about the mode table -/

theorem transV_rparen {m m' : VM} (h : transV m .rparen = some m') : m' = .afterRParen := by
  cases m <;> simp [transV] at h <;> exact h.symm

theorem transV_lbrace {m m' : VM} (h : transV m .lbrace = some m') : m' = .body0 := by
  cases m <;> simp [transV] at h <;> exact h.symm

theorem transV_lparen {m m' : VM} (h : transV m .lparen = some m') : m' = .args := by
  cases m <;> simp [transV] at h <;> exact h.symm

theorem transV_afterTask {m : VM} {ty : TT} (h : transV m ty = some .afterTask) : ty = .task := by
  cases m <;> cases ty <;> simp [transV] at h <;> rfl

theorem transV_afterHash {m : VM} {ty : TT} (h : transV m ty = some .afterHash) : ty = .hash := by
  cases m <;> cases ty <;> simp [transV] at h <;> rfl

/-- the modes in which the statement loop of the parser can find itself -/
def LoopMode (m : VM) : Prop := m = .top ∨ m = .afterRParen ∨ m = .afterIdent

/-! ## the parse functions -/

variable {c : PCtx}

theorem expect_wf {m : VM} {ty : TT} {ts ts' : List Tok} (h : StrV inp m ts) (h1 : ty ≠ .eof) (h2 : ty ≠ .error)
    (he : expect c ty ts = .ok ts') :
    ∃ t, ts = t :: ts' ∧ t.ty = ty ∧ tokOK inp m ty t.val ∧ ∃ m', transV m ty = some m' ∧ StrV inp m' ts' := by
  cases ts with
  | nil => exact h.elim
  | cons t ts1 =>
    by_cases h3 : t.ty = .error
    · have : expect c ty (t :: ts1) = .error (lexErr c t) := by simp [expect, pnext, h3]
      rw [this] at he; cases he
    · by_cases hty : t.ty = ty
      · have : expect c ty (t :: ts1) = .ok ts1 := by
          have he' : ¬ ty = .error := by rw [← hty]; exact h3
          simp [expect, pnext, he', hty]
        rw [this] at he; cases he
        obtain ⟨hok, m', hm, hs⟩ := h.tail (by rw [hty]; exact h1) (by rw [hty]; exact h2)
        exact ⟨t, rfl, hty, by rw [← hty]; exact hok, m', by rw [← hty]; exact hm, hs⟩
      · have : expect c ty (t :: ts1) = .error (illegal c t) := by simp [expect, pnext, h3, hty]
        rw [this] at he; cases he

theorem parseArgList_wf : ∀ (ts : List Tok) (acc : List Arg) (m : VM) (args : List Arg) (ts' : List Tok),
    StrV inp m ts → m ≠ .afterTask → (∀ a ∈ acc, ArgOK inp a) → parseArgList c ts acc = .ok (args, ts') →
    (∀ a ∈ args, ArgOK inp a) ∧ StrV inp .afterRParen ts'
  | [], _, _, _, _, h, _, _, _ => h.elim
  | t :: ts, acc, m, args, ts', h, hm, hacc, he => by
    unfold parseArgList at he
    split at he
    · rename_i hty
      cases he
      obtain ⟨_, m', hm', hs⟩ := h.tail (by simp [hty]) (by simp [hty])
      rw [hty] at hm'
      rw [transV_rparen hm'] at hs
      exact ⟨fun a ha => hacc a (by simpa using ha), hs⟩
    · rename_i hty
      obtain ⟨hok, m', hm', hs⟩ := h.tail (by simp [hty]) (by simp [hty])
      rw [hty] at hok hm'
      refine parseArgList_wf ts _ m' args ts' hs ?_ ?_ he
      · intro hc; rw [hc] at hm'; cases transV_afterTask hm'
      · intro a ha
        simp only [List.mem_cons] at ha
        rcases ha with rfl | ha
        · exact str_argOK hok
        · exact hacc a ha
    · rename_i hty
      obtain ⟨hok, m', hm', hs⟩ := h.tail (by simp [hty]) (by simp [hty])
      rw [hty] at hok hm'
      refine parseArgList_wf ts _ m' args ts' hs ?_ ?_ he
      · intro hc; rw [hc] at hm'; cases transV_afterTask hm'
      · intro a ha
        simp only [List.mem_cons] at ha
        rcases ha with rfl | ha
        · exact ident_argOK hok hm
        · exact hacc a ha
    · rename_i hty
      obtain ⟨hok, m', hm', hs⟩ := h.tail (by simp [hty]) (by simp [hty])
      rw [hty] at hm'
      refine parseArgList_wf ts _ m' args ts' hs ?_ hacc he
      intro hc; rw [hc] at hm'; cases transV_afterTask hm'
    · cases he
    · cases he

theorem parseOutputs_wf {ts ts' : List Tok} {outs : List Arg} (h : StrV inp .afterRParen ts)
    (he : parseOutputs c ts = .ok (outs, ts')) : (∀ a ∈ outs, ArgOK inp a) ∧ ∃ m', StrV inp m' ts' := by
  unfold parseOutputs at he
  split at he
  · exact h.elim
  · rename_i t ts1
    split at he
    · cases he
      exact ⟨by simp, _, h⟩
    · rename_i hty
      have hty : t.ty = .output := by simpa using hty
      obtain ⟨_, m', hm', hs⟩ := h.tail (by simp [hty]) (by simp [hty])
      rw [hty] at hm'
      simp only [transV, Option.some.injEq] at hm'
      subst hm'
      cases ts1 with
      | nil => exact hs.elim
      | cons n ts2 =>
        simp only [pnext] at he
        split at he
        · rename_i hn
          cases he
          obtain ⟨hok, m', hm', hs2⟩ := hs.tail (by simp [hn]) (by simp [hn])
          rw [hn] at hok
          exact ⟨fun a ha => by simp at ha; subst ha; exact str_argOK hok, m', hs2⟩
        · rename_i hn
          cases he
          obtain ⟨hok, m', hm', hs2⟩ := hs.tail (by simp [hn]) (by simp [hn])
          rw [hn] at hok
          exact ⟨fun a ha => by simp at ha; subst ha; exact ident_argOK hok (by decide), m', hs2⟩
        · rename_i hn
          cases he
          obtain ⟨_, m', hm', hs2⟩ := hs.tail (by simp [hn]) (by simp [hn])
          exact ⟨by simp, m', hs2⟩
        · rename_i hn
          obtain ⟨_, m', hm', hs2⟩ := hs.tail (by simp [hn]) (by simp [hn])
          rw [hn] at hm'
          simp only [transV, Option.some.injEq] at hm'
          subst hm'
          obtain ⟨h1, h2⟩ := parseArgList_wf ts2 [] _ outs ts' hs2 (by decide) (by simp) he
          exact ⟨h1, _, h2⟩
        · cases he
        · cases he

def bodyM' : Bool → VM
  | true => .body0
  | false => .body1

theorem parseCommands_wf : ∀ (ts : List Tok) (acc : List (List Rune)) (first : Bool) (cmds : List (List Rune)) (ts' : List Tok),
    StrV inp (bodyM' first) ts → parseCommands c ts acc = .ok (cmds, ts') →
    ∃ more, cmds = acc.reverse ++ more ∧ StrV inp .top ts' ∧ (first = true → cmdsOKB more = true) ∧
      (first = false → more.all nextCmdOKB = true) ∧ ∀ x ∈ more, SlA inp x
  | [], _, _, _, _, h, _ => h.elim
  | t :: ts, acc, first, cmds, ts', h, he => by
    unfold parseCommands at he
    split at he
    · cases he
    · rename_i hty
      cases he
      obtain ⟨_, m', hm', hs⟩ := h.tail (by simp [hty]) (by simp [hty])
      rw [hty] at hm'
      have : m' = .top := by cases first <;> simp [bodyM', transV] at hm' <;> exact hm'.symm
      subst this
      exact ⟨[], by simp, hs, fun _ => rfl, fun _ => rfl, by simp⟩
    · rename_i hty
      obtain ⟨hok, m', hm', hs⟩ := h.tail (by simp [hty]) (by simp [hty])
      rw [hty] at hok hm'
      have : m' = bodyM' false := by cases first <;> simp [bodyM', transV] at hm' <;> exact hm'.symm
      subst this
      obtain ⟨more, e1, e2, _, e4, e5⟩ := parseCommands_wf ts _ false cmds ts' hs he
      have e4 := e4 rfl
      obtain ⟨k1, k2, k3⟩ := hok
      refine ⟨t.val :: more, by rw [e1]; simp, e2, fun hf => ?_, fun hf => ?_, ?_⟩
      · subst hf
        simp [cmdsOKB, k1 rfl, e4]
      · subst hf
        simp only [List.all_cons, Bool.and_eq_true]
        exact ⟨k2 (by decide), e4⟩
      · intro x hx
        simp only [List.mem_cons] at hx
        rcases hx with rfl | hx
        · exact k3
        · exact e5 x hx
    · rename_i h1 h2 h3
      exfalso
      rcases h with ⟨_, hf⟩ | ⟨_, m', hm', _⟩
      · rcases hf with ⟨hx, _⟩ | ⟨_, hx⟩
        · exact h1 hx
        · cases first <;> simp [bodyM', eofOK] at hx
      · cases hty : t.ty <;> rw [hty] at hm' <;> cases first <;> simp [bodyM', transV] at hm'
        all_goals first | exact h2 hty | exact h3 hty

/-- `task` has been read -/
theorem parseTask_wf {ts ts' : List Tok} {doc : List Rune} {node : Node} (h : StrV inp .afterTask ts)
    (hdoc : commentOKB doc = true ∧ Txt inp doc) (he : parseTask c doc ts = .ok (node, ts')) :
    NodeOK inp node ∧ StrV inp .top ts' ∧ ∃ name deps outs cmds, node = .task name doc deps outs cmds := by
  cases ts with
  | nil => exact h.elim
  | cons nt ts1 =>
    obtain ⟨hok, m1, hm1, hs1⟩ := h.tail_after (Or.inr rfl)
    have hnt : nt.ty = .ident := by
      cases hty : nt.ty <;> rw [hty] at hm1 <;> simp [transV] at hm1
    rw [hnt] at hok hm1
    simp only [transV, Option.some.injEq] at hm1
    subst hm1
    unfold parseTask at he
    simp only [pnext] at he
    split at he
    · cases he
    · rename_i ts2 he1
      obtain ⟨_, _, _, _, m2, hm2, hs2⟩ := expect_wf hs1 (by decide) (by decide) he1
      rw [transV_lparen hm2] at hs2
      split at he
      · cases he
      · rename_i deps ts3 he2
        obtain ⟨hdeps, hs3⟩ := parseArgList_wf ts2 [] _ deps ts3 hs2 (by decide) (by simp) he2
        split at he
        · cases he
        · rename_i outs ts4 he3
          obtain ⟨houts, m4, hs4⟩ := parseOutputs_wf hs3 he3
          split at he
          · cases he
          · rename_i ts5 he4
            obtain ⟨_, _, _, _, m5, hm5, hs5⟩ := expect_wf hs4 (by decide) (by decide) he4
            rw [transV_lbrace hm5] at hs5
            split at he
            · cases he
            · rename_i cmds ts6 he5
              obtain ⟨more, e1, e2, e3, _, e5⟩ := parseCommands_wf ts5 [] true cmds ts6 hs5 he5
              simp only [List.reverse_nil, List.nil_append] at e1
              subst e1
              cases he
              obtain ⟨k1, _, _, k4⟩ := hok
              refine ⟨⟨?_, ?_⟩, e2, _, _, _, _, rfl⟩
              · simp only [nodeOKB, Bool.and_eq_true, List.all_eq_true]
                exact ⟨⟨⟨⟨k1, hdoc.1⟩, fun a ha => (hdeps a ha).1⟩, fun a ha => (houts a ha).1⟩, e3 rfl⟩
              · exact ⟨Or.inr ⟨k4, k1⟩, hdoc.2, fun a ha => (hdeps a ha).2, fun a ha => (houts a ha).2,
                  fun x hx => Or.inl (e5 x hx)⟩

/-- an identifier at a statement start has been read -/
theorem parseAssign_wf {m0 : VM} {t : Tok} {ts ts' : List Tok} {node : Node} (hm0 : m0 = .top ∨ m0 = .afterRParen)
    (ht : tokOK inp m0 .ident t.val) (h : StrV inp .afterIdent ts) (he : parseAssign c t ts = .ok (node, ts')) :
    NodeOK inp node ∧ (∃ n v, node = .assign n v) ∧
      ∃ m', StrV inp m' ts' ∧ LoopMode m' ∧ (node.isIdentAssign = true → m' = .afterIdent) := by
  obtain ⟨t1, t2, t3, t4⟩ := ht
  have hne : t.val ≠ [] := t2 (by rcases hm0 with rfl | rfl <;> decide)
  have hkw : kwPrefix t.val = false := t3 (by rcases hm0 with rfl | rfl <;> simp)
  have hname : (!t.val.isEmpty && identRunesB t.val && !kwPrefix t.val) = true := by
    cases hv : t.val with
    | nil => exact absurd hv hne
    | cons x xs => rw [hv] at t1 hkw; simp [t1, hkw]
  have hnq : Txt inp t.val := Or.inr ⟨t4, t1⟩
  unfold parseAssign at he
  split at he
  · cases he
  · rename_i ts1 he1
    obtain ⟨_, _, _, _, m1, hm1, hs1⟩ := expect_wf h (by decide) (by decide) he1
    simp only [transV, Option.some.injEq] at hm1
    subst hm1
    cases ts1 with
    | nil => exact hs1.elim
    | cons n ts2 =>
      simp only [pnext] at he
      split at he
      · -- NAME := "string"
        rename_i hn
        cases he
        obtain ⟨hok, m2, hm2, hs2⟩ := hs1.tail (by simp [hn]) (by simp [hn])
        rw [hn] at hok hm2
        simp only [transV, Option.some.injEq] at hm2
        subst hm2
        obtain ⟨f1, f2⟩ := strTok_facts hok
        refine ⟨⟨?_, hnq, Or.inl f2⟩, ⟨_, _, rfl⟩, _, hs2, Or.inl rfl, fun hh => by cases hh⟩
        simp only [nodeOKB, valOKB, Bool.and_eq_true]
        exact ⟨by simpa using hname, f1⟩
      · rename_i hn
        obtain ⟨hok, m2, hm2, hs2⟩ := hs1.tail (by simp [hn]) (by simp [hn])
        rw [hn] at hok hm2
        simp only [transV, Option.some.injEq] at hm2
        subst hm2
        obtain ⟨a1, a2⟩ := ident_argOK hok (by decide)
        have hvn : (!n.val.isEmpty && identRunesB n.val) = true := by simpa [argOKB] using a1
        split at he
        · rename_i _ tk2 ts3 _
          split at he
          · -- NAME := f( … )
            rename_i hl
            have hl : tk2.ty = .lparen := by simpa using hl
            obtain ⟨_, m3, hm3, hs3⟩ := hs2.tail (by simp [hl]) (by simp [hl])
            rw [hl] at hm3
            rw [transV_lparen hm3] at hs3
            split at he
            · cases he
            · rename_i args ts4 he2
              obtain ⟨hargs, hs4⟩ := parseArgList_wf ts3 [] _ args ts4 hs3 (by decide) (by simp) he2
              cases he
              refine ⟨⟨?_, hnq, a2, fun a ha => (hargs a ha).2⟩, ⟨_, _, rfl⟩, _, hs4, Or.inr (Or.inl rfl), fun hh => by cases hh⟩
              simp only [nodeOKB, valOKB, Bool.and_eq_true, List.all_eq_true]
              exact ⟨by simpa using hname, by simpa using hvn, fun a ha => (hargs a ha).1⟩
          · -- NAME := OTHER
            cases he
            refine ⟨⟨?_, hnq, a2⟩, ⟨_, _, rfl⟩, _, hs2, Or.inr (Or.inr rfl), fun _ => rfl⟩
            simp only [nodeOKB, valOKB, Bool.and_eq_true]
            exact ⟨by simpa using hname, by simpa using hvn⟩
        · exact hs2.elim
      · cases he
      · cases he

/-! ## adjacency -/

theorem adjOKB_snoc : ∀ (xs : List Node) (y : Node), adjOKB (xs ++ [y]) =
    (adjOKB xs && match xs.getLast? with
      | none => true
      | some x => !(x.isNonEmptyComment && y.isDoclessTask) && !x.isIdentAssign)
  | [], y => by simp [adjOKB]
  | [x], y => by simp [adjOKB]
  | x :: x2 :: xs, y => by
    have ih := adjOKB_snoc (x2 :: xs) y
    simp only [List.cons_append] at ih ⊢
    rw [adjOKB, ih, adjOKB]
    simp only [List.getLast?_cons_cons]
    cases (!(x.isNonEmptyComment && x2.isDoclessTask) && !x.isIdentAssign) <;> simp

/-- the statements parsed so far (last one first), the mode and the rest of the stream -/
structure AccInv (inp : List Rune) (acc : List Node) (m : VM) (ts : List Tok) : Prop where
  nodes : ∀ n ∈ acc, NodeOK inp n
  adj : adjOKB acc.reverse = true
  last : ∀ x rest, acc = x :: rest → x.isIdentAssign = true → m = .afterIdent
  cmt : ∀ x rest, acc = x :: rest → x.isNonEmptyComment = true → ∀ t ts', ts = t :: ts' → t.ty ≠ .task

def TreeOK (inp : List Rune) (tree : Tree) : Prop := wfTree tree = true ∧ ∀ n ∈ tree, nodeQ inp n

theorem AccInv.done {acc : List Node} {m : VM} {ts : List Tok} (h : AccInv inp acc m ts) : TreeOK inp acc.reverse := by
  refine ⟨?_, fun n hn => (h.nodes n (by simpa using hn)).2⟩
  simp only [wfTree, Bool.and_eq_true, List.all_eq_true]
  exact ⟨fun n hn => (h.nodes n (by simpa using hn)).1, h.adj⟩

/-- one more statement -/
theorem AccInv.push {acc : List Node} {m m' : VM} {ts ts' : List Tok} {node : Node} (h : AccInv inp acc m ts)
    (hm : m ≠ .afterIdent) (hn : NodeOK inp node)
    (h1 : node.isDoclessTask = true → ∀ x rest, acc = x :: rest → x.isNonEmptyComment = false)
    (h2 : node.isIdentAssign = true → m' = .afterIdent)
    (h3 : node.isNonEmptyComment = true → ∀ t ts'', ts' = t :: ts'' → t.ty ≠ .task) :
    AccInv inp (node :: acc) m' ts' := by
  refine ⟨?_, ?_, ?_, ?_⟩
  · intro n hn'
    simp only [List.mem_cons] at hn'
    rcases hn' with rfl | hn'
    · exact hn
    · exact h.nodes n hn'
  · rw [List.reverse_cons, adjOKB_snoc, h.adj, List.getLast?_reverse]
    cases acc with
    | nil => rfl
    | cons x rest =>
      simp only [List.head?_cons, Bool.true_and, Bool.and_eq_true, Bool.not_eq_true', Bool.and_eq_false_iff]
      constructor
      · cases hd : node.isDoclessTask
        · exact Or.inr rfl
        · exact Or.inl (h1 hd x rest rfl)
      · cases hi : x.isIdentAssign
        · rfl
        · exact absurd (h.last x rest rfl hi) hm
  · intro x rest hx hi
    injection hx with hx _
    subst hx; exact h2 hi
  · intro x rest hx hc
    injection hx with hx _
    subst hx; exact h3 hc

theorem parseLoop_wf : ∀ (fuel : Nat) (ts : List Tok) (acc : List Node) (m : VM) (tree : Tree),
    StrV inp m ts → LoopMode m → AccInv inp acc m ts → parseLoop c fuel ts acc = (tree, none) → TreeOK inp tree := by
  intro fuel
  induction fuel with
  | zero => intro ts acc m tree _ _ _ he; simp [parseLoop] at he
  | succ fuel ih =>
    intro ts acc m tree h hlm hacc he
    unfold parseLoop at he
    cases ts with
    | nil => exact h.elim
    | cons t ts =>
      simp only [] at he
      split at he
      · -- EOF
        cases he; exact hacc.done
      · cases he
      · -- `#`
        rename_i hty
        obtain ⟨_, m1, hm1, hs1⟩ := h.tail (by simp [hty]) (by simp [hty])
        rw [hty] at hm1
        have hmne : m ≠ .afterIdent := by
          intro hc; rw [hc] at hm1; simp [transV] at hm1
        have : m1 = .afterHash := by
          rcases hlm with rfl | rfl | rfl <;> simp [transV] at hm1 <;> exact hm1.symm
        subst this
        cases ts with
        | nil => exact hs1.elim
        | cons cm ts1 =>
          obtain ⟨hok, m2, hm2, hs2⟩ := hs1.tail_after (Or.inl rfl)
          have hcm : cm.ty = .comment := by
            cases hty : cm.ty <;> rw [hty] at hm2 <;> simp [transV] at hm2
          rw [hcm] at hok hm2
          simp only [transV, Option.some.injEq] at hm2
          subst hm2
          obtain ⟨c1, c2⟩ := hok
          rw [show pnext (cm :: ts1) = (cm, ts1) from rfl] at he
          simp only [] at he
          split at he
          · rename_i n ts2
            by_cases hn : (n.ty == TT.task && !cm.val.isEmpty) = true
            · rw [if_pos hn] at he
              have hnt : n.ty = .task := by simp at hn; exact hn.1
              have hne : cm.val.isEmpty = false := by simp at hn; simpa using hn.2
              obtain ⟨_, m3, hm3, hs3⟩ := hs2.tail (by simp [hnt]) (by simp [hnt])
              rw [hnt] at hm3
              simp only [transV, Option.some.injEq] at hm3
              subst hm3
              split at he
              · cases he
              · rename_i node ts3 he1
                obtain ⟨k1, k2, name, deps, outs, cmds, rfl⟩ := parseTask_wf hs3 ⟨c1, Or.inl c2⟩ he1
                refine ih _ _ _ tree k2 (Or.inl rfl) ?_ he
                refine hacc.push hmne k1 ?_ (fun hh => by cases hh) (fun hh => by cases hh)
                intro hd
                simp [Node.isDoclessTask, hne] at hd
            · rw [if_neg hn] at he
              refine ih _ _ _ tree hs2 (Or.inl rfl) ?_ he
              refine hacc.push hmne ⟨c1, Or.inl c2⟩ (fun hh => by cases hh) (fun hh => by cases hh) ?_
              intro hc t' ts'' hts htask
              injection hts with h1 _
              subst h1
              apply hn
              have : cm.val.isEmpty = false := by simpa [Node.isNonEmptyComment] using hc
              simp [htask, this]
          · exact hs2.elim
      · -- an identifier: assignment
        rename_i hty
        obtain ⟨hok, m1, hm1, hs1⟩ := h.tail (by simp [hty]) (by simp [hty])
        rw [hty] at hok hm1
        have hm0 : m = .top ∨ m = .afterRParen := by
          rcases hlm with rfl | rfl | rfl
          · exact Or.inl rfl
          · exact Or.inr rfl
          · simp [transV] at hm1
        have hmne : m ≠ .afterIdent := by rcases hm0 with rfl | rfl <;> decide
        have : m1 = .afterIdent := by
          rcases hm0 with rfl | rfl <;> simp [transV] at hm1 <;> exact hm1.symm
        subst this
        split at he
        · cases he
        · rename_i node ts1 he1
          obtain ⟨k1, ⟨n, v, rfl⟩, m', k3, k4, k5⟩ := parseAssign_wf hm0 hok hs1 he1
          refine ih _ _ _ tree k3 k4 ?_ he
          exact hacc.push hmne k1 (fun hh => by cases hh) k5 (fun hh => by cases hh)
      · -- `task`
        rename_i hty
        obtain ⟨_, m1, hm1, hs1⟩ := h.tail (by simp [hty]) (by simp [hty])
        rw [hty] at hm1
        have hmne : m ≠ .afterIdent := by
          intro hc; rw [hc] at hm1; simp [transV] at hm1
        have : m1 = .afterTask := by
          rcases hlm with rfl | rfl | rfl <;> simp [transV] at hm1 <;> exact hm1.symm
        subst this
        split at he
        · cases he
        · rename_i node ts1 he1
          obtain ⟨k1, k2, name, deps, outs, cmds, rfl⟩ := parseTask_wf hs1 ⟨rfl, txt_nil inp⟩ he1
          refine ih _ _ _ tree k2 (Or.inl rfl) ?_ he
          refine hacc.push hmne k1 ?_ (fun hh => by cases hh) (fun hh => by cases hh)
          intro _ x rest hx
          cases hc : x.isNonEmptyComment
          · rfl
          · exact absurd hty (hacc.cmt x rest hx hc t ts rfl)
      · cases he

theorem parseToks_wf {n : Nat} {toks : List Tok} (h : StrV inp .top toks) (he : (parseToks n toks).fail = none) :
    TreeOK inp (parseToks n toks).tree := by
  unfold parseToks at he ⊢
  generalize hp : parseLoop ⟨n⟩ (toks.length + 1) toks [] = p at he ⊢
  obtain ⟨tree, f⟩ := p
  simp only at he ⊢
  subst he
  exact parseLoop_wf _ _ _ _ _ h (Or.inl rfl)
    ⟨by simp, rfl, fun x rest hx => (by cases hx), fun x rest hx => (by cases hx)⟩ hp

end Spok.PW
