import Spok.Syntax.WF
/-! # The command-text scan in its real context

`cmdScanOK c` (`Render.lean`) describes the scan of a command text `c` when a newline follows it.
The lexer scans `c` in another context: followed by `CR* LF`, or by `CR*`, at most one blank and the
closing brace (all of which it strips again).  `cmdScanF f s` is the scan of `s` *followed by `f`*:
every rune of `s` is taken as command text, and no `{{` / `}}` jump leaves `s`.

* `cmdScanF_append`: the loop invariant of `lexTaskCommands` moves forward (`s` grows by what one
  iteration consumes);
* `cmdScanF_strip`: what is stripped at the end (blank, CRs) can be moved into the follower, because
  it does not begin with a brace;
* `cmdScanF_ok`: whatever the follower, a scan that stays inside `s` makes the same decisions as the
  scan of `s` followed by a newline — a look-ahead window that reaches beyond `s` and matched would
  have been a jump out of `s`. -/
namespace Spok.PW
open Spok

/-- the `{{` / `}}` look-ahead -/
def brace2 (xs : List Rune) : Bool :=
  (xs.take 2).map (·.cp) == [LBRACE, LBRACE] || (xs.take 2).map (·.cp) == [RBRACE, RBRACE]

def cmdScanF (f : List Rune) : List Rune → Bool
  | [] => true
  | r :: rest =>
    if r.cp == NL then false
    else if brace2 (rest ++ f) then (if 2 ≤ rest.length then cmdScanF f (rest.drop 2) else false)
    else if r.cp == RBRACE || r.cp == HASH then false
    else if isASCII r then cmdScanF f rest
    else false
termination_by l => l.length
decreasing_by all_goals simp [List.length_drop]; all_goals omega

theorem brace2_append_of_le {xs : List Rune} (f : List Rune) (h : 2 ≤ xs.length) : brace2 (xs ++ f) = brace2 xs := by
  unfold brace2
  rw [List.take_append_of_le_length h]

theorem brace2_short {xs : List Rune} (h : xs.length < 2) : brace2 xs = false := by
  match xs, h with
  | [], _ => rfl
  | [x], _ => simp [brace2]

theorem brace2_cons_cons (a b : Rune) (xs : List Rune) :
    brace2 (a :: b :: xs) = ((a.cp == LBRACE && b.cp == LBRACE) || (a.cp == RBRACE && b.cp == RBRACE)) := by
  simp [brace2]

/-- a matching window begins with a brace, and so does its second position -/
theorem brace2_heads {xs : List Rune} (h : brace2 xs = true) :
    ∃ a b rest, xs = a :: b :: rest ∧ (a.cp = LBRACE ∨ a.cp = RBRACE) ∧ (b.cp = LBRACE ∨ b.cp = RBRACE) := by
  match xs with
  | [] => simp [brace2] at h
  | [x] => simp [brace2] at h
  | a :: b :: rest =>
    rw [brace2_cons_cons] at h
    simp only [Bool.or_eq_true, Bool.and_eq_true, beq_iff_eq] at h
    refine ⟨a, b, rest, rfl, ?_, ?_⟩
    · rcases h with h | h
      · exact Or.inl h.1
      · exact Or.inr h.1
    · rcases h with h | h
      · exact Or.inl h.2
      · exact Or.inr h.2

theorem cmdScanOK_cons (r : Rune) (rest : List Rune) :
    cmdScanOK (r :: rest) =
      (if r.cp == NL then false
       else if brace2 rest then cmdScanOK (rest.drop 2)
       else if r.cp == RBRACE || r.cp == HASH then false
       else if isASCII r then cmdScanOK rest
       else false) := by
  rw [cmdScanOK]; rfl

theorem cmdScanF_nil (f : List Rune) : cmdScanF f [] = true := by rw [cmdScanF]

theorem cmdScanF_cons (f : List Rune) (r : Rune) (rest : List Rune) :
    cmdScanF f (r :: rest) =
      (if r.cp == NL then false
       else if brace2 (rest ++ f) then (if 2 ≤ rest.length then cmdScanF f (rest.drop 2) else false)
       else if r.cp == RBRACE || r.cp == HASH then false
       else if isASCII r then cmdScanF f rest
       else false) := by
  rw [cmdScanF]

/-- whatever follows, a scan that stays inside `s` is the scan of `s` before a newline -/
theorem cmdScanF_ok (f : List Rune) : ∀ (s : List Rune), cmdScanF f s = true → cmdScanOK s = true := by
  intro s
  induction hn : s.length using Nat.strongRecOn generalizing s with
  | _ n ih =>
    subst hn
    cases s with
    | nil => intro _; rw [cmdScanOK]
    | cons r rest =>
      rw [cmdScanF_cons, cmdScanOK_cons]
      intro h
      by_cases h1 : (r.cp == NL) = true
      · simp [h1] at h
      · simp only [h1] at h ⊢
        by_cases h2 : brace2 (rest ++ f) = true
        · simp only [h2, if_true] at h
          by_cases h3 : 2 ≤ rest.length
          · simp only [h3, if_true] at h
            rw [brace2_append_of_le f h3] at h2
            simp only [h2, if_true]
            exact ih _ (by simp [List.length_drop]; omega) _ rfl h
          · simp [h3] at h
        · have h2' : brace2 (rest ++ f) = false := by simpa using h2
          simp only [h2', Bool.false_eq_true, if_false] at h
          have h3 : brace2 rest = false := by
            by_cases hl : 2 ≤ rest.length
            · rw [← brace2_append_of_le f hl]; exact h2'
            · exact brace2_short (by omega)
          simp only [h3, Bool.false_eq_true, if_false]
          by_cases h4 : (r.cp == RBRACE || r.cp == HASH) = true
          · simp [h4] at h
          · simp only [h4] at h ⊢
            by_cases h5 : isASCII r = true
            · simp only [h5, if_true] at h ⊢
              exact ih _ (by simp) _ rfl h
            · simp [h5] at h

theorem drop2_append {xs : List Rune} (z : List Rune) (h : 2 ≤ xs.length) : (xs ++ z).drop 2 = xs.drop 2 ++ z := by
  rw [List.drop_append_of_le_length h]

/-- the scan moves on: `s` was scanned with `z ++ R` following, `z` is scanned with `R` following -/
theorem cmdScanF_append (R z : List Rune) : ∀ (s : List Rune), cmdScanF (z ++ R) s = true → cmdScanF R z = true →
    cmdScanF R (s ++ z) = true := by
  intro s
  induction hn : s.length using Nat.strongRecOn generalizing s with
  | _ n ih =>
    subst hn
    cases s with
    | nil => intro _ hz; simpa using hz
    | cons r rest =>
      intro h hz
      rw [cmdScanF_cons] at h
      rw [List.cons_append, cmdScanF_cons]
      by_cases h1 : (r.cp == NL) = true
      · simp [h1] at h
      · simp only [h1] at h ⊢
        have hassoc : rest ++ z ++ R = rest ++ (z ++ R) := List.append_assoc _ _ _
        rw [hassoc]
        by_cases h2 : brace2 (rest ++ (z ++ R)) = true
        · simp only [h2, if_true] at h ⊢
          by_cases h3 : 2 ≤ rest.length
          · simp only [h3, if_true] at h
            have h3' : 2 ≤ (rest ++ z).length := by simp; omega
            simp only [h3', if_true]
            rw [drop2_append z h3]
            exact ih _ (by simp [List.length_drop]; omega) _ rfl h hz
          · simp [h3] at h
        · simp only [h2] at h ⊢
          by_cases h4 : (r.cp == RBRACE || r.cp == HASH) = true
          · simp [h4] at h
          · simp only [h4] at h ⊢
            by_cases h5 : isASCII r = true
            · simp only [h5, if_true] at h ⊢
              exact ih _ (by simp) _ rfl h hz
            · simp [h5] at h

/-- one rune read as ordinary command text -/
theorem cmdScanF_single {R : List Rune} {r : Rune} (h1 : r.cp ≠ NL) (h2 : brace2 R = false) (h3 : r.cp ≠ RBRACE)
    (h4 : r.cp ≠ HASH) (h5 : isASCII r = true) : cmdScanF R [r] = true := by
  rw [cmdScanF_cons]
  simp [h1, h2, h3, h4, h5, cmdScanF_nil]

/-- one rune followed by `{{` / `}}`, which are jumped over -/
theorem cmdScanF_triple {R : List Rune} {r b1 b2 : Rune} (h1 : r.cp ≠ NL) (h2 : brace2 (b1 :: b2 :: R) = true) :
    cmdScanF R [r, b1, b2] = true := by
  rw [cmdScanF_cons]
  simp only [List.cons_append, List.nil_append] at *
  simp [h1, h2, cmdScanF_nil]

/-- what was consumed but is stripped again (`z`: a blank, CRs) becomes part of the follower -/
theorem cmdScanF_strip (f z : List Rune) (hz : ∀ x, z.head? = some x → x.cp ≠ LBRACE ∧ x.cp ≠ RBRACE) :
    ∀ (s : List Rune), cmdScanF f (s ++ z) = true → cmdScanF (z ++ f) s = true := by
  intro s
  induction hn : s.length using Nat.strongRecOn generalizing s with
  | _ n ih =>
    subst hn
    cases s with
    | nil => intro _; exact cmdScanF_nil _
    | cons r rest =>
      intro h
      rw [List.cons_append, cmdScanF_cons] at h
      rw [cmdScanF_cons]
      by_cases h1 : (r.cp == NL) = true
      · simp [h1] at h
      · simp only [h1] at h ⊢
        have hassoc : rest ++ z ++ f = rest ++ (z ++ f) := List.append_assoc _ _ _
        rw [hassoc] at h
        by_cases h2 : brace2 (rest ++ (z ++ f)) = true
        · simp only [h2, if_true] at h ⊢
          by_cases h3 : 2 ≤ (rest ++ z).length
          · simp only [h3, if_true] at h
            have h3' : 2 ≤ rest.length := by
              -- otherwise the matching window contains the first rune of `z`, which is not a brace
              obtain ⟨a, b, tl, hx, ha, hb⟩ := brace2_heads h2
              match rest, h3, hx with
              | [], h3, hx =>
                cases z with
                | nil => simp at h3
                | cons z0 zs =>
                  simp only [List.nil_append, List.cons_append] at hx
                  have : z0 = a := by injection hx
                  subst this
                  have := hz z0 rfl
                  omega
              | [y], h3, hx =>
                cases z with
                | nil => simp at h3
                | cons z0 zs =>
                  simp only [List.cons_append, List.nil_append] at hx
                  have : z0 = b := by
                    injection hx with _ hx; injection hx
                  subst this
                  have := hz z0 rfl
                  omega
              | _ :: _ :: _, _, _ => simp
            simp only [h3', if_true]
            rw [drop2_append z h3'] at h
            exact ih _ (by simp [List.length_drop]; omega) _ rfl h
          · rw [if_neg h3] at h; cases h
        · simp only [h2] at h ⊢
          by_cases h4 : (r.cp == RBRACE || r.cp == HASH) = true
          · simp [h4] at h
          · simp only [h4] at h ⊢
            by_cases h5 : isASCII r = true
            · simp only [h5, if_true] at h ⊢
              exact ih _ (by simp) _ rfl h
            · simp [h5] at h

/-- the scanned text minus what is stripped satisfies `cmdScanOK` -/
theorem cmdScanOK_of_scan {f s z : List Rune} (h : cmdScanF f (s ++ z) = true)
    (hz : ∀ x ∈ z, x.cp = CR ∨ x.cp = SP) : cmdScanOK s = true := by
  apply cmdScanF_ok (z ++ f)
  apply cmdScanF_strip f z _ s h
  intro x hx
  have : x ∈ z := by
    cases z with
    | nil => cases hx
    | cons z0 zs => simp at hx; subst hx; simp
  rcases hz x this with h | h <;> omega

end Spok.PW
