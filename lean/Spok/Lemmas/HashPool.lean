import Spok.HashPool
/-! # The inductive invariant of the worker pool (`Spok.HashPool`) and what follows from it -/
namespace Spok.HashPool

variable {ρ : Type}

/-- what holds in every reachable state; `E` = the results that have to arrive -/
structure Inv (E : List ρ) (s : St ρ) : Prop where
  /-- `jobs` is closed only after the last send -/
  closed_todo : s.jobsClosed = true → s.todo = []
  /-- `results` is closed only after every `wg.Done` -/
  rc : s.resultsClosed = true → ∀ w ∈ s.workers, w = .done
  /-- main leaves its loop only on a closed `results` -/
  md : s.mainDone = true → s.resultsClosed = true
  /-- somebody is there to take a job: this is what `min(NumCPU, len(files))` with `NumCPU ≥ 1` has to guarantee -/
  live : s.todo ≠ [] → s.workers ≠ []
  /-- no worker returns before `jobs` is closed -/
  notdone : s.jobsClosed = false → ∀ w ∈ s.workers, w ≠ .done
  /-- conservation: received ⊎ in the hands of blocked workers ⊎ still to be sent = everything, as multisets -/
  cons : (s.acc ++ (s.workers.filterMap held ++ s.todo.filterMap id)).Perm E

@[simp] theorem held_idle : held (W.idle : W ρ) = none := rfl
@[simp] theorem held_done : held (W.done : W ρ) = none := rfl
@[simp] theorem held_holding (r : ρ) : held (W.holding r) = some r := rfl
@[simp] theorem wgt_idle : wgt (W.idle : W ρ) = 1 := rfl
@[simp] theorem wgt_done : wgt (W.done : W ρ) = 0 := rfl
@[simp] theorem wgt_holding (r : ρ) : wgt (W.holding r) = 2 := rfl
@[simp] theorem afterJob_none : afterJob (none : Option ρ) = .idle := rfl
@[simp] theorem afterJob_some (r : ρ) : afterJob (some r) = .holding r := rfl

theorem replicate_idle_ne_done (n : Nat) : ∀ w ∈ List.replicate n (W.idle : W ρ), w ≠ .done := by
  intro w hw
  rw [List.eq_of_mem_replicate hw]
  exact fun h => by cases h

theorem filterMap_held_replicate_idle (n : Nat) : (List.replicate n (W.idle : W ρ)).filterMap held = [] := by
  induction n with
  | zero => rfl
  | succ n _ => simp [List.replicate_succ]

theorem inv_init {ncpu : Nat} (hcpu : 0 < ncpu) (jobs : List (Option ρ)) : Inv (expected jobs) (init ncpu jobs) where
  closed_todo := by simp [init]
  rc := by simp [init]
  md := by simp [init]
  live := by
    intro h
    have hl : 0 < jobs.length := List.length_pos_iff.mpr h
    have : 0 < nWorkers ncpu jobs.length := by unfold nWorkers; omega
    simp only [init, ne_eq, List.replicate_eq_nil_iff]
    omega
  notdone := fun _ => replicate_idle_ne_done _
  cons := by simp [init, filterMap_held_replicate_idle, expected]

theorem inv_step {E : List ρ} {s s' : St ρ} (h : Inv E s) (st : Step s s') : Inv E s' := by
  cases st with
  | send j rest l₁ l₂ htd hw =>
    refine ⟨?_, ?_, h.md, ?_, ?_, ?_⟩
    · intro hjc; have := h.closed_todo hjc; simp [htd] at this
    · intro hrc
      have := h.rc hrc .idle (by simp [hw])
      cases this
    · intro _; simp
    · intro hjc w hmem
      have hnd := h.notdone hjc
      simp only [List.mem_append, List.mem_cons] at hmem
      rcases hmem with hm | rfl | hm
      · exact hnd w (by simp [hw, hm])
      · cases j <;> exact fun hc => by cases hc
      · exact hnd w (by simp [hw, hm])
    · have hc := h.cons
      simp only [hw, htd] at hc
      refine List.Perm.trans ?_ hc
      cases j with
      | none => simp
      | some r =>
        simp only [afterJob_some, held_holding, held_idle, List.filterMap_append, List.filterMap_cons, id, List.append_assoc]
        apply (List.perm_append_left_iff s.acc).mpr
        apply (List.perm_append_left_iff _).mpr
        simp only [List.cons_append]
        exact List.perm_middle.symm
  | closeJobs htd hjc =>
    refine ⟨fun _ => htd, h.rc, h.md, h.live, ?_, h.cons⟩
    intro hc; simp at hc
  | exit l₁ l₂ hjc hw =>
    refine ⟨h.closed_todo, ?_, h.md, ?_, ?_, ?_⟩
    · intro hrc
      have := h.rc hrc .idle (by simp [hw])
      cases this
    · intro _; simp
    · intro hc; simp [hjc] at hc
    · have hc := h.cons
      simp only [hw] at hc
      refine List.Perm.trans ?_ hc
      simp [List.filterMap_cons]
  | recv r l₁ l₂ hw hmd =>
    refine ⟨h.closed_todo, ?_, ?_, ?_, ?_, ?_⟩
    · intro hrc
      have := h.rc hrc (.holding r) (by simp [hw])
      cases this
    · intro hc; simp [hmd] at hc
    · intro _; simp
    · intro hjc w hmem
      have hnd := h.notdone hjc
      simp only [List.mem_append, List.mem_cons] at hmem
      rcases hmem with hm | rfl | hm
      · exact hnd w (by simp [hw, hm])
      · exact fun hc => by cases hc
      · exact hnd w (by simp [hw, hm])
    · have hc := h.cons
      simp only [hw] at hc
      refine List.Perm.trans ?_ hc
      simp only [held_holding, held_idle, List.filterMap_append, List.filterMap_cons, List.append_assoc, List.cons_append,
        List.nil_append]
      apply (List.perm_append_left_iff s.acc).mpr
      exact List.perm_middle.symm
  | closeResults hall hrc =>
    exact ⟨h.closed_todo, fun _ => hall, fun _ => rfl, h.live, h.notdone, h.cons⟩
  | mainExit hrc hmd =>
    exact ⟨h.closed_todo, h.rc, fun _ => hrc, h.live, h.notdone, h.cons⟩

theorem inv_of_reachable {ncpu : Nat} (hcpu : 0 < ncpu) {jobs : List (Option ρ)} {s : St ρ}
    (hr : Reachable ncpu jobs s) : Inv (expected jobs) s := by
  induction hr with
  | init => exact inv_init hcpu jobs
  | step _ st ih => exact inv_step ih st

/-- a worker that is neither blocked on `results` nor returned is waiting on `jobs` -/
theorem exists_idle_of_not_all_done {ws : List (W ρ)} (hno : ¬ ∃ r l₁ l₂, ws = l₁ ++ W.holding r :: l₂)
    (hnd : ¬ ∀ w ∈ ws, w = W.done) : ∃ l₁ l₂, ws = l₁ ++ W.idle :: l₂ := by
  apply Classical.byContradiction
  intro hidle
  apply hnd
  intro w hw
  obtain ⟨l₁, l₂, hl⟩ := List.append_of_mem hw
  cases w with
  | idle => exact absurd ⟨l₁, l₂, hl⟩ hidle
  | holding r => exact absurd ⟨r, l₁, l₂, hl⟩ hno
  | done => rfl

/-- the only states without a successor are those in which every goroutine has returned -/
theorem progress_of_inv {E : List ρ} {s : St ρ} (h : Inv E s) (hf : ¬ allReturned s) : ∃ s', Step s s' := by
  by_cases hmd : s.mainDone = true
  · -- main is gone: results closed, all workers done; what is missing is the feeder's close(jobs)
    have hrc := h.md hmd
    have hall := h.rc hrc
    have hjc : s.jobsClosed = false := by
      cases hj : s.jobsClosed with
      | false => rfl
      | true => exact absurd ⟨hmd, hj, hrc, hall⟩ hf
    cases htd : s.todo with
    | nil => exact ⟨_, .closeJobs s htd hjc⟩
    | cons j rest =>
      have hne := h.live (by simp [htd])
      obtain ⟨w, ws, hw⟩ := List.exists_cons_of_ne_nil hne
      exact absurd (hall w (by simp [hw])) (h.notdone hjc w (by simp [hw]))
  have hmd' : s.mainDone = false := by simpa using hmd
  by_cases hrc : s.resultsClosed = true
  · exact ⟨_, .mainExit s hrc hmd'⟩
  have hrc' : s.resultsClosed = false := by simpa using hrc
  by_cases hh : ∃ r l₁ l₂, s.workers = l₁ ++ W.holding r :: l₂
  · obtain ⟨r, l₁, l₂, hw⟩ := hh
    exact ⟨_, .recv s r l₁ l₂ hw hmd'⟩
  by_cases hall : ∀ w ∈ s.workers, w = .done
  · by_cases hjc : s.jobsClosed = true
    · exact ⟨_, .closeResults s hall hrc'⟩
    · have hjc' : s.jobsClosed = false := by simpa using hjc
      cases htd : s.todo with
      | nil => exact ⟨_, .closeJobs s htd hjc'⟩
      | cons j rest =>
        have hne := h.live (by simp [htd])
        obtain ⟨w, ws, hw⟩ := List.exists_cons_of_ne_nil hne
        exact absurd (hall w (by simp [hw])) (h.notdone hjc' w (by simp [hw]))
  · obtain ⟨l₁, l₂, hw⟩ := exists_idle_of_not_all_done hh hall
    by_cases hjc : s.jobsClosed = true
    · exact ⟨_, .exit s l₁ l₂ hjc hw⟩
    · have hjc' : s.jobsClosed = false := by simpa using hjc
      cases htd : s.todo with
      | nil => exact ⟨_, .closeJobs s htd hjc'⟩
      | cons j rest => exact ⟨_, .send s j rest l₁ l₂ htd hw⟩

/-- when main leaves the loop: every worker has returned, nothing is left to send, and what was received is
    exactly (as a multiset) what had to arrive -/
theorem result_of_inv {E : List ρ} {s : St ρ} (h : Inv E s) (hf : final s) :
    allWorkersDone s ∧ s.resultsClosed = true ∧ s.todo = [] ∧ s.acc.Perm E := by
  have hrc := h.md hf
  have hall := h.rc hrc
  have htd : s.todo = [] := by
    cases hws : s.workers with
    | nil =>
      cases htd : s.todo with
      | nil => rfl
      | cons j rest => exact absurd hws (h.live (by simp [htd]))
    | cons w ws =>
      have hwd : w = .done := hall w (by simp [hws])
      cases hj : s.jobsClosed with
      | true => exact h.closed_todo hj
      | false => exact absurd hwd (h.notdone hj w (by simp [hws]))
  have hheld : s.workers.filterMap held = [] := by
    apply List.filterMap_eq_nil_iff.mpr
    intro w hw
    rw [hall w hw]; rfl
  have hc := h.cons
  rw [hheld, htd] at hc
  exact ⟨hall, hrc, htd, by simpa using hc⟩

theorem measure_decreases {s s' : St ρ} (st : Step s s') : measure s' < measure s := by
  cases st with
  | send j rest l₁ l₂ htd hw =>
    cases j <;> simp [measure, htd, hw, List.sum_append] <;> omega
  | closeJobs htd hjc => simp [measure, hjc]
  | exit l₁ l₂ hjc hw => simp [measure, hw, List.sum_append]
  | recv r l₁ l₂ hw hmd => simp [measure, hw, List.sum_append]
  | closeResults hall hrc => simp [measure, hrc]
  | mainExit hrc hmd => simp [measure, hmd]

theorem steps_bound {n : Nat} {s s' : St ρ} (h : Steps n s s') : n + measure s' ≤ measure s := by
  induction h with
  | refl => simp
  | cons st _ ih => have := measure_decreases st; omega

theorem sum_map_wgt_replicate_idle (n : Nat) : ((List.replicate n (W.idle : W ρ)).map wgt).sum = n := by
  induction n with
  | zero => rfl
  | succ n _ => simp [List.replicate_succ]; omega

theorem measure_init (ncpu : Nat) (jobs : List (Option ρ)) :
    measure (init ncpu jobs) = 4 * jobs.length + nWorkers ncpu jobs.length + 3 := by
  simp [measure, init]

end Spok.HashPool
