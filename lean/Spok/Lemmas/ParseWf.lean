import Spok.Lemmas.LexLine
import Spok.Lemmas.ParseTreeOK
/-! # `parse_wf`: the parser only ever returns well-formed trees

The round-trip theorems of the formatter (C07, C11, C15) are proved for every tree with
`wfTree t = true`; this file closes the gap: every tree a successful parse returns is such a tree.

The proof is a value-level refinement of the C08 stream invariant: `WfTok` (the refined stream
predicate `StrV`), `WfPrim` / `WfLex` / `WfLexCmd` (every lexer state function establishes it; `WfCmd`
for the command-text scan in its real context), `WfParse` (the parser on such a stream). -/
namespace Spok

set_option linter.unusedVariables false in
/-- **the parser only returns well-formed trees** (the hypothesis `RunesOK` is not used: it is kept
    so that the statement composes with the C08 / C16 results, which need it) -/
theorem parse_wf (rs : List Rune) (hok : RunesOK rs) : (parseRunes rs).fail = none → wfTree (parseRunes rs).tree = true :=
  fun h => parse_wf' rs h

theorem parse_wf_bytes (bs : List UInt8) : (parse bs).fail = none → wfTree (parse bs).tree = true :=
  fun h => parse_wf' (decodeAll bs) h

/-! ## non-vacuity -/

/-- a comment, a task with docstring, dependencies, a parenthesised output and two commands (an
    interpolation, a CRLF line end, the one-line closing style), a call and a final `NAME := OTHER` -/
def wfSample : List UInt8 :=
  "# c\n# doc\ntask t(\"a\", b) -> (c) {\n go {{x}} build\r\n ls }\ny := f(\"z\")\nx := y".toUTF8.toList

set_option maxRecDepth 100000 in
theorem wfSample_parses : (parse wfSample).fail = none ∧ (parse wfSample).tree.length = 4 := by decide +kernel

example : wfTree (parse wfSample).tree = true := parse_wf_bytes wfSample wfSample_parses.1

/-- `wfTree` is not trivially true: a name beginning with the keyword, `NAME := OTHER` before another
    statement, a comment in front of a task without docstring -/
example : wfTree [.assign [asc 116, asc 97, asc 115, asc 107] (.str [])] = false ∧
    wfTree [.assign [asc 120] (.ident [asc 121]), .comment []] = false ∧
    wfTree [.comment [asc 120], .task [asc 116] [] [] [] []] = false := by decide

end Spok
