import Spok.Lemmas.LexLine
import Spok.Lemmas.ParseTreeOK
/-! # `parse_wf`: the parser only ever returns well-formed trees

The round-trip theorems of the formatter (C07, C11, C15) are proved for every tree with
`wfTree t = true`; this file closes the gap: every tree a successful parse returns is such a tree.

The proof is a value-level refinement of the C08 stream invariant: `WfTok` (the refined stream
predicate `StrV`), `WfPrim` / `WfLex` / `WfLexCmd` (every lexer state function establishes it; `WfCmd`
for the command-text scan in its real context), `WfParse` (the parser on such a stream). -/
namespace Spok

set_option linter.unusedVariables false in
/-- **the parser only returns well-formed trees** (the hypothesis `RunesOK` is not used: it is kept
    so that the statement composes with the C08 / C16 results, which need it) -/
theorem parse_wf (rs : List Rune) (hok : RunesOK rs) : (parseRunes rs).fail = none → wfTree (parseRunes rs).tree = true :=
  fun h => parse_wf' rs h

theorem parse_wf_bytes (bs : List UInt8) : (parse bs).fail = none → wfTree (parse bs).tree = true :=
  fun h => parse_wf' (decodeAll bs) h

end Spok
