import Spok.Json.Cache
/-! # The scanner on what `Dump` writes: segments

`Seg s seg s'`: scanning `seg` from state `s` ends in `s'`, and after every *strict* prefix of `seg` the scanner is in
a state from which end-of-input is an error (`NA`: the value is not complete — the parse stack is not empty). -/
namespace Spok.Json

/-- not accepting: the top-level value has not ended and something is still open -/
def NA (s : Sc) : Prop := s.endTop = false ∧ s.stack ≠ []

/-- a state without error or completed top-level value -/
abbrev St (stp : Step) (stk : List PS) : Sc := ⟨stp, stk, false, false⟩

theorem NA_St {stp : Step} {stk : List PS} (h : stk ≠ []) : NA (St stp stk) := ⟨rfl, h⟩

theorem endValue_space_endTop (s : Sc) (h : NA s) : (endValue s 32).endTop = false := by
  obtain ⟨h1, h2⟩ := h
  unfold endValue
  cases hs : s.stack with
  | nil => exact absurd hs h2
  | cons p rest => simp [isSpace, h1]

/-- at end of input a non-accepting state is "unexpected end of JSON input" -/
theorem NA.not_eofOk {s : Sc} (h : NA s) : s.eofOk = false := by
  have h1 := h.1
  have h2 := h.2
  have hev := endValue_space_endTop s h
  unfold Sc.eofOk
  by_cases he : s.err = true
  · simp [he]
  · simp only [he, Bool.false_eq_true, if_false, h1]
    cases hs : s.stack with
    | nil => exact absurd hs h2
    | cons p rest =>
      unfold stepFn
      cases hst : s.step <;>
        simp_all [isSpace, beginValue, beginString, endTopStep, Sc.fail, state0, stateESign, lit, hexStep, isDigit, isHex]

def Seg (s : Sc) (seg : Bytes) (s' : Sc) : Prop :=
  scan s seg = s' ∧ ∀ q, q <+: seg → q ≠ seg → NA (scan s q)

theorem Seg.nil (s : Sc) : Seg s [] s := by
  refine ⟨rfl, ?_⟩
  intro q hq hne
  exact absurd (List.prefix_nil.mp hq) hne

theorem Seg.cons {s s' : Sc} {c : UInt8} {rest : Bytes} (hs : NA s) (h : Seg (feed s c) rest s') : Seg s (c :: rest) s' := by
  refine ⟨by rw [scan_cons]; exact h.1, ?_⟩
  intro q hq hne
  cases q with
  | nil => exact hs
  | cons d q' =>
    obtain ⟨rfl, hq'⟩ := List.cons_prefix_cons.mp hq
    rw [scan_cons]
    exact h.2 q' hq' (by intro he; exact hne (by rw [he]))

theorem prefix_append_cases {α : Type} {q a b : List α} (h : q <+: a ++ b) : q <+: a ∨ ∃ q', q = a ++ q' ∧ q' <+: b := by
  induction a generalizing q with
  | nil => exact Or.inr ⟨q, rfl, by simpa using h⟩
  | cons x a ih =>
    cases q with
    | nil => exact Or.inl (List.nil_prefix)
    | cons y q =>
      rw [List.cons_append] at h
      obtain ⟨rfl, hq⟩ := List.cons_prefix_cons.mp h
      rcases ih hq with h1 | ⟨q', rfl, h2⟩
      · exact Or.inl (List.cons_prefix_cons.mpr ⟨rfl, h1⟩)
      · exact Or.inr ⟨q', rfl, h2⟩

theorem Seg.append {s s1 s2 : Sc} {a b : Bytes} (ha : Seg s a s1) (hb : Seg s1 b s2) : Seg s (a ++ b) s2 := by
  refine ⟨by rw [scan_append, ha.1, hb.1], ?_⟩
  intro q hq hne
  rcases prefix_append_cases hq with h1 | ⟨q', rfl, h2⟩
  · by_cases hqa : q = a
    · subst hqa
      have hb0 : b ≠ [] := by intro hb0; exact hne (by simp [hb0])
      have := hb.2 [] List.nil_prefix (by intro h; exact hb0 h.symm)
      rw [ha.1]; simpa using this
    · exact ha.2 q h1 hqa
  · rw [scan_append, ha.1]
    exact hb.2 q' h2 (by intro h; exact hne (by rw [h]))

/-- the conclusion the property needs: a strict prefix of a segment that starts in a non-accepting… anywhere -/
theorem Seg.prefix_not_eofOk {s s' : Sc} {seg q : Bytes} (h : Seg s seg s') (hq : q <+: seg) (hne : q ≠ seg) :
    (scan s q).eofOk = false := (h.2 q hq hne).not_eofOk

end Spok.Json
