import Spok.Lemmas.GraphClosure
import Spok.Lemmas.GraphKahn
/-! # `plan` = load, closure, sort, length test: complete case analysis, for every oracle (`plan_spec`) -/
namespace Spok.Graph

variable {α : Type} [DecidableEq α]

theorem wf_of_selected {ts : Table α} {req : List α} {g : Graph α} (hs : Selected ts req g) : WF g.verts g.edges where
  vnodup := hs.vnodup
  enodup := hs.enodup
  inV := by
    intro p c hpc
    have := (hs.edges_iff p c).mp hpc
    exact ⟨(hs.verts_iff p).mpr (.dep ((hs.verts_iff c).mp this.1) this.2), this.1⟩

theorem reach_nil {ts : Table α} {n : α} : ¬ Reach ts [] n := by
  intro h
  induction h with
  | req h => cases h
  | dep _ _ ih => exact ih

/-- a path of graph edges is a path of declared dependencies -/
theorem depPath_of_edgePath {ts : Table α} {req : List α} {g : Graph α} (hs : Selected ts req g) {a b : α}
    (h : Relation.TransGen (fun p c => (p, c) ∈ g.edges) a b) : Relation.TransGen (DependsOn ts) a b := by
  induction h with
  | single h => exact .single ((hs.edges_iff _ _).mp h).2
  | tail _ h ih => exact .tail ih ((hs.edges_iff _ _).mp h).2

/-- a path of declared dependencies that ends in a selected task runs inside the graph -/
theorem edgePath_of_depPath {ts : Table α} {req : List α} {g : Graph α} (hs : Selected ts req g) {a b : α}
    (h : Relation.TransGen (DependsOn ts) a b) : b ∈ g.verts → Relation.TransGen (fun p c => (p, c) ∈ g.edges) a b := by
  induction h with
  | single h => exact fun hb => .single ((hs.edges_iff _ _).mpr ⟨hb, h⟩)
  | tail _ h ih =>
    intro hc
    have he := (hs.edges_iff _ _).mpr ⟨hc, h⟩
    exact .tail (ih ((wf_of_selected hs).inV _ _ he).1) he

theorem sort_of_no_verts {g : Graph α} (o : Oracle α) (h : g.verts = []) : sort o g = .error .cycle := by
  have : initQueue o g = [] := by
    unfold initQueue
    rw [h, (reorder_perm o.init []).eq_nil]
    rfl
  simp [sort, this]

/-- everything `plan` can answer, and when -/
inductive PlanSpec (ts : Table α) (req : List α) : Outcome (List α) → Prop
  | ok (order : List α) :
      (names ts).Nodup → (∀ n, Reach ts req n → (lookup ts n).isSome) → ¬ Cyclic ts req → req ≠ [] →
      order.Nodup → (∀ n, n ∈ order ↔ Reach ts req n) →
      (∀ a b, b ∈ order → a ∈ deps ts b → order.idxOf a < order.idxOf b) → PlanSpec ts req (.ok order)
  | duplicate : ¬ (names ts).Nodup → PlanSpec ts req (.error .duplicate)
  | undefined (e : Err) : (names ts).Nodup → (e = .noSuchTask ∨ e = .noSuchDependency) →
      (∃ n, Reach ts req n ∧ lookup ts n = none) → PlanSpec ts req (.error e)
  | cycle : (names ts).Nodup → (∀ n, Reach ts req n → (lookup ts n).isSome) → Cyclic ts req → PlanSpec ts req (.error .cycle)
  | empty : (names ts).Nodup → req = [] → PlanSpec ts req (.error .cycle)

theorem plan_spec (o : Oracle α) (ts : Table α) (req : List α) : PlanSpec ts req (plan o ts req) := by
  unfold plan
  rw [load_eq]
  by_cases hnd' : ¬ (names ts).Nodup
  · simp only [hnd', if_false]
    exact .duplicate hnd'
  have hnd : (names ts).Nodup := Classical.not_not.mp hnd'
  simp only [hnd, if_true]
  cases hc : closure ts req with
  | error e =>
    have := closure_error hc
    exact .undefined e hnd this.1 this.2
  | ok g =>
    have hs := closure_ok hc
    have hwf := wf_of_selected hs
    have hdef : ∀ n, Reach ts req n → (lookup ts n).isSome := fun n hn => hs.defined n ((hs.verts_iff n).mpr hn)
    have cyc_of : ∀ v ∈ g.verts, Relation.TransGen (fun p c => (p, c) ∈ g.edges) v v → Cyclic ts req :=
      fun v hv hcyc => ⟨v, (hs.verts_iff v).mp hv, depPath_of_edgePath hs hcyc⟩
    simp only
    rcases sort_spec hwf o with ⟨r, hr, hseq, hstuck⟩ | ⟨herr, hstuck⟩
    · rw [hr]
      simp only
      by_cases hlen : r.length = g.verts.length
      · -- every vertex was emitted
        simp only [hlen, ne_eq, not_true_eq_false, if_false]
        have hcov := covers_of_length hseq.nodup hseq.subset (Nat.le_of_eq hlen.symm)
        have hmem : ∀ n, n ∈ r ↔ Reach ts req n := fun n =>
          ⟨fun h => (hs.verts_iff n).mp (hseq.subset n h), fun h => hcov n ((hs.verts_iff n).mpr h)⟩
        refine .ok r hnd hdef ?_ ?_ hseq.nodup hmem ?_
        · rintro ⟨n, hn, hcyc⟩
          have hnv := (hs.verts_iff n).mpr hn
          exact hseq.not_on_cycle (hcov n hnv) (edgePath_of_depPath hs hcyc hnv)
        · rintro rfl
          have : g.verts = [] := by
            cases hv : g.verts with
            | nil => rfl
            | cons v vs =>
              exact absurd ((hs.verts_iff v).mp (by simp [hv])) reach_nil
          rw [sort_of_no_verts o this] at hr
          cases hr
        · intro a b hb hab
          exact hseq.parents_before a b ((hs.edges_iff a b).mpr ⟨hseq.subset b hb, hab⟩) hb
      · -- some vertex was never emitted: it hangs below a cycle
        simp only [ne_eq, hlen, not_false_eq_true, if_true]
        rcases EmitSeq.covers_or_cycle (fun p c h => (hwf.inV p c h).1) hstuck with hcov | ⟨v, hv, _, hcyc⟩
        · exfalso
          apply hlen
          apply Nat.le_antisymm
          · exact hseq.nodup.length_le_of_subset (fun x hx => hseq.subset x hx)
          · exact hs.vnodup.length_le_of_subset (fun x hx => hcov x hx)
        · exact .cycle hnd hdef (cyc_of v hv hcyc)
    · rw [herr]
      simp only
      by_cases hreq : req = []
      · exact .empty hnd hreq
      · rcases EmitSeq.covers_or_cycle (acc := []) (fun p c h => (hwf.inV p c h).1) hstuck with hcov | ⟨v, hv, _, hcyc⟩
        · exfalso
          cases req with
          | nil => exact hreq rfl
          | cons r rs =>
            have := hcov r ((hs.verts_iff r).mpr (.req List.mem_cons_self))
            cases this
        · exact .cycle hnd hdef (cyc_of v hv hcyc)

/-! ## consequences in the shape the property theorems use -/

theorem plan_ne_spin (o : Oracle α) (ts : Table α) (req : List α) : plan o ts req ≠ .spin := by
  intro h
  have := plan_spec o ts req
  rw [h] at this
  cases this

theorem erroneous_of_plan_error {o : Oracle α} {ts : Table α} {req : List α} {e : Err}
    (h : plan o ts req = .error e) : req = [] ∨ Erroneous ts req := by
  have := plan_spec o ts req
  rw [h] at this
  cases this with
  | duplicate hd => exact Or.inr (Or.inl hd)
  | undefined _ _ _ hu => exact Or.inr (Or.inr (Or.inl hu))
  | cycle _ _ hc => exact Or.inr (Or.inr (Or.inr hc))
  | empty _ hr => exact Or.inl hr

theorem not_erroneous_of_plan_ok {o : Oracle α} {ts : Table α} {req : List α} {order : List α}
    (h : plan o ts req = .ok order) : ¬ Erroneous ts req := by
  have := plan_spec o ts req
  rw [h] at this
  cases this with
  | ok _ hnd hdef hcyc _ _ _ _ =>
    rintro (h1 | ⟨n, hn, hu⟩ | h3)
    · exact h1 hnd
    · have := hdef n hn
      unfold Undefined at hu
      rw [hu] at this; cases this
    · exact hcyc h3

/-- with an empty request nothing is selected, so only a duplicate definition makes the configuration erroneous -/
theorem erroneous_nil_iff {ts : Table α} : Erroneous ts [] ↔ ¬ (names ts).Nodup := by
  constructor
  · rintro (h | ⟨n, hn, _⟩ | ⟨n, hn, _⟩)
    · exact h
    · exact absurd hn reach_nil
    · exact absurd hn reach_nil
  · exact Or.inl

omit [DecidableEq α] in
theorem runLoop_calls (fails : α → Bool) (order : List α) (res : List (α × Bool)) :
    (runLoop fails order res).map Prod.fst = res.map Prod.fst ++ order := by
  induction order generalizing res with
  | nil => simp [runLoop]
  | cons t rest ih => simp [runLoop, ih]

end Spok.Graph
