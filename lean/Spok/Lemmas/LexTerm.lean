import Spok.Lemmas.LexRight
import Spok.Props.Facts
/-! # Termination of the lexer: every state function makes progress

`rank` orders the states so that a transition which consumes no input goes strictly down; together
with "the remaining input never grows" this bounds the number of steps of `runF` by `3·|input| + 2`
and shows `lexTaskCommandsF` never exhausts its fuel. -/
namespace Spok

def rank : Tag → Nat
  | .done | .spin => 0
  | .hash | .taskKeyword | .leftParen | .rightParen | .comma | .leftBrace | .rightBrace | .declare
  | .outputOp | .string | .declString => 1
  | .start | .args | .taskBody | .taskCommands | .taskName => 2
  | .ident | .comment => 3

/-- progress of one step from `(l, t)` to `p`: never `.spin`, and either finished or strictly smaller -/
def Dec (l : L) (t : Tag) (p : L × Tag) : Prop :=
  p.2 ≠ .spin ∧ (p.2 = .done ∨ 3 * p.1.right.length + rank p.2 < 3 * l.right.length + rank t)

theorem isIdent_eofRune : isIdent eofRune = false := by
  have := Props.Facts.runeError_not_letter
  simp [isIdent, isLetter, eofRune, this]

theorem isLetter_eofRune : isLetter eofRune = false := Props.Facts.runeError_not_letter

/-- `next` on an exhausted input yields the end-of-input rune -/
theorem L.next_rune_nil {l : L} (h : l.right = []) : (l.next).2 = eofRune := by simp [L.next, h]
theorem L.peek_rune (l : L) : (l.peek).2 = (l.next).2 := by simp [L.peek]

theorem right_ne_nil_of_isIdent_next {l : L} (h : isIdent (l.next).2 = true) : l.right ≠ [] := by
  intro hn; rw [L.next_rune_nil hn, isIdent_eofRune] at h; cases h
theorem right_ne_nil_of_isLetter_next {l : L} (h : isLetter (l.next).2 = true) : l.right ≠ [] := by
  intro hn; rw [L.next_rune_nil hn, isLetter_eofRune] at h; cases h

theorem tail_length_lt {α} {xs : List α} (h : xs ≠ []) : xs.tail.length < xs.length := by
  cases xs with | nil => exact absurd rfl h | cons => simp

theorem drop_length_lt {α} {xs : List α} {n : Nat} (h : xs ≠ []) (hn : 0 < n) : (xs.drop n).length < xs.length := by
  cases xs with | nil => exact absurd rfl h | cons => simp; omega

theorem dec_error (l l0 : L) (t : Tag) : Dec l0 t l.error := by simp [Dec, L.error]

theorem dec_lexStart (l : L) : Dec l .start (lexStart l) := by
  have hs := skipWs_right_le l
  unfold lexStart
  simp only []
  split
  · refine ⟨by simp, Or.inr ?_⟩; simp [rank]; omega
  · split
    · refine ⟨by simp, Or.inr ?_⟩; simp [rank]; omega
    · split
      · rename_i hi
        rw [L.peek_rune] at hi
        have hne := right_ne_nil_of_isIdent_next hi
        have := tail_length_lt hne
        refine ⟨by simp, Or.inr ?_⟩; simp [rank]; omega
      · split
        · exact ⟨by simp, Or.inl rfl⟩
        · exact dec_error _ _ _

theorem dec_lexHash (l : L) : Dec l .hash (lexHash l) := by
  unfold lexHash
  split
  · exact ⟨by simp, Or.inl rfl⟩
  · rename_i h
    have hne : l.right ≠ [] := by simpa using h
    have := drop_length_lt (n := 1) hne (by omega)
    refine ⟨by simp, Or.inr ?_⟩; simp [rank]; omega

theorem dec_lexComment (l : L) : Dec l .comment (lexComment l) := by
  have := scanComment_right_le l
  unfold lexComment
  refine ⟨by simp, Or.inr ?_⟩; simp [rank]; omega

theorem dec_lexTaskKeyword (l : L) : Dec l .taskKeyword (lexTaskKeyword l) := by
  unfold lexTaskKeyword
  split
  · exact ⟨by simp, Or.inl rfl⟩
  · rename_i h
    have hne : l.right ≠ [] := by simpa using h
    have := drop_length_lt (n := 4) hne (by omega)
    have hs := skipWs_right_le ((l.absorb 4).emit .task)
    refine ⟨by simp, Or.inr ?_⟩; simp [rank] at hs ⊢; omega

theorem dec_lexLeftParen (l : L) : Dec l .leftParen (lexLeftParen l) := by
  unfold lexLeftParen
  split
  · exact ⟨by simp, Or.inl rfl⟩
  · rename_i h
    have hne : l.right ≠ [] := by simpa using h
    have := drop_length_lt (n := 1) hne (by omega)
    have hs := skipWs_right_le ((l.absorb 1).emit .lparen)
    refine ⟨by simp, Or.inr ?_⟩; simp [rank] at hs ⊢; omega

theorem dec_lexLeftBrace (l : L) : Dec l .leftBrace (lexLeftBrace l) := by
  unfold lexLeftBrace
  split
  · exact ⟨by simp, Or.inl rfl⟩
  · rename_i h
    have hne : l.right ≠ [] := by simpa using h
    have := drop_length_lt (n := 1) hne (by omega)
    have hs := skipWs_right_le ((l.absorb 1).emit .lbrace)
    refine ⟨by simp, Or.inr ?_⟩; simp [rank] at hs ⊢; omega

theorem dec_lexRightBrace (l : L) : Dec l .rightBrace (lexRightBrace l) := by
  unfold lexRightBrace
  split
  · exact ⟨by simp, Or.inl rfl⟩
  · rename_i h
    have hne : l.right ≠ [] := by simpa using h
    have := drop_length_lt (n := 1) hne (by omega)
    refine ⟨by simp, Or.inr ?_⟩; simp [rank]; omega

theorem dec_lexRightParen (l : L) : Dec l .rightParen (lexRightParen l) := by
  unfold lexRightParen
  split
  · exact ⟨by simp, Or.inl rfl⟩
  · rename_i h
    have hne : l.right ≠ [] := by simpa using h
    have := drop_length_lt (n := 1) hne (by omega)
    have hs := skipWs_right_le ((l.absorb 1).emit .rparen)
    simp only [L.emit_right, L.absorb_right] at hs
    simp only []
    split
    · refine ⟨by simp, Or.inr ?_⟩; simp [rank]; omega
    · split
      · refine ⟨by simp, Or.inr ?_⟩; simp [rank]; omega
      · split
        · refine ⟨by simp, Or.inr ?_⟩; simp [rank]; omega
        · split
          · refine ⟨by simp, Or.inr ?_⟩; simp [rank]; omega
          · exact dec_error _ _ _

theorem dec_lexOutputOp (l : L) : Dec l .outputOp (lexOutputOp l) := by
  unfold lexOutputOp
  split
  · exact ⟨by simp, Or.inl rfl⟩
  · rename_i h
    have hne : l.right ≠ [] := by simpa using h
    have := drop_length_lt (n := 2) hne (by omega)
    have hs := skipWs_right_le ((l.absorb 2).emit .output)
    simp only [L.emit_right, L.absorb_right] at hs
    have ht : ∀ (xs : List Rune), xs.tail.length ≤ xs.length := fun xs => by cases xs <;> simp
    have ht' := ht (skipWs ((l.absorb 2).emit .output)).right
    simp only []
    split
    · refine ⟨by simp, Or.inr ?_⟩; simp [rank]; omega
    · split
      · refine ⟨by simp, Or.inr ?_⟩; simp [rank]; omega
      · split
        · refine ⟨by simp, Or.inr ?_⟩; simp [rank]; omega
        · split
          · exact dec_error _ _ _
          · split
            · exact dec_error _ _ _
            · exact dec_error _ _ _

theorem dec_lexTaskBody (l : L) : Dec l .taskBody (lexTaskBody l) := by
  unfold lexTaskBody
  split
  · exact dec_error _ _ _
  · have hs := skipWs_right_le l
    simp only []
    split
    · refine ⟨by simp, Or.inr ?_⟩; simp [rank]; omega
    · split
      · rename_i hl
        have hne := right_ne_nil_of_isLetter_next hl
        have := tail_length_lt hne
        refine ⟨by simp, Or.inr ?_⟩; simp [rank]; omega
      · exact dec_error _ _ _

theorem dec_lexTaskName (l : L) : Dec l .taskName (lexTaskName l) := by
  have h1 := scanIdent_right_le l
  have h2 := skipWs_right_le ((scanIdent l).emit .ident)
  simp only [L.emit_right] at h2
  unfold lexTaskName
  simp only []
  split
  · exact dec_error _ _ _
  · refine ⟨by simp, Or.inr ?_⟩; simp [rank]; omega

theorem dec_lexIdent (l : L) : Dec l .ident (lexIdent l) := by
  have h1 := scanIdent_right_le l
  have h2 := skipWs_right_le ((scanIdent l).emit .ident)
  simp only [L.emit_right] at h2
  unfold lexIdent
  simp only []
  split
  · refine ⟨by simp, Or.inr ?_⟩; simp [rank]; omega
  · split
    · refine ⟨by simp, Or.inr ?_⟩; simp [rank]; omega
    · split
      · refine ⟨by simp, Or.inr ?_⟩; simp [rank]; omega
      · split
        · refine ⟨by simp, Or.inr ?_⟩; simp [rank]; omega
        · split
          · refine ⟨by simp, Or.inr ?_⟩; simp [rank]; omega
          · split
            · refine ⟨by simp, Or.inr ?_⟩; simp [rank]; omega
            · exact dec_error _ _ _

theorem dec_lexArgs (l : L) : Dec l .args (lexArgs l) := by
  have hs := skipWs_right_le l
  have ht : ∀ (xs : List Rune), xs.tail.length ≤ xs.length := fun xs => by cases xs <;> simp
  have ht' := ht (skipWs l).right
  unfold lexArgs
  simp only []
  split
  · refine ⟨by simp, Or.inr ?_⟩; simp [rank]; omega
  · split
    · refine ⟨by simp, Or.inr ?_⟩; simp [rank]; omega
    · split
      · rename_i hi
        have hne := right_ne_nil_of_isIdent_next hi
        have := tail_length_lt hne
        refine ⟨by simp, Or.inr ?_⟩; simp [rank]; omega
      · split
        · refine ⟨by simp, Or.inr ?_⟩; simp [rank]; omega
        · split
          · refine ⟨by simp, Or.inr ?_⟩; simp [rank]; omega
          · exact dec_error _ _ _

theorem dec_lexComma (l : L) : Dec l .comma (lexComma l) := by
  unfold lexComma
  split
  · exact ⟨by simp, Or.inl rfl⟩
  · rename_i h
    have hne : l.right ≠ [] := by simpa using h
    have := drop_length_lt (n := 1) hne (by omega)
    have hs := skipWs_right_le ((l.absorb 1).emit .comma)
    simp only [L.emit_right, L.absorb_right] at hs
    have ht : ∀ (xs : List Rune), xs.tail.length ≤ xs.length := fun xs => by cases xs <;> simp
    have ht' := ht (skipWs ((l.absorb 1).emit .comma)).right
    simp only []
    split
    · refine ⟨by simp, Or.inr ?_⟩; simp [rank]; omega
    · split
      · refine ⟨by simp, Or.inr ?_⟩; simp [rank]; omega
      · split
        · refine ⟨by simp, Or.inr ?_⟩; simp [rank]; omega
        · exact dec_error _ _ _

theorem dec_lexDeclare (l : L) : Dec l .declare (lexDeclare l) := by
  have hs := skipWs_right_le l
  unfold lexDeclare
  simp only []
  split
  · exact ⟨by simp, Or.inl rfl⟩
  · rename_i h
    have hne : (skipWs l).right ≠ [] := by simpa using h
    have := drop_length_lt (n := 2) hne (by omega)
    have hs2 := skipWs_right_le (((skipWs l).absorb 2).emit .declare)
    simp only [L.emit_right, L.absorb_right] at hs2
    have ht : ∀ (xs : List Rune), xs.tail.length ≤ xs.length := fun xs => by cases xs <;> simp
    have ht' := ht (skipWs (((skipWs l).absorb 2).emit .declare)).right
    split
    · refine ⟨by simp, Or.inr ?_⟩; simp [rank]; omega
    · split
      · refine ⟨by simp, Or.inr ?_⟩; simp [rank]; omega
      · exact dec_error _ _ _

theorem dec_lexString (l : L) : Dec l .string (lexString l) := by
  unfold lexString
  split
  · exact dec_error _ _ _
  · rename_i l' h
    have := scanString_ok_right_lt l l' h
    simp only []
    split
    · refine ⟨by simp, Or.inr ?_⟩; simp [rank]; omega
    · split
      · refine ⟨by simp, Or.inr ?_⟩; simp [rank]; omega
      · refine ⟨by simp, Or.inr ?_⟩; simp [rank]; omega

theorem dec_lexDeclString (l : L) : Dec l .declString (lexDeclString l) := by
  unfold lexDeclString
  split
  · exact dec_error _ _ _
  · rename_i l' h
    have h0 := scanString_ok_right_lt l l' h
    simp only []
    generalize hm : (if (l'.emit .string).atEOF then l'.emit .string else ((l'.emit .string).atEOL).1) = m
    have hmr : m.right = l'.right := by subst hm; split <;> simp
    have key := skipBlanks_right_le m
    rw [hmr] at key
    split
    · refine ⟨by simp, Or.inr ?_⟩; simp [rank]; omega
    · split
      · refine ⟨by simp, Or.inr ?_⟩; simp [rank]; omega
      · exact dec_error _ _ _

end Spok

namespace Spok

theorem dropWhile_append_of_all {α} (p : α → Bool) (pre xs : List α) (h : ∀ a ∈ pre, p a = true) :
    (pre ++ xs).dropWhile p = xs.dropWhile p := by
  induction pre with
  | nil => rfl
  | cons a pre ih =>
    have ha := h a (by simp)
    simp only [List.cons_append, List.dropWhile_cons, ha, if_true]
    exact ih (fun b hb => h b (by simp [hb]))

/-- a successful `lastIs c` test: `stepBack` puts a rune with code point `c` back onto the input -/
theorem L.stepBack_right_of_lastIs {l : L} {c : Nat} (h : l.lastIs c = true) :
    ∃ r, r.cp = c ∧ l.stepBack.right = r :: l.right := by
  unfold L.lastIs at h
  split at h
  · rename_i t ts r ls h1 h2
    exact ⟨r, by simpa using h, by simp [L.stepBack, h1, h2]⟩
  · cases h

theorem stripCR_right (l : L) : ∃ crs : List Rune, (∀ r ∈ crs, r.cp = CR) ∧ (stripCR l).right = crs ++ l.right := by
  induction h : l.tokRev.length using Nat.strongRecOn generalizing l with
  | _ n ih =>
    subst h
    unfold stripCR
    split
    · rename_i hc
      obtain ⟨r, hr, hs⟩ := L.stepBack_right_of_lastIs hc
      have hlt : l.stepBack.tokRev.length < l.tokRev.length := by
        unfold L.lastIs at hc
        split at hc
        · rename_i h1 h2; simp [L.stepBack, h1, h2]
        · cases hc
      obtain ⟨crs, hcrs, heq⟩ := ih _ hlt l.stepBack rfl
      refine ⟨crs ++ [r], ?_, ?_⟩
      · intro x hx
        simp only [List.mem_append, List.mem_singleton] at hx
        rcases hx with hx | rfl
        · exact hcrs x hx
        · exact hr
      · rw [heq, hs]; simp
    · exact ⟨[], by simp, by simp⟩

theorem isSpace_of_cp {r : Rune} {c : Nat} (h : r.cp = c) (hc : isSpaceCp c = true) : isSpace r = true := by
  simp [isSpace, h, hc]

/-- the command loop never runs out of fuel, and hands over to `lexRightBrace` without having grown the input -/
theorem lexTaskCommandsF_dec : ∀ (fuel : Nat) (l : L), l.right.length < fuel →
    (lexTaskCommandsF fuel l).2 ≠ .spin ∧
    ((lexTaskCommandsF fuel l).2 = .done ∨
     ((lexTaskCommandsF fuel l).2 = .rightBrace ∧ (lexTaskCommandsF fuel l).1.right.length ≤ l.right.length)) := by
  intro fuel
  induction fuel with
  | zero => intro l h; omega
  | succ fuel ih =>
    intro l hlt
    unfold lexTaskCommandsF
    cases hr : l.right with
    | nil =>
      have hn : l.next = ({ l with width := 0 }, eofRune) := by simp [L.next, hr]
      simp only [hn]
      have h1 : (eofRune.cp == NL) = false := by decide
      have h2 : (eofRune.cp == RBRACE) = false := by decide
      simp [h1, h2, L.hasPrefix, hr, L.atEOF, L.error]
    | cons r rs =>
      have hlen : l.right.length = rs.length + 1 := by rw [hr]; simp
      have hrs : rs.length < fuel := by omega
      have hn2 : (l.next).2 = r := by simp [L.next, hr]
      have hn1 : (l.next).1.right = rs := by rw [L.next_right, hr]; rfl
      have hnb : ((l.next).1.backup).right = r :: rs := by rw [L.next_backup_right, hr]
      have hab : ((l.next).1.absorb 2).right.length ≤ rs.length := by
        rw [L.absorb_right, hn1, List.length_drop]; omega
      -- what the induction hypothesis gives for a successor state that is no longer than `rs`
      have step : ∀ (m : L), m.right.length ≤ rs.length →
          (lexTaskCommandsF fuel m).2 ≠ .spin ∧
          ((lexTaskCommandsF fuel m).2 = .done ∨
           ((lexTaskCommandsF fuel m).2 = .rightBrace ∧ (lexTaskCommandsF fuel m).1.right.length ≤ (r :: rs).length)) := by
        intro m hm
        have := ih m (by omega)
        refine ⟨this.1, ?_⟩
        rcases this.2 with h | ⟨h1, h2⟩
        · exact Or.inl h
        · exact Or.inr ⟨h1, by simp only [List.length_cons]; omega⟩
      rw [show l.next = ((l.next).1, (l.next).2) from rfl]
      simp only [hn2]
      split
      · -- newline
        rename_i hnl
        have hcp : r.cp = NL := by simpa using hnl
        obtain ⟨crs, hcrs, heq⟩ := stripCR_right (l.next).1.backup
        apply step
        rw [skipWs_right, L.emit_right, heq, hnb]
        rw [dropWhile_append_of_all _ _ _ (fun x hx => isSpace_of_cp (hcrs x hx) isSpaceCp_CR)]
        simp only [List.dropWhile_cons, isSpace_of_cp hcp isSpaceCp_NL, if_true]
        exact dropWhile_length_le _ _
      · split
        · exact step _ hab
        · split
          · exact step _ hab
          · split
            · -- closing brace
              rename_i hrb
              have hcp : r.cp = RBRACE := by simpa using hrb
              refine ⟨by simp, Or.inr ⟨rfl, ?_⟩⟩
              simp only []
              -- the state handed to skipWs has `right = ws ++ r :: rs` with `ws` all whitespace
              have key : ∀ (m : L), (∃ ws : List Rune, (∀ x ∈ ws, isSpace x = true) ∧ m.right = ws ++ r :: rs) →
                  (skipWs m).right.length ≤ (r :: rs).length := by
                intro m ⟨ws, hws, hm⟩
                rw [skipWs_right, hm, dropWhile_append_of_all _ _ _ hws]
                have : isSpace r = false := by simp [isSpace, hcp, isSpaceCp_RBRACE]
                simp [List.dropWhile_cons, this]
              apply key
              -- optional step back over one blank
              have h3 : ∃ ws : List Rune, (∀ x ∈ ws, isSpace x = true) ∧
                  (if (l.next).1.backup.lastIs SP then (l.next).1.backup.stepBack else (l.next).1.backup).right = ws ++ r :: rs := by
                split
                · rename_i hsp
                  obtain ⟨x, hx, hxr⟩ := L.stepBack_right_of_lastIs hsp
                  exact ⟨[x], by intro y hy; simp at hy; subst hy; exact isSpace_of_cp hx isSpaceCp_SP, by rw [hxr, hnb]; simp⟩
                · exact ⟨[], by simp, by rw [hnb]; simp⟩
              obtain ⟨ws, hws, hw⟩ := h3
              obtain ⟨crs, hcrs, heq⟩ := stripCR_right (if (l.next).1.backup.lastIs SP then (l.next).1.backup.stepBack else (l.next).1.backup)
              refine ⟨crs ++ ws, ?_, ?_⟩
              · intro x hx
                simp only [List.mem_append] at hx
                rcases hx with hx | hx
                · exact isSpace_of_cp (hcrs x hx) isSpaceCp_CR
                · exact hws x hx
              · generalize (if (l.next).1.backup.lastIs SP then (l.next).1.backup.stepBack else (l.next).1.backup) = m3 at hw heq ⊢
                have hb : ∀ (b : Bool), (if b = true then (stripCR m3).emit .command else stripCR m3).right = (stripCR m3).right := by
                  intro b; cases b <;> simp
                rw [hb, heq, hw]; simp
            · split
              · simp [L.error]
              · split
                · exact step _ (by rw [hn1]; exact Nat.le_refl _)
                · simp [L.error]

theorem dec_lexTaskCommands (l : L) : Dec l .taskCommands (lexTaskCommands l) := by
  have := lexTaskCommandsF_dec (l.right.length + 1) l (by omega)
  unfold lexTaskCommands
  refine ⟨this.1, ?_⟩
  rcases this.2 with h | ⟨h1, h2⟩
  · exact Or.inl h
  · right; rw [h1]; simp [rank]; omega

/-- every step from a non-final state makes progress -/
theorem dec_stepTag (l : L) (t : Tag) (ht : t.final = false) : Dec l t (stepTag l t) := by
  cases t <;> simp [Tag.final] at ht <;> simp only [stepTag]
  · exact dec_lexStart l
  · exact dec_lexHash l
  · exact dec_lexComment l
  · exact dec_lexTaskKeyword l
  · exact dec_lexLeftParen l
  · exact dec_lexRightParen l
  · exact dec_lexOutputOp l
  · exact dec_lexLeftBrace l
  · exact dec_lexRightBrace l
  · exact dec_lexTaskBody l
  · exact dec_lexTaskCommands l
  · exact dec_lexTaskName l
  · exact dec_lexIdent l
  · exact dec_lexArgs l
  · exact dec_lexComma l
  · exact dec_lexDeclare l
  · exact dec_lexString l
  · exact dec_lexDeclString l

/-- `runF` with at least `3·|right| + rank t` fuel ends in `.done` -/
theorem runF_done : ∀ (fuel : Nat) (l : L) (t : Tag), t ≠ .spin → 3 * l.right.length + rank t ≤ fuel →
    (runF fuel l t).2 = .done := by
  intro fuel
  induction fuel with
  | zero =>
    intro l t hs h
    have : rank t = 0 := by omega
    cases t <;> simp [rank] at this <;> simp [runF, Tag.final] at *
  | succ fuel ih =>
    intro l t hs h
    unfold runF
    by_cases hf : t.final = true
    · simp only [hf, if_true]
      cases t <;> simp [Tag.final] at hf <;> simp at *
    · have hf' : t.final = false := by simpa using hf
      simp only [hf']
      have hd := dec_stepTag l t hf'
      rcases hd.2 with h1 | h1
      · show (runF fuel (stepTag l t).1 (stepTag l t).2).2 = .done
        rw [h1]
        cases fuel <;> simp [runF, Tag.final]
      · exact ih _ _ hd.1 (by omega)

/-- **the lexer halts**: the step budget of `lexRunes` is never exhausted and the command loop never spins -/
theorem lexRunes_halted (rs : List Rune) : (lexRunes rs).halted = true := by
  unfold lexRunes
  have := runF_done (3 * rs.length + 4) (L.init rs) .start (by simp) (by simp [L.init, rank])
  simp [this]

end Spok
