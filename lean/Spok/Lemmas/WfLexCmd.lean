import Spok.Lemmas.WfLex
/-! # The command loop of the lexer, and the whole run, at value level

`livev_cmdF`: by induction on the fuel of `lexTaskCommandsF`, with the loop-head invariant `CmdSt`
(`cmdScanF l.right s`: what the loop has scanned of the current command was scanned as command text,
in its real context).  When a command ends — at a newline, or at the closing brace — the stripped
text satisfies `cmdScanOK` (`cmd_tokOK`, via `WfCmd`).  Then `livev_stepTag`, `livev_runF` and
`lexRunes_strV`. -/
namespace Spok.PW
open Spok

variable {inp : List Rune} {l : L}

/-- `if lastIs ' ' then pos--` followed by `stripCR`: a blank and carriage returns go back to the input -/
theorem strip_spec (h : Z inp l) :
    ∃ z : List Rune, (∀ x ∈ z, x.cp = CR ∨ x.cp = SP) ∧
      l.tokRev.reverse = (stripCR (if l.lastIs SP then l.stepBack else l)).tokRev.reverse ++ z ∧
      (stripCR (if l.lastIs SP then l.stepBack else l)).right = z ++ l.right ∧
      (stripCR (if l.lastIs SP then l.stepBack else l)).toks = l.toks ∧
      (∀ x ts, (stripCR (if l.lastIs SP then l.stepBack else l)).tokRev = x :: ts → x.cp ≠ CR) ∧
      Z inp (stripCR (if l.lastIs SP then l.stepBack else l)) := by
  by_cases hsp : l.lastIs SP = true
  · obtain ⟨x, ts, e1, e2, e3, e4, e5, e6⟩ := h.lastIs_true hsp
    rw [if_pos hsp]
    obtain ⟨z, f1, f2, f3, f4, f5, f6⟩ := stripCR_spec e6
    refine ⟨z ++ [x], ?_, ?_, ?_, ?_, f5, f6⟩
    · intro y hy
      simp only [List.mem_append, List.mem_singleton] at hy
      rcases hy with hy | rfl
      · exact Or.inl (f1 y hy)
      · exact Or.inr e2
    · rw [e1, List.reverse_cons, ← e3, f2]; simp
    · rw [f3, e4]; simp
    · rw [f4, e5]
  · rw [if_neg hsp]
    obtain ⟨z, f1, f2, f3, f4, f5, f6⟩ := stripCR_spec h
    exact ⟨z, fun x hx => Or.inl (f1 x hx), f2, f3, f4, f5, f6⟩

/-- the loop has consumed `zz` (one rune, or one rune and a `{{` / `}}`) as command text -/
theorem cmdSt_extend {first : Bool} {l l' : L} {s zz : List Rune} (hzz : zz ≠ [])
    (htr : l'.tokRev.reverse = l.tokRev.reverse ++ zz) (hscan : cmdScanF l'.right (s ++ zz) = true)
    (hfirst : first = true → ∃ a, isLetter a = true ∧ l.tokRev.reverse = a :: s)
    (hnext : first = false → l.tokRev.reverse = s ∧ (∀ x rest, s = x :: rest → isSpace x = false) ∧
      (s = [] → ∀ x rest, l.right = x :: rest → isSpace x = false))
    (hhead : ∀ x rest, zz = x :: rest → ∃ R, l.right = x :: R) : CmdSt first l' := by
  refine ⟨s ++ zz, hscan, fun h => ?_, fun h => ?_⟩
  · obtain ⟨a, ha, e⟩ := hfirst h
    exact ⟨a, ha, by rw [htr, e]; rfl⟩
  · obtain ⟨e, h1, h2⟩ := hnext h
    refine ⟨by rw [htr, e], ?_, fun hn => ?_⟩
    · intro x rest hx
      cases s with
      | nil =>
        simp only [List.nil_append] at hx
        obtain ⟨R, hR⟩ := hhead x rest hx
        exact h2 rfl x R hR
      | cons y ys =>
        simp only [List.cons_append, List.cons.injEq] at hx
        obtain ⟨rfl, _⟩ := hx
        exact h1 _ _ rfl
    · exfalso
      cases s <;> cases zz <;> simp at hn hzz

theorem bodyM_ne (first : Bool) : bodyM first ≠ .afterHash ∧ bodyM first ≠ .afterTask := by
  cases first <;> exact ⟨by decide, by decide⟩

theorem trans_bodyM_command (first : Bool) : transV (bodyM first) .command = some .body1 := by
  cases first <;> rfl

theorem sub_closing_bodyM (first : Bool) : Sub inp .closing (bodyM first) := by
  cases first
  · exact sub_closing_body1
  · exact sub_closing_body0

theorem livev_cmdF : ∀ (fuel : Nat) (first : Bool) (l : L), Z inp l → TokInvV inp (bodyM first) l → CmdSt first l →
    (lexTaskCommandsF fuel l).2 ≠ .spin → InvV inp (lexTaskCommandsF fuel l) := by
  intro fuel
  induction fuel with
  | zero => intro first l _ _ _ hs; exact absurd rfl hs
  | succ fuel ih =>
    intro first l hz ht hc
    obtain ⟨hb1, hb2⟩ := bodyM_ne first
    cases hr : l.right with
    | nil =>
      have hn := next_nil hr
      intro _
      have : lexTaskCommandsF (fuel + 1) l = ({ l with width := 0 } : L).error := by
        rw [lexTaskCommandsF]; simp [hn, L.hasPrefix, hr, L.atEOF, eofRune]
      rw [this]
      exact (ht.congr (l' := { l with width := 0 }) rfl).error hb1 hb2
    | cons r R =>
      obtain ⟨n1, n2, n3, n4⟩ := next_cons hr
      obtain ⟨s, hscan, hfirst, hnext⟩ := hc
      rw [hr] at hscan
      have hz1 : Z inp (l.next).1 := hz.next
      have hz2 : Z inp (l.next).1.backup := hz.nb
      have ht1 : TokInvV inp (bodyM first) (l.next).1 := ht.congr (by simp)
      have ht2 : TokInvV inp (bodyM first) (l.next).1.backup := ht.congr (by simp)
      have hr2 : (l.next).1.backup.right = r :: R := by rw [L.next_backup_right, hr]
      have hnext' : first = false → l.tokRev.reverse = s ∧ (∀ x rest, s = x :: rest → isSpace x = false) :=
        fun h => ⟨(hnext h).1, (hnext h).2.1⟩
      -- what one iteration consumes: `r`, or `r` and two braces
      have hext : ∀ (l' : L) (zz : List Rune), zz ≠ [] → (∀ x rest, zz = x :: rest → x = r) →
          l'.tokRev.reverse = l.tokRev.reverse ++ zz → cmdScanF l'.right (s ++ zz) = true → CmdSt first l' := by
        intro l' zz h1 h2 h3 h4
        refine cmdSt_extend h1 h3 h4 hfirst hnext ?_
        intro x rest hx
        exact ⟨R, by rw [hr, h2 x rest hx]⟩
      have hjump : brace2 R = true → r.cp ≠ NL →
          ((lexTaskCommandsF fuel ((l.next).1.absorb 2)).2 ≠ .spin → InvV inp (lexTaskCommandsF fuel ((l.next).1.absorb 2))) := by
        intro hb hrnl
        obtain ⟨b1, b2, R', hR, _, _⟩ := brace2_heads hb
        refine ih first _ (hz1.absorb 2) (ht1.congr rfl) (hext _ [r, b1, b2] (by simp) ?_ ?_ ?_)
        · intro x rest hx; injection hx with h1 _; exact h1.symm
        · have : ((l.next).1.absorb 2).tokRev = ((l.next).1.right.take 2).reverse ++ (l.next).1.tokRev := rfl
          rw [this, n2, n3, hR]; simp
        · have hr3 : ((l.next).1.absorb 2).right = R' := by
            have : ((l.next).1.absorb 2).right = (l.next).1.right.drop 2 := rfl
            rw [this, n2, hR]; rfl
          rw [hr3]
          apply cmdScanF_append R' [r, b1, b2] s
          · simpa [hR] using hscan
          · exact cmdScanF_triple hrnl (by rw [← hR]; exact hb)
      have hbr : brace2 R = ((l.next).1.hasPrefix [LBRACE, LBRACE] || (l.next).1.hasPrefix [RBRACE, RBRACE]) := by
        rw [← n2]; rfl
      unfold lexTaskCommandsF
      rw [show l.next = ((l.next).1, (l.next).2) from rfl]
      simp only [n4]
      split
      · -- newline: the command ends here
        rename_i hnl
        have hnl : r.cp = NL := by simpa using hnl
        obtain ⟨z, f1, f2, f3, f4, f5, f6⟩ := stripCR_spec hz2
        rw [nb_tokRev] at f2
        rw [hr2] at f3
        have f4' : (stripCR (l.next).1.backup).toks = l.toks := by rw [f4]; simp
        have hasc : AscHead (stripCR (l.next).1.backup).right := by
          rw [f3]
          cases z with
          | nil => show r.cp < 128; omega
          | cons z0 zs => show z0.cp < 128; have := f1 z0 (by simp); omega
        have hne : first = false → (stripCR (l.next).1.backup).tokRev.reverse ≠ [] := by
          intro hf hv
          obtain ⟨e, h1, h2⟩ := hnext hf
          rw [hv, e] at f2
          simp only [List.nil_append] at f2
          cases hs : s with
          | nil =>
            have := h2 hs r R hr
            rw [isSpace_of_cp hnl isSpaceCp_NL] at this; cases this
          | cons x rest =>
            have hx := h1 x rest hs
            have : x ∈ z := by rw [← f2, hs]; simp
            rw [isSpace_of_cp (f1 x this) isSpaceCp_CR] at hx; cases hx
        have hok : tokOK inp (bodyM first) .command (stripCR (l.next).1.backup).tokRev.reverse :=
          cmd_tokOK hscan f2 (fun x hx => Or.inl (f1 x hx)) (endsWithCp_reverse f5) (f6.sla hasc) hfirst hnext' hne
        refine ih false _ (f6.emit _).skipWs ?_ ?_
        · exact ((ht.congr f4').emit (ty := .command) (trans_bodyM_command first) hok).congr (skipWs_toks _)
        · exact ⟨[], cmdScanF_nil _, fun h => (by cases h),
            fun _ => ⟨by simp [skipWs_tokRev], fun x rest h => (by cases h), fun _ => skipWs_head _⟩⟩
      · rename_i hnl
        have hrnl : r.cp ≠ NL := by simpa using hnl
        split
        · rename_i hp
          exact hjump (by rw [hbr, hp]; rfl) hrnl
        · rename_i hp1
          split
          · rename_i hp
            exact hjump (by rw [hbr, hp]; simp) hrnl
          · rename_i hp2
            have hb : brace2 R = false := by
              rw [hbr]; simp only [Bool.or_eq_false_iff]
              exact ⟨by simpa using hp1, by simpa using hp2⟩
            split
            · -- the closing brace
              rename_i hrb
              have hrb : r.cp = RBRACE := by simpa using hrb
              intro _
              obtain ⟨z, f1, f2, f3, f4, f5, f6⟩ := strip_spec hz2
              rw [nb_tokRev] at f2
              rw [hr2] at f3
              generalize stripCR (if (l.next).1.backup.lastIs SP then (l.next).1.backup.stepBack else (l.next).1.backup) = m4
                at f2 f3 f4 f5 f6
              have f4' : m4.toks = l.toks := by rw [f4]; simp
              have hasc : AscHead m4.right := by
                rw [f3]
                cases z with
                | nil => show r.cp < 128; omega
                | cons z0 zs => show z0.cp < 128; have := f1 z0 (by simp); omega
              generalize hm5 : (if (!m4.tokRev.isEmpty) = true then m4.emit .command else m4) = m5
              have h5 : Z inp m5 ∧ TokInvV inp .closing m5 ∧ m5.right = m4.right := by
                subst hm5
                split
                · rename_i hne
                  have hne : m4.tokRev.reverse ≠ [] := by
                    intro h; simp at h; simp [h] at hne
                  have hok : tokOK inp (bodyM first) .command m4.tokRev.reverse :=
                    cmd_tokOK hscan f2 f1 (endsWithCp_reverse f5) (f6.sla hasc) hfirst hnext' (fun _ => hne)
                  exact ⟨f6.emit _, ((ht.congr f4').emit (ty := .command) (trans_bodyM_command first) hok).sub sub_closing_body1, rfl⟩
                · exact ⟨f6, (ht.congr f4').sub (sub_closing_bodyM first), rfl⟩
              obtain ⟨hz5, ht5, hr5⟩ := h5
              refine ⟨hz5.skipWs, ht5.congr (skipWs_toks _), ?_⟩
              show (skipWs m5).right ≠ []
              rw [skipWs_right, hr5, f3, dropWhile_append_of_all _ _ _ (fun x hx => isSpace_of_strip (f1 x hx))]
              have : isSpace r = false := by simp [isSpace, hrb, isSpaceCp_RBRACE]
              simp [this]
            · rename_i hrb
              have hrb : r.cp ≠ RBRACE := by simpa using hrb
              split
              · intro _; exact ht1.error hb1 hb2
              · rename_i hh
                have hh : r.cp ≠ HASH := by
                  simp only [Bool.or_eq_true, not_or] at hh
                  simpa using hh.2
                split
                · rename_i hasc
                  refine ih first _ hz1 ht1 (hext _ [r] (by simp) ?_ ?_ ?_)
                  · intro x rest hx; injection hx with h1 _; exact h1.symm
                  · rw [n3]; simp
                  · rw [n2]
                    exact cmdScanF_append R [r] s hscan (cmdScanF_single hrnl hb hrb hh hasc)
                · intro _; exact ht2.error hb1 hb2

theorem livev_lexTaskCommands (h : LiveV inp l .taskCommands) : InvV inp (lexTaskCommands l) := by
  obtain ⟨hz, ht, hc⟩ := h
  exact livev_cmdF _ true l hz ht hc (dec_lexTaskCommands l).1

/-- one step of the `run` loop preserves the invariant -/
theorem livev_stepTag (t : Tag) (h : LiveV inp l t) : InvV inp (stepTag l t) := by
  cases t <;> simp only [stepTag]
  · exact livev_lexStart h
  · exact livev_lexHash h
  · exact livev_lexComment h
  · exact livev_lexTaskKeyword h
  · exact livev_lexLeftParen h
  · exact livev_lexRightParen h
  · exact livev_lexOutputOp h
  · exact livev_lexLeftBrace h
  · exact livev_lexRightBrace h
  · exact livev_lexTaskBody h
  · exact livev_lexTaskCommands h
  · exact livev_lexTaskName h
  · exact livev_lexIdent h
  · exact livev_lexArgs h
  · exact livev_lexComma h
  · exact livev_lexDeclare h
  · exact livev_lexString h
  · exact livev_lexDeclString h
  · exact h
  · exact h

theorem livev_runF : ∀ (fuel : Nat) (l : L) (t : Tag), LiveV inp l t → (runF fuel l t).2 = .done →
    StrV inp .top (runF fuel l t).1.toks.toList := by
  intro fuel
  induction fuel with
  | zero =>
    intro l t h hd
    unfold runF at hd ⊢
    by_cases hf : t.final = true
    · simp only [hf, if_true] at hd; subst hd; exact h
    · simp [hf] at hd
  | succ fuel ih =>
    intro l t h hd
    unfold runF at hd ⊢
    by_cases hf : t.final = true
    · simp only [hf, if_true] at hd ⊢; subst hd; exact h
    · simp only [hf] at hd ⊢
      exact ih _ _ (livev_stepTag t h) hd

/-- **the token stream of a whole run is an admissible stream, at value level** -/
theorem lexRunes_strV (rs : List Rune) : StrV rs .top (lexRunes rs).toks := by
  have hd := runF_done (3 * rs.length + 4) (L.init rs) .start (by simp) (by simp [L.init, rank])
  have h0 : LiveV rs (L.init rs) .start := ⟨Z.init rs, .top, Or.inl rfl, TokInvV.init rs⟩
  exact livev_runF _ _ _ h0 hd

end Spok.PW
