import Spok.Lemmas.JsonStr
import Spok.Lemmas.LexJudge
/-! # The scanner over `encStr`, an entry, and the whole of what `Dump` writes; torn writes are syntax errors -/
namespace Spok.Json
open Spok

/-- the bytes after the first of a decoded rune are continuation bytes -/
theorem decode1_more_all (b0 : UInt8) (rest : List UInt8) :
    (decode1 b0 rest).more.all (fun b => decide (128 ≤ b.toNat)) = true := by
  unfold decode1
  simp only []
  repeat' split
  all_goals simp only [List.all_cons, List.all_nil, Bool.and_true, Bool.and_eq_true, decide_eq_true_eq]
  all_goals first
    | trivial
    | (rename_i h; simp only [cont, Bool.and_eq_true, decide_eq_true_eq] at h; omega)
    | (rename_i h; simp only [cont, Bool.and_eq_true, decide_eq_true_eq] at h; refine ⟨?_, ?_⟩ <;> omega)
    | (rename_i h; simp only [cont, Bool.and_eq_true, decide_eq_true_eq] at h; refine ⟨?_, ?_, ?_⟩ <;> omega)

theorem decode1_more_high (b0 : UInt8) (rest : List UInt8) : ∀ b ∈ (decode1 b0 rest).more, 128 ≤ b.toNat := by
  have := decode1_more_all b0 rest
  simp only [List.all_eq_true, decide_eq_true_eq] at this
  exact this

theorem seg_encRune {stk : List PS} (hs : stk ≠ []) {bs : Bytes} {r : Rune} (hr : r ∈ decodeAll bs) :
    Seg (St .inString stk) (encRune r) (St .inString stk) := by
  unfold encRune
  split
  · rename_i h; exact seg_escAscii hs r.b0 h
  · rename_i h
    split
    · exact seg_u4 hs (by decide) (by decide) (by decide) (by decide)
    · split
      · exact seg_u4 hs (by decide) (by decide) (by decide) (by decide)
      · split
        · exact seg_u4 hs (by decide) (by decide) (by decide) (by decide)
        · obtain ⟨b0, rest, rfl⟩ := decodeAll_mem hr
          refine seg_high hs _ ?_
          intro b hb
          simp only [Rune.bytes, List.mem_cons] at hb
          rcases hb with rfl | hb
          · omega
          · exact decode1_more_high b0 rest b hb

theorem seg_flatMap {stk : List PS} (hs : stk ≠ []) : ∀ (rs : List Rune), (∀ r ∈ rs, Seg (St .inString stk) (encRune r) (St .inString stk)) →
    Seg (St .inString stk) (rs.flatMap encRune) (St .inString stk)
  | [], _ => Seg.nil _
  | r :: rs, h => by
    rw [List.flatMap_cons]
    exact Seg.append (h r (by simp)) (seg_flatMap hs rs (fun x hx => h x (by simp [hx])))

theorem seg_encBody {stk : List PS} (hs : stk ≠ []) (s : Bytes) : Seg (St .inString stk) (encBody s) (St .inString stk) :=
  seg_flatMap hs _ (fun _ hr => seg_encRune hs hr)

/-- a state in which `"` opens a string -/
def Opens (stp : Step) : Prop := stp = .beginValue ∨ stp = .beginString ∨ stp = .beginStringOrEmpty

theorem feed_open {stp : Step} (h : Opens stp) (stk : List PS) : feed (St stp stk) 34 = St .inString stk := by
  rw [feed_St]
  rcases h with rfl | rfl | rfl <;> (unfold stepFn; simp [beginValue, beginString, isSpace])

theorem seg_encStr {stp : Step} (h : Opens stp) {stk : List PS} (hs : stk ≠ []) (s : Bytes) :
    Seg (St stp stk) (encStr s) (St .endValue stk) := by
  unfold encStr
  refine Seg.cons (NA_St hs) ?_
  rw [feed_open h]
  refine Seg.append (seg_encBody hs s) ?_
  exact Seg.cons (NA_St hs) (by rw [inStr_quote]; exact Seg.nil _)

theorem feed_colon (rest : List PS) : feed (St .endValue (.objKey :: rest)) 58 = St .beginValue (.objVal :: rest) := by
  rw [feed_St]; unfold stepFn; simp [endValue, isSpace]

theorem feed_comma (rest : List PS) : feed (St .endValue (.objVal :: rest)) 44 = St .beginString (.objKey :: rest) := by
  rw [feed_St]; unfold stepFn; simp [endValue, isSpace]

/-- `"key":"value"` -/
theorem seg_entry {stp : Step} (h : Opens stp) (rest : List PS) (kv : KV) :
    Seg (St stp (.objKey :: rest)) (encEntry kv) (St .endValue (.objVal :: rest)) := by
  unfold encEntry
  refine Seg.append (seg_encStr h (by simp) kv.1) ?_
  refine Seg.cons (NA_St (by simp)) ?_
  rw [feed_colon]
  exact seg_encStr (Or.inl rfl) (by simp) kv.2

theorem seg_entries (rest : List PS) : ∀ (l : List KV) {stp : Step}, Opens stp → l ≠ [] →
    Seg (St stp (.objKey :: rest)) (joinComma (l.map encEntry)) (St .endValue (.objVal :: rest))
  | [], _, _, h => absurd rfl h
  | [kv], _, ho, _ => by simpa [joinComma] using seg_entry ho rest kv
  | kv :: kv2 :: l, _, ho, _ => by
    simp only [List.map_cons, joinComma]
    refine Seg.append (seg_entry ho rest kv) ?_
    refine Seg.cons (NA_St (by simp)) ?_
    rw [feed_comma]
    have := seg_entries rest (kv2 :: l) (stp := .beginString) (Or.inr (Or.inl rfl)) (by simp)
    simpa [List.map_cons] using this

/-- the state after a complete top-level value -/
def Done : Sc := ⟨.endTop, [], true, false⟩

theorem feed_close_entries : feed (St .endValue [.objVal]) 125 = Done := by
  rw [feed_St]; unfold stepFn; simp [endValue, isSpace, Sc.pop, Done]

theorem feed_close_empty : feed (St .beginStringOrEmpty [.objKey]) 125 = Done := by
  rw [feed_St]; unfold stepFn; simp [endValue, isSpace, Sc.pop, Done]

theorem feed_init_open : feed Sc.init 123 = St .beginStringOrEmpty [.objKey] := by
  simp [feed, Sc.init, stepFn, beginValue, isSpace, Sc.push, maxNestingDepth]

/-- everything after the opening brace -/
theorem seg_object_tail (l : List KV) :
    Seg (St .beginStringOrEmpty [.objKey]) (joinComma (l.map encEntry) ++ [125]) Done := by
  cases l with
  | nil =>
    simp only [List.map_nil, joinComma, List.nil_append]
    exact Seg.cons (NA_St (by simp)) (by rw [feed_close_empty]; exact Seg.nil _)
  | cons kv l =>
    refine Seg.append (seg_entries [] (kv :: l) (Or.inr (Or.inr rfl)) (by simp)) ?_
    exact Seg.cons (NA_St (by simp)) (by rw [feed_close_entries]; exact Seg.nil _)

theorem scan_encodeMap (m : List KV) : scan Sc.init (encodeMap m) = Done := by
  unfold encodeMap
  rw [scan_cons, feed_init_open]
  exact (seg_object_tail _).1

/-- what `Dump` writes is valid JSON -/
theorem valid_encodeMap (m : List KV) : valid (encodeMap m) = true := by
  unfold valid; rw [scan_encodeMap]; rfl

/-- every strict prefix of what `Dump` writes — whatever a torn write leaves behind — is rejected by the scanner -/
theorem prefix_invalid (m : List KV) (q : Bytes) (hq : q <+: encodeMap m) (hne : q ≠ encodeMap m) : valid q = false := by
  unfold encodeMap at hq hne
  cases q with
  | nil => rfl
  | cons c q' =>
    obtain ⟨rfl, hq'⟩ := List.cons_prefix_cons.mp hq
    unfold valid
    rw [scan_cons, feed_init_open]
    exact (seg_object_tail _).prefix_not_eofOk hq' (by intro h; exact hne (by rw [h]))

end Spok.Json
