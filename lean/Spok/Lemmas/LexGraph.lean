import Spok.Syntax.Lexer
/-! # The lexer's state graph

`nextTags t` lists every tag the state function of `t` can hand over to; `stepTag_next` proves the
model never leaves that list.  `Props/Facts.lean` compares the list, state function by state function,
with what the *Go source* returns from the corresponding `lexXxx` (extracted from its AST on every run),
so that a new transition in the Go lexer breaks a proof obligation. -/
namespace Spok

def nextTags : Tag → List Tag
  | .start => [.hash, .taskKeyword, .ident, .done]
  | .hash => [.comment, .done]
  | .comment => [.start]
  | .taskKeyword => [.taskName, .done]
  | .leftParen => [.args, .done]
  | .rightParen => [.leftBrace, .outputOp, .start, .hash, .done]
  | .outputOp => [.string, .leftParen, .ident, .done]
  | .leftBrace => [.taskBody, .done]
  | .rightBrace => [.start, .done]
  | .taskBody => [.rightBrace, .taskCommands, .done]
  | .taskCommands => [.rightBrace, .done, .spin]
  | .taskName => [.leftParen, .done]
  | .ident => [.leftParen, .declare, .start, .rightParen, .comma, .leftBrace, .done]
  | .args => [.rightParen, .string, .ident, .comma, .leftBrace, .done]
  | .comma => [.string, .ident, .rightParen, .done]
  | .declare => [.declString, .ident, .done]
  | .string => [.start, .args, .done]
  | .declString => [.start, .done]
  | .done => [.done]
  | .spin => [.spin]

theorem lexTaskCommandsF_next : ∀ (fuel : Nat) (l : L), (lexTaskCommandsF fuel l).2 ∈ [Tag.rightBrace, .done, .spin] := by
  intro fuel
  induction fuel with
  | zero => intro l; simp [lexTaskCommandsF]
  | succ fuel ih =>
    intro l
    unfold lexTaskCommandsF
    simp only []
    repeat' split
    all_goals first
      | exact ih _
      | simp [L.error]

theorem stepTag_next (l : L) (t : Tag) : (stepTag l t).2 ∈ nextTags t := by
  cases t <;> simp only [stepTag, nextTags]
  · unfold lexStart; simp only []; repeat' split
    all_goals simp [L.error]
  · unfold lexHash; split <;> simp
  · simp [lexComment]
  · unfold lexTaskKeyword; split <;> simp
  · unfold lexLeftParen; split <;> simp
  · unfold lexRightParen; simp only []; repeat' split
    all_goals simp [L.error]
  · unfold lexOutputOp; simp only []; repeat' split
    all_goals simp [L.error]
  · unfold lexLeftBrace; split <;> simp
  · unfold lexRightBrace; split <;> simp
  · unfold lexTaskBody; simp only []; repeat' split
    all_goals simp [L.error]
  · unfold lexTaskCommands; exact lexTaskCommandsF_next _ _
  · unfold lexTaskName; simp only []; split <;> simp [L.error]
  · unfold lexIdent; simp only []; repeat' split
    all_goals simp [L.error]
  · unfold lexArgs; simp only []; repeat' split
    all_goals simp [L.error]
  · unfold lexComma; simp only []; repeat' split
    all_goals simp [L.error]
  · unfold lexDeclare; simp only []; repeat' split
    all_goals simp [L.error]
  · unfold lexString
    split
    · simp [L.error]
    · simp only []; repeat' split
      all_goals simp
  · unfold lexDeclString
    split
    · simp [L.error]
    · simp only []; repeat' split
      all_goals simp [L.error]
  · simp
  · simp

/-- the Go name of the state function a tag stands for -/
def Tag.goName : Tag → String
  | .start => "lexStart" | .hash => "lexHash" | .comment => "lexComment" | .taskKeyword => "lexTaskKeyword"
  | .leftParen => "lexLeftParen" | .rightParen => "lexRightParen" | .outputOp => "lexOutputOperator"
  | .leftBrace => "lexLeftBrace" | .rightBrace => "lexRightBrace" | .taskBody => "lexTaskBody"
  | .taskCommands => "lexTaskCommands" | .taskName => "lexTaskName" | .ident => "lexIdent" | .args => "lexArgs"
  | .comma => "lexComma" | .declare => "lexDeclare" | .string => "lexString" | .declString => "lexDeclaredString"
  | .done => "nil" | .spin => "spin"

def Tag.live : List Tag :=
  [.start, .hash, .comment, .taskKeyword, .leftParen, .rightParen, .outputOp, .leftBrace, .rightBrace, .taskBody,
   .taskCommands, .taskName, .ident, .args, .comma, .declare, .string, .declString]

/-- insertion sort on strings, for comparing sets given as lists -/
def sortStrings (l : List String) : List String := l.foldr (fun s acc => (acc.takeWhile (· < s)) ++ s :: acc.dropWhile (· < s)) []

/-- the state functions a tag can hand over to, as sorted Go names (ends of the scan — `nil`, errors, the
    model's fuel outcome — left out) -/
def modelEdges (t : Tag) : List String :=
  sortStrings (((nextTags t).filter (fun x => !x.final)).map Tag.goName)

/-- the same from the extracted facts: what `lexXxx` returns, minus `nil` and errors -/
def goEdges (facts : List (String × List String)) (t : Tag) : Option (List String) :=
  (facts.lookup t.goName).map fun ts => sortStrings (ts.filter (fun x => x != "nil" && x != "error"))

end Spok
