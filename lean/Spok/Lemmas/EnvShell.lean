import Spok.Judge.Env
/-! # The shell-subset commands look at the environment only through the names they mention -/
namespace Spok.Env
open Spok.Clean (Str)
open Spok.Judge.Env

def pieceNames : ShPiece → List Str
  | .evar n => [n]
  | .dq n => [n]
  | _ => []

theorem envNamesOf_words (ws : List (List ShPiece)) :
    envNamesOf (.words ws) = ws.flatMap (fun w => w.flatMap pieceNames) := by
  simp only [envNamesOf]
  congr 1
  funext w
  induction w with
  | nil => simp
  | cons p rest ih => cases p <;> simp [pieceNames, ih]

theorem eval_congr (tv : Vars) {e1 e2 : Str → Option Str} (p : ShPiece)
    (h : ∀ n ∈ pieceNames p, e1 n = e2 n) : p.eval tv e1 = p.eval tv e2 := by
  cases p with
  | bare t => rfl
  | tref n => rfl
  | evar n => simp [ShPiece.eval, h n (by simp [pieceNames])]
  | dq n => simp [ShPiece.eval, h n (by simp [pieceNames])]
  | sq items => rfl

theorem mapM_option_congr {α β} {f g : α → Option β} {l : List α} (h : ∀ a ∈ l, f a = g a) :
    l.mapM f = l.mapM g := by
  induction l with
  | nil => simp
  | cons a t ih => simp [List.mapM_cons, h a (by simp), ih (fun x hx => h x (by simp [hx]))]

theorem evalWord_congr (tv : Vars) {e1 e2 : Str → Option Str} (w : List ShPiece)
    (h : ∀ n ∈ w.flatMap pieceNames, e1 n = e2 n) : evalWord tv e1 w = evalWord tv e2 w := by
  unfold evalWord
  rw [mapM_option_congr (f := ShPiece.eval tv e1) (g := ShPiece.eval tv e2)]
  intro p hp
  exact eval_congr tv p (fun n hn => h n (List.mem_flatMap.2 ⟨p, hp, hn⟩))

/-- two environments that agree on the names a command mentions give the same output -/
theorem stdout_congr (tv : Vars) {e1 e2 : Str → Option Str} (c : Command)
    (h : ∀ n ∈ envNamesOf c, e1 n = e2 n) : c.stdout tv e1 = c.stdout tv e2 := by
  cases c with
  | raw src o => rfl
  | words ws =>
    rw [envNamesOf_words] at h
    simp only [Command.stdout]
    rw [mapM_option_congr (f := evalWord tv e1) (g := evalWord tv e2)]
    intro w hw
    exact evalWord_congr tv w (fun n hn => h n (List.mem_flatMap.2 ⟨w, hw, hn⟩))

end Spok.Env
