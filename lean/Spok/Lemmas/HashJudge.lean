import Spok.Lemmas.Hash
import Spok.Judge.Hash
/-! # The observation the *model* hands to the judges of the hash engine (used by `…_judge_accepts_model`) -/
namespace Spok.Hash
open Spok.Judge.Hash

/-- how the oracle reads an observed entry: what the harness put there, as a model entry -/
def entryOf : Kind → Bytes → Entry
  | .file, c => .regular c
  | .dir, _ => .dir
  | .vanish, c => .regular c
  | _, _ => .unreadable

abbrev Obs := List (Kind × Path × Bytes)

def filesOf (es : Obs) : List (Path × Entry) := es.map fun e => (e.2.1, entryOf e.1 e.2.2)

def outOf : Except Err String → Out
  | .ok d => .digest d
  | .error _ => .error

/-- the observation the *model* would hand to the judge for one variant -/
def modelRun (sha : Bytes → Bytes) (rel : Rel) (es : Obs) : Run :=
  { rel := rel, kinds := es.map (·.1), outs := [outOf (digest sha (filesOf es))], leak := 0,
    expect := match digest sha (filesOf es) with | .ok d => some d | .error _ => none }

def cleanObs (es : Obs) : Bool := es.all fun e => e.1 == .file || e.1 == .dir

theorem modelRun_clean (sha : Bytes → Bytes) (rel : Rel) (es : Obs) : (modelRun sha rel es).clean = cleanObs es := by
  simp only [modelRun, Run.clean, cleanObs, List.all_map]
  rfl

theorem clean_readable {es : Obs} (h : cleanObs es = true) : ∀ pe ∈ filesOf es, pe.2 ≠ .unreadable := by
  intro pe hpe
  obtain ⟨e, he, rfl⟩ := List.mem_map.mp hpe
  have := List.all_eq_true.mp h e he
  obtain ⟨k, p, c⟩ := e
  cases k <;> simp_all [entryOf]

theorem clean_digest (sha : Bytes → Bytes) {es : Obs} (h : cleanObs es = true) :
    ∃ d, digest sha (filesOf es) = .ok d := digest_ok_of_readable sha (clean_readable h)

theorem modelRun_selfOk (sha : Bytes → Bytes) (rel : Rel) (es : Obs) : (modelRun sha rel es).selfOk = true := by
  rw [Run.selfOk, modelRun_clean]
  cases hc : cleanObs es with
  | false => rfl
  | true =>
    obtain ⟨d, hd⟩ := clean_digest sha hc
    simp [modelRun, hd, outOf]

/-- a member the harness made unreadable is unreadable for the model -/
theorem unreadable_mem {es : Obs} (h : (es.map (·.1)).any Kind.unreadable = true) :
    ∃ p, (p, Entry.unreadable) ∈ filesOf es := by
  obtain ⟨k, hk, hu⟩ := List.any_eq_true.mp h
  obtain ⟨e, he, rfl⟩ := List.mem_map.mp hk
  refine ⟨e.2.1, List.mem_map.mpr ⟨e, he, ?_⟩⟩
  obtain ⟨k, p, c⟩ := e
  cases k <;> simp_all [entryOf, Kind.unreadable]

end Spok.Hash
