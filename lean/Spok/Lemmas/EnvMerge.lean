import Spok.Env
/-! # Lemmas about variable maps (`get` / `set`), the environment list (`lookup`: last duplicate wins),
`strings.TrimSpace`, and `load`. -/
namespace Spok.Env
open Spok.Clean (Str)

/-! ## maps built with `set` -/

def keys (vs : Vars) : List Str := vs.map Prod.fst

def NodupKeys (vs : Vars) : Prop := (keys vs).Nodup

theorem get_set_same (vs : Vars) (k v : Str) : get (set vs k v) k = some v := by
  induction vs with
  | nil => simp [set, get]
  | cons p rest ih =>
    obtain ⟨k', v'⟩ := p
    by_cases h : k' = k
    · simp [set, get, h]
    · simp [set, get, h, ih]

theorem get_set_other (vs : Vars) {k k' : Str} (v : Str) (h : k' ≠ k) : get (set vs k v) k' = get vs k' := by
  induction vs with
  | nil => simp [set, get, h.symm]
  | cons p rest ih =>
    obtain ⟨k0, v0⟩ := p
    by_cases h0 : k0 = k
    · subst h0
      simp [set, get, h.symm]
    · by_cases h1 : k0 = k'
      · subst h1; simp [set, get, h0]
      · simp [set, get, h0, h1, ih]

theorem keys_set (vs : Vars) (k v : Str) : ∀ x, x ∈ keys (set vs k v) ↔ x ∈ keys vs ∨ x = k := by
  induction vs with
  | nil => intro x; simp [set, keys]
  | cons p rest ih =>
    obtain ⟨k0, v0⟩ := p
    intro x
    by_cases h0 : k0 = k
    · subst h0; simp [set, keys]; intro h; exact .inl h
    · have := ih x
      simp only [keys] at this
      simp only [set, h0, if_false, keys, List.map_cons, List.mem_cons, this]
      constructor
      · rintro (h | h | h)
        · exact .inl (.inl h)
        · exact .inl (.inr h)
        · exact .inr h
      · rintro ((h | h) | h)
        · exact .inl h
        · exact .inr (.inl h)
        · exact .inr (.inr h)

theorem nodupKeys_set {vs : Vars} (h : NodupKeys vs) (k v : Str) : NodupKeys (set vs k v) := by
  induction vs with
  | nil => simp [set, NodupKeys, keys]
  | cons p rest ih =>
    obtain ⟨k0, v0⟩ := p
    simp only [NodupKeys, keys, List.map_cons, List.nodup_cons] at h
    by_cases h0 : k0 = k
    · subst h0
      simp only [set, if_true, NodupKeys, keys, List.map_cons, List.nodup_cons]
      exact h
    · simp only [set, h0, if_false, NodupKeys, keys, List.map_cons, List.nodup_cons]
      refine ⟨?_, ih h.2⟩
      intro hm
      have := (keys_set rest k v k0).1 hm
      rcases this with h1 | h1
      · exact h.1 h1
      · exact h0 h1

theorem get_eq_some_of_mem {vs : Vars} (hn : NodupKeys vs) {k v : Str} (hm : (k, v) ∈ vs) : get vs k = some v := by
  induction vs with
  | nil => simp at hm
  | cons p rest ih =>
    obtain ⟨k0, v0⟩ := p
    simp only [NodupKeys, keys, List.map_cons, List.nodup_cons] at hn
    simp at hm
    rcases hm with ⟨rfl, rfl⟩ | hm
    · simp [get]
    · have hne : k0 ≠ k := by
        intro e; subst e
        exact hn.1 (List.mem_map.2 ⟨(k0, v), hm, rfl⟩)
      simp [get, hne, ih hn.2 hm]

theorem mem_of_get_eq_some {vs : Vars} {k v : Str} (h : get vs k = some v) : (k, v) ∈ vs := by
  induction vs with
  | nil => simp [get] at h
  | cons p rest ih =>
    obtain ⟨k0, v0⟩ := p
    by_cases h0 : k0 = k
    · subst h0; simp [get] at h; subst h; simp
    · simp [get, h0] at h
      exact List.mem_cons_of_mem _ (ih h)

/-! ## the environment list: the last entry of a name wins -/

theorem lookup_append (a b : EnvList) (k : Str) :
    lookup (a ++ b) k = match lookup b k with
      | some w => some w
      | none => lookup a k := by
  induction a with
  | nil => cases h : lookup b k <;> simp [lookup, h]
  | cons p rest ih =>
    obtain ⟨k0, v0⟩ := p
    simp only [List.cons_append, lookup, ih]
    cases h : lookup b k <;> simp

theorem lookup_none_of_not_key {e : EnvList} {k : Str} (h : k ∉ keys e) : lookup e k = none := by
  induction e with
  | nil => simp [lookup]
  | cons p rest ih =>
    obtain ⟨k0, v0⟩ := p
    simp only [keys, List.map_cons, List.mem_cons, not_or] at h
    have := ih (by simpa [keys] using h.2)
    simp [lookup, this, Ne.symm h.1]

/-- without duplicates there is nothing to win: `lookup` is membership -/
theorem lookup_eq_some_of_mem {e : EnvList} (hn : NodupKeys e) {k v : Str} (hm : (k, v) ∈ e) : lookup e k = some v := by
  induction e with
  | nil => simp at hm
  | cons p rest ih =>
    obtain ⟨k0, v0⟩ := p
    simp only [NodupKeys, keys, List.map_cons, List.nodup_cons] at hn
    simp at hm
    rcases hm with ⟨rfl, rfl⟩ | hm
    · have : lookup rest k = none := lookup_none_of_not_key hn.1
      simp [lookup, this]
    · simp [lookup, ih hn.2 hm]

theorem hasKey_of_lookup {e : EnvList} {k w : Str} (h : lookup e k = some w) : hasKey e k = true := by
  cases hk : hasKey e k with
  | true => rfl
  | false =>
    have : k ∉ keys e := by
      intro hmem
      simp only [keys, List.mem_map] at hmem
      obtain ⟨p, hp, hpk⟩ := hmem
      have : hasKey e k = true := by
        simp only [hasKey, List.any_eq_true]
        exact ⟨p, hp, by simp [hpk]⟩
      rw [hk] at this
      exact Bool.noConfusion this
    rw [lookup_none_of_not_key this] at h
    simp at h

theorem nodupKeys_perm {a b : EnvList} (hp : a.Perm b) (hn : NodupKeys b) : NodupKeys a := by
  unfold NodupKeys keys at *
  exact (hp.map Prod.fst).nodup_iff.2 hn

/-! ## load keeps the variable map duplicate-free -/

theorem loadAux_nodup {cwd : Str} {stmts : List Stmt} {f f' : File} (hn : NodupKeys f.vars)
    (h : loadAux cwd stmts f = .ok f') : NodupKeys f'.vars := by
  induction stmts generalizing f with
  | nil => simp [loadAux] at h; subst h; exact hn
  | cons s rest ih =>
    cases s with
    | decl n rhs =>
      unfold loadAux at h
      split at h
      · simp at h
      · refine ih ?_ h
        exact nodupKeys_set hn _ _
    | task t =>
      unfold loadAux at h
      split at h
      · simp at h
      · split at h
        · simp at h
        · refine ih ?_ h
          exact hn

theorem load_nodup {cwd : Str} {stmts : List Stmt} {f : File} (h : load cwd stmts = .ok f) : NodupKeys f.vars :=
  loadAux_nodup (by simp [NodupKeys, keys]) h

/-- tasks already loaded stay as they are -/
theorem loadAux_tasks_mono {cwd : Str} {stmts : List Stmt} {f f' : File}
    (h : loadAux cwd stmts f = .ok f') : ∀ l ∈ f.tasks, l ∈ f'.tasks := by
  induction stmts generalizing f with
  | nil => simp [loadAux] at h; subst h; exact fun _ h => h
  | cons s rest ih =>
    cases s with
    | decl n rhs =>
      unfold loadAux at h
      split at h
      · simp at h
      · intro l hl
        exact ih h l hl
    | task t =>
      unfold loadAux at h
      split at h
      · simp at h
      · split at h
        · simp at h
        · intro l hl
          exact ih h l (by simp [hl])

/-! ## strings.TrimSpace -/

theorem mem_takeWhile {p : Char → Bool} {l : Str} {x : Char} (h : x ∈ l.takeWhile p) : p x = true := by
  induction l with
  | nil => simp at h
  | cons a t ih =>
    by_cases ha : p a = true
    · simp [List.takeWhile, ha] at h
      rcases h with rfl | h
      · exact ha
      · exact ih h
    · simp [List.takeWhile, ha] at h

theorem trimLeft_spec (s : Str) : ∃ l, s = l ++ trimLeft s ∧ l.all isSpace = true ∧
    (∀ c, (trimLeft s).head? = some c → isSpace c = false) := by
  refine ⟨s.takeWhile isSpace, ?_, ?_, ?_⟩
  · simp [trimLeft, List.takeWhile_append_dropWhile]
  · simp only [List.all_eq_true]
    intro x hx
    exact mem_takeWhile hx
  · intro c hc
    unfold trimLeft at hc
    have := List.head?_dropWhile_not isSpace s
    rw [hc] at this
    simpa using this

theorem trimRight_spec (s : Str) : ∃ r, s = trimRight s ++ r ∧ r.all isSpace = true ∧
    (∀ c, (trimRight s).getLast? = some c → isSpace c = false) := by
  obtain ⟨l, h1, h2, h3⟩ := trimLeft_spec s.reverse
  refine ⟨l.reverse, ?_, ?_, ?_⟩
  · have := congrArg List.reverse h1
    simpa [trimRight, trimLeft] using this
  · simpa using h2
  · intro c hc
    apply h3 c
    simpa [trimRight, trimLeft, List.getLast?_reverse] using hc

end Spok.Env
