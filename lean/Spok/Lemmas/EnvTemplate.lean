import Spok.Env
/-! # Lemmas about the template subset: `tokenise` and `render` are inverse to each other between the
accepted command texts and the well-formed piece lists. -/
namespace Spok.Env
open Spok.Clean (Str)

/-- a name text/template reads as one field: starts with a letter or `_`, continues with letters, digits, `_` -/
def ValidName (n : Str) : Prop := (∃ c cs, n = c :: cs ∧ isNameStart c = true) ∧ ∀ x ∈ n, isNameChar x = true

/-- piece lists whose source text reads back as the same pieces: no text `{` directly before another `{`
    (be it text or the start of a reference), and valid names -/
def WF : List Piece → Prop
  | [] => True
  | .ch c :: rest => ¬ (c = '{' ∧ (render rest).head? = some '{') ∧ WF rest
  | .ref n :: rest => ValidName n ∧ WF rest

theorem not_nameChar_brace : isNameChar '}' = false := by decide

theorem spanName_append {n : Str} (hn : ∀ x ∈ n, isNameChar x = true) (r : Str) :
    spanName (n ++ '}' :: r) = (n, '}' :: r) := by
  induction n with
  | nil => simp [spanName, not_nameChar_brace]
  | cons c cs ih =>
    have hc : isNameChar c = true := hn c (by simp)
    have := ih (fun x hx => hn x (by simp [hx]))
    simp [spanName, hc, this]

theorem spanName_sound (s : Str) :
    s = (spanName s).1 ++ (spanName s).2 ∧ (∀ x ∈ (spanName s).1, isNameChar x = true) := by
  induction s with
  | nil => simp [spanName]
  | cons c cs ih =>
    unfold spanName
    split
    · rename_i hc
      refine ⟨by simp; exact ih.1, ?_⟩
      intro x hx
      simp at hx
      rcases hx with rfl | hx
      · exact hc
      · exact ih.2 x hx
    · simp

theorem parseRef_name {n : Str} (hn : ValidName n) (r : Str) :
    parseRef (n ++ '}' :: '}' :: r) = some (n, r) := by
  obtain ⟨⟨c, cs, rfl, hc⟩, hall⟩ := hn
  unfold parseRef
  rw [spanName_append hall]
  simp [hc]

theorem parseRef_sound {s n r : Str} (h : parseRef s = some (n, r)) :
    s = n ++ '}' :: '}' :: r ∧ ValidName n := by
  unfold parseRef at h
  have hs := spanName_sound s
  split at h
  · rename_i n0 n' r' h1 h2
    split at h
    · rename_i hstart
      simp at h
      obtain ⟨rfl, rfl⟩ := h
      refine ⟨?_, ⟨n0, n', rfl, hstart⟩, ?_⟩
      · conv => lhs; rw [hs.1, h1, h2]
      · rw [← h1]; exact hs.2
    · simp at h
  · simp at h

theorem tokenise_nil : tokenise [] = some [] := by
  rw [tokenise]

theorem tokenise_ch {c : Char} {rest : Str} (h : ¬ (c = '{' ∧ rest.head? = some '{')) :
    tokenise (c :: rest) = (tokenise rest).map (Piece.ch c :: ·) := by
  rw [tokenise]
  simp only [h, if_false]

theorem tokenise_ref {r0 : Str} :
    tokenise ('{' :: '{' :: '.' :: r0) =
      match parseRef r0 with
      | none => none
      | some (n, r) => (tokenise r).map (Piece.ref n :: ·) := by
  rw [tokenise]
  simp only [List.head?_cons, and_self, if_true, List.tail_cons]
  split <;> rename_i h <;> simp [h]

theorem tokenise_other {c : Char} {r0 : Str} (h : c ≠ '.') : tokenise ('{' :: '{' :: c :: r0) = none := by
  rw [tokenise]
  simp only [List.head?_cons, and_self, if_true, List.tail_cons]
  split
  · rename_i heq; simp at heq; exact absurd heq.1 h
  · rfl

theorem tokenise_open_end : tokenise ['{', '{'] = none := by
  rw [tokenise]
  simp

/-- the source of well-formed pieces reads back as those pieces -/
theorem tokenise_render {ps : List Piece} (h : WF ps) : tokenise (render ps) = some ps := by
  induction ps with
  | nil => simpa [render] using tokenise_nil
  | cons p rest ih =>
    cases p with
    | ch c =>
      obtain ⟨h1, h2⟩ := h
      simp only [render]
      rw [tokenise_ch h1, ih h2]
      rfl
    | ref n =>
      obtain ⟨h1, h2⟩ := h
      simp only [render, refText, List.cons_append, List.append_assoc, List.nil_append]
      rw [tokenise_ref, parseRef_name h1]
      simp [ih h2]

/-- what `tokenise` accepts is the source of well-formed pieces -/
theorem render_tokenise {s : Str} {ps : List Piece} (h : tokenise s = some ps) : render ps = s ∧ WF ps := by
  generalize hn : s.length = n
  induction n using Nat.strongRecOn generalizing s ps with
  | _ n ih =>
    cases s with
    | nil =>
      rw [tokenise_nil] at h
      simp at h; subst h
      simp [render, WF]
    | cons c rest =>
      by_cases hc : c = '{' ∧ rest.head? = some '{'
      · obtain ⟨rfl, hh⟩ := hc
        cases rest with
        | nil => simp at hh
        | cons c2 r1 =>
          simp at hh; subst hh
          cases r1 with
          | nil => rw [tokenise_open_end] at h; simp at h
          | cons c3 r0 =>
            by_cases h3 : c3 = '.'
            · subst h3
              rw [tokenise_ref] at h
              split at h
              · simp at h
              · rename_i n' r hp
                obtain ⟨hs, hv⟩ := parseRef_sound hp
                cases ht : tokenise r with
                | none => simp [ht] at h
                | some ps' =>
                  simp [ht] at h
                  subst h
                  have hlen : r.length < n := by
                    subst hn; subst hs; simp; omega
                  obtain ⟨e1, e2⟩ := ih _ hlen ht rfl
                  refine ⟨?_, hv, e2⟩
                  simp [render, refText, e1, hs]
            · rw [tokenise_other h3] at h; simp at h
      · rw [tokenise_ch hc] at h
        cases ht : tokenise rest with
        | none => simp [ht] at h
        | some ps' =>
          simp [ht] at h
          subst h
          have hlen : rest.length < n := by subst hn; simp
          obtain ⟨e1, e2⟩ := ih _ hlen ht rfl
          refine ⟨by simp [render, e1], ?_, e2⟩
          rw [e1]; exact hc

/-! ## text outside references -/

theorem subst_chs (vs : Vars) (t : Str) (ps : List Piece) : subst vs (chs t ++ ps) = t ++ subst vs ps := by
  induction t with
  | nil => simp [chs]
  | cons c cs ih => simpa [chs, subst] using ih

theorem render_chs (t : Str) (ps : List Piece) : render (chs t ++ ps) = t ++ render ps := by
  induction t with
  | nil => simp [chs]
  | cons c cs ih => simpa [chs, render] using ih

theorem render_append (a b : List Piece) : render (a ++ b) = render a ++ render b := by
  induction a with
  | nil => simp [render]
  | cons p rest ih => cases p <;> simp [render, ih]

theorem subst_append (vs : Vars) (a b : List Piece) : subst vs (a ++ b) = subst vs a ++ subst vs b := by
  induction a with
  | nil => simp [subst]
  | cons p rest ih => cases p <;> simp [subst, ih]

end Spok.Env
