import Spok.Lemmas.JsonUnq
/-! # Reading back what `Dump` wrote, part 3: `load (encodeMap m)` is `m` (sorted, invalid bytes replaced) -/
namespace Spok.Json
open Spok

def sanKV (kv : KV) : KV := (sanitize kv.1, sanitize kv.2)

theorem skipWs_nonspace (c : UInt8) (rest : Bytes) (h : isSpace c.toNat = false) : skipWs (c :: rest) = c :: rest := by
  simp [skipWs, h]

theorem encEntry_shape (kv : KV) (T : Bytes) :
    encEntry kv ++ T = 34 :: (encBody kv.1 ++ 34 :: 58 :: 34 :: (encBody kv.2 ++ 34 :: T)) := by
  simp [encEntry, encStr]

/-- one entry read by the loop of `members` -/
theorem members_step (fuel : Nat) (kv : KV) (T : Bytes) (acc : List KV) :
    members (fuel + 1) (encEntry kv ++ T) acc =
      (match skipWs T with
       | d :: r' => if d.toNat == 44 then members fuel r' (acc ++ [sanKV kv]) else if d.toNat == 125 then .ok (acc ++ [sanKV kv]) else .syntaxErr
       | [] => .syntaxErr) := by
  rw [encEntry_shape]
  conv => lhs; unfold members
  rw [skipWs_nonspace 34 _ (by decide)]
  simp only [show ((34 : UInt8).toNat != 34) = false by decide, Bool.false_eq_true, if_false]
  rw [takeStr_encBody]
  simp only []
  rw [skipWs_nonspace 58 _ (by decide)]
  simp only [show ((58 : UInt8).toNat != 58) = false by decide, Bool.false_eq_true, if_false]
  rw [unqBody_encBody]
  simp only []
  rw [skipWs_nonspace 34 _ (by decide)]
  simp only [show ((34 : UInt8).toNat == 34) = true by decide, if_true]
  rw [takeStr_encBody]
  simp only []
  rw [unqBody_encBody]
  simp only [sanKV]
  cases skipWs T <;> rfl

theorem members_entries : ∀ (l : List KV) (fuel : Nat) (acc : List KV), l ≠ [] → l.length ≤ fuel →
    members fuel (joinComma (l.map encEntry) ++ [125]) acc = .ok (acc ++ l.map sanKV)
  | [], _, _, h, _ => absurd rfl h
  | [kv], fuel, acc, _, hf => by
    obtain ⟨f, rfl⟩ : ∃ f, fuel = f + 1 := ⟨fuel - 1, by simp at hf; omega⟩
    simp only [List.map_cons, List.map_nil, joinComma]
    rw [members_step, skipWs_nonspace 125 _ (by decide)]
    simp
  | kv :: kv2 :: l, fuel, acc, _, hf => by
    obtain ⟨f, rfl⟩ : ∃ f, fuel = f + 1 := ⟨fuel - 1, by simp at hf; omega⟩
    simp only [List.map_cons, joinComma, List.append_assoc, List.cons_append]
    rw [members_step, skipWs_nonspace 44 _ (by decide)]
    simp only [show ((44 : UInt8).toNat == 44) = true by decide, if_true]
    have := members_entries (kv2 :: l) f (acc ++ [sanKV kv]) (by simp) (by simp at hf ⊢; omega)
    simp only [List.map_cons, List.append_assoc] at this
    rw [this]
    simp

theorem joinComma_length (l : List KV) : l.length ≤ (joinComma (l.map encEntry)).length + 1 := by
  induction l with
  | nil => simp
  | cons kv l ih =>
    cases l with
    | nil => simp [joinComma]
    | cons kv2 l =>
      simp only [List.map_cons, joinComma, List.length_append, List.length_cons] at ih ⊢
      omega

/-- `Load` of a file that `Dump` wrote in full: the entries, sorted by key, invalid bytes replaced by U+FFFD -/
theorem load_encodeMap (m : List KV) : load (encodeMap m) = .ok ((m.mergeSort kvLE).map sanKV) := by
  unfold load
  rw [valid_encodeMap]
  simp only [Bool.not_true, Bool.false_eq_true, if_false]
  unfold encodeMap
  rw [skipWs_nonspace 123 _ (by decide)]
  simp only [show ((123 : UInt8).toNat == 123) = true by decide, if_true]
  generalize m.mergeSort kvLE = l
  cases l with
  | nil =>
    simp only [List.map_nil, joinComma, List.nil_append]
    rw [skipWs_nonspace 125 _ (by decide)]
    simp
  | cons kv l =>
    have hshape : joinComma ((kv :: l).map encEntry) ++ [125] = 34 :: ((joinComma ((kv :: l).map encEntry) ++ [125]).drop 1) := by
      cases l with
      | nil => simp [joinComma, encEntry, encStr]
      | cons kv2 l => simp [joinComma, encEntry, encStr]
    rw [hshape, skipWs_nonspace 34 _ (by decide)]
    simp only [show ((34 : UInt8).toNat == 125) = false by decide, Bool.false_eq_true, if_false]
    rw [← hshape]
    have := members_entries (kv :: l) ((123 :: (joinComma ((kv :: l).map encEntry) ++ [125])).length + 1) [] (by simp)
      (by have := joinComma_length (kv :: l); simp only [List.length_cons, List.length_append] at this ⊢; omega)
    simpa using this

end Spok.Json
