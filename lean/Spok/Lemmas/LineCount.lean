import Spok.Lemmas.LexLine
import Spok.Judge.Syntax
/-! # Lines of the byte string vs. newline runes of its decoding

`nLines (decodeAll bs) = 1 + countNL bs = (splitLines bs).length`: a byte `0x0A` is always a rune of its
own (continuation bytes and lead bytes are ≥ 0x80), so the model's line count is the one
`strings.Split(input, "\n")` yields and `trimmedLine bs i` exists for `1 ≤ i ≤ nLines`. -/
namespace Spok
open Judge

/-- a decoded rune is a one-byte ASCII rune, or all its bytes and its code point are ≥ 128 -/
theorem decode1_cases (b0 : UInt8) (rest : List UInt8) :
    (decode1 b0 rest = ⟨b0.toNat, b0, []⟩ ∧ b0.toNat < 128) ∨
    (128 ≤ (decode1 b0 rest).cp ∧ ∀ b ∈ (decode1 b0 rest).bytes, 128 ≤ b.toNat) := by
  unfold decode1
  simp only []
  repeat' split
  all_goals first
    | (left; exact ⟨rfl, ‹_›⟩)
    | (right; simp [Rune.bytes, cont] at *; omega)

theorem decodeAll_all (P : Rune → Prop) (h : ∀ b0 rest, P (decode1 b0 rest)) (bs : List UInt8) :
    ∀ r ∈ decodeAll bs, P r := by
  induction hn : bs.length using Nat.strongRecOn generalizing bs with
  | _ n ih =>
    cases bs with
    | nil => intro r hr; simp [decodeAll] at hr
    | cons b0 rest =>
      rw [decodeAll]
      intro r hr
      simp only [List.mem_cons] at hr
      rcases hr with rfl | hr
      · exact h b0 rest
      · refine ih _ ?_ _ rfl r hr
        subst hn; have := decode1_w_pos b0 rest; simp [List.length_drop]; omega

theorem countNL_append (a b : List UInt8) : countNL (a ++ b) = countNL a + countNL b := by
  simp [countNL, List.filter_append]

theorem countNL_cons (x : UInt8) (xs : List UInt8) : countNL (x :: xs) = (if x = 10 then 1 else 0) + countNL xs := by
  unfold countNL
  rw [List.filter_cons]
  by_cases h : x = 10 <;> simp [h] <;> omega

theorem countNL_of_ge : ∀ (bs : List UInt8), (∀ b ∈ bs, 128 ≤ b.toNat) → countNL bs = 0
  | [], _ => rfl
  | b :: bs, h => by
    rw [countNL_cons, countNL_of_ge bs (fun x hx => h x (by simp [hx]))]
    have := h b (by simp)
    have : b ≠ 10 := by intro hb; subst hb; simp at this
    simp [this]

/-- the newline byte count of a decoded rune's bytes is 1 for the newline rune and 0 otherwise -/
theorem decode1_countNL (b0 : UInt8) (rest : List UInt8) :
    countNL (decode1 b0 rest).bytes = if (decode1 b0 rest).cp = NL then 1 else 0 := by
  rcases decode1_cases b0 rest with ⟨h, _⟩ | ⟨h1, h2⟩
  · rw [h]
    simp only [Rune.bytes, countNL_cons]
    by_cases hb : b0 = 10
    · subst hb; rfl
    · have : b0.toNat ≠ 10 := fun hh => hb (UInt8.toNat_inj.mp hh)
      simp [hb, this, countNL]
  · rw [countNL_of_ge _ h2]
    have : (decode1 b0 rest).cp ≠ NL := by omega
    simp [this]

theorem countNL_flat : ∀ (rs : List Rune), (∀ r ∈ rs, countNL r.bytes = if r.cp = NL then 1 else 0) →
    countNL (flat rs) = cntNL rs
  | [], _ => rfl
  | r :: rs, h => by
    have ih := countNL_flat rs (fun x hx => h x (by simp [hx]))
    have hr := h r (by simp)
    simp only [flat, List.flatMap_cons] at ih ⊢
    rw [countNL_append, cntNL_cons, ih, hr]

/-- the model's `nLines` is the number of lines of the byte string -/
theorem nLines_decodeAll (bs : List UInt8) : nLines (decodeAll bs) = 1 + countNL bs := by
  rw [nLines_eq, ← countNL_flat (decodeAll bs) (decodeAll_all _ decode1_countNL bs), flat_decodeAll]

theorem splitLines_go_length : ∀ (bs cur : List UInt8), (splitLines.go bs cur).length = 1 + countNL bs
  | [], cur => by simp [splitLines.go, countNL]
  | b :: rest, cur => by
    rw [splitLines.go, countNL_cons]
    by_cases h : b = 10
    · simp [h, splitLines_go_length rest]; omega
    · simp [h, splitLines_go_length rest]

theorem splitLines_length (bs : List UInt8) : (splitLines bs).length = 1 + countNL bs :=
  splitLines_go_length bs []

/-- the line an in-range error cites exists -/
theorem trimmedLine_isSome (bs : List UInt8) (i : Nat) (h1 : 1 ≤ i) (h2 : i ≤ 1 + countNL bs) :
    ∃ q, trimmedLine bs i = some q := by
  have hlt : i - 1 < (splitLines bs).length := by rw [splitLines_length]; omega
  refine ⟨flat (trimSpace (decodeAll (splitLines bs)[i - 1])), ?_⟩
  simp [trimmedLine, List.getElem?_eq_getElem hlt]

end Spok
