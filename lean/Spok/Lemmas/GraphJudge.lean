import Spok.Lemmas.GraphPlan
import Spok.Judge.Graph
/-! # The judge's decision procedure is the mathematical notion: `classify` vs `Erroneous` / `Reach` -/
namespace Spok.Judge.Graph
open Spok.Graph

variable {α : Type} [DecidableEq α]

theorem classify_erroneous_iff (ts : Table α) (req : List α) : classify ts req = .erroneous ↔ Erroneous ts req := by
  unfold classify
  by_cases hnd' : ¬ (names ts).Nodup
  · rw [if_pos hnd']
    exact ⟨fun _ => Or.inl hnd', fun _ => rfl⟩
  have hnd : (names ts).Nodup := Classical.not_not.mp hnd'
  rw [if_neg hnd']
  by_cases hreq : req = []
  · subst hreq
    rw [if_pos rfl, erroneous_nil_iff]
    simp [hnd]
  rw [if_neg hreq]
  cases hp : plan plainOracle ts req with
  | ok order =>
    simp only [reduceCtorEq, false_iff]
    exact not_erroneous_of_plan_ok hp
  | error e =>
    simp only [true_iff]
    rcases erroneous_of_plan_error hp with h | h
    · exact absurd h hreq
    · exact h
  | spin => exact absurd hp (plan_ne_spin _ _ _)

theorem classify_fine {ts : Table α} {req : List α} {sel : List α} (h : classify ts req = .fine sel) :
    ∀ n, n ∈ sel ↔ Reach ts req n := by
  unfold classify at h
  by_cases hnd' : ¬ (names ts).Nodup
  · rw [if_pos hnd'] at h; cases h
  rw [if_neg hnd'] at h
  by_cases hreq : req = []
  · subst hreq
    rw [if_pos rfl] at h
    cases h
    intro n
    simp only [List.not_mem_nil, false_iff]
    exact reach_nil
  rw [if_neg hreq] at h
  cases hp : plan plainOracle ts req with
  | ok order =>
    rw [hp] at h
    cases h
    have := plan_spec plainOracle ts req
    rw [hp] at this
    cases this with
    | ok _ _ _ _ _ _ hmem _ => exact hmem
  | error e => rw [hp] at h; cases h
  | spin => rw [hp] at h; cases h

theorem depsBeforeB_iff {ts : Table α} {calls : List α} :
    depsBeforeB ts calls = true ↔ ∀ b ∈ calls, ∀ a ∈ deps ts b, Before calls a b := by
  simp [depsBeforeB, Before]

/-- the judge decides exactly the property as written with quantifiers -/
theorem c03_iff_spec (ts : Table α) (req : List α) (fails : α → Bool) (obs : Obs α) :
    c03 ts req fails obs = true ↔ Spec ts req fails obs := by
  unfold c03 Spec
  cases hc : classify ts req with
  | erroneous =>
    have herr := (classify_erroneous_iff ts req).mp hc
    simp only [Bool.and_eq_true, List.isEmpty_iff]
    constructor
    · rintro ⟨h1, h2⟩
      refine ⟨fun _ => ⟨?_, h2⟩, fun hne => absurd herr hne⟩
      intro h0; rw [h0] at h1; cases h1
    · rintro ⟨h1, _⟩
      obtain ⟨h2, h3⟩ := h1 herr
      refine ⟨?_, h3⟩
      cases he : obs.err with
      | none => exact absurd he h2
      | some _ => rfl
  | fine sel =>
    have hne : ¬ Erroneous ts req := by
      intro h
      have := (classify_erroneous_iff ts req).mpr h
      rw [hc] at this; cases this
    have hsel := classify_fine hc
    simp only [Bool.and_eq_true, Bool.or_eq_true, decide_eq_true_eq, List.all_eq_true, List.any_eq_true,
      depsBeforeB_iff, List.isEmpty_iff, Option.isNone_iff_eq_none]
    constructor
    · rintro ⟨⟨⟨h1, h2⟩, h3⟩, h4⟩
      refine ⟨fun h => absurd h hne, fun _ => ⟨h1, fun n hn => (hsel n).mp (h2 n hn), h3, ?_⟩⟩
      intro hnf
      rcases h4 with ⟨n, hn, hf⟩ | ⟨h5, h6⟩
      · have := hnf n ((hsel n).mp hn)
        rw [this] at hf; cases hf
      · exact ⟨h5, fun n hn => h6 n ((hsel n).mpr hn)⟩
    · rintro ⟨_, h⟩
      obtain ⟨h1, h2, h3, h4⟩ := h hne
      refine ⟨⟨⟨h1, fun n hn => (hsel n).mpr (h2 n hn)⟩, h3⟩, ?_⟩
      by_cases hf : ∃ n, n ∈ sel ∧ fails n = true
      · exact Or.inl hf
      · right
        have hnf : ∀ n, Reach ts req n → fails n = false := by
          intro n hn
          cases hfn : fails n with
          | false => rfl
          | true => exact absurd ⟨n, (hsel n).mpr hn, hfn⟩ hf
        obtain ⟨h5, h6⟩ := h4 hnf
        exact ⟨h5, fun n hn => h6 n ((hsel n).mp hn)⟩

/-- evaluates the model / the judge on a concrete spokfile by rewriting with the defining equations (the closure is a
    well-founded recursion, which `decide` does not unfold) -/
macro "graph_eval" : tactic => `(tactic|
  simp (decide := true) [plan, exec, runLoop, load, loadFrom, lookup, closure, closureLoop, frames, Graph.addVertex, Graph.insEdge,
    Graph.empty, sort, initQueue, reorder, inDegree, children, kahnLoop, relax, classify, c03, depsBeforeB, deps, plainOracle,
    DependsOn])

end Spok.Judge.Graph
