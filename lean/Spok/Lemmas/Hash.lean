import Spok.Hash
/-! # Helper lemmas for the digest function (`Spok.Hash`): the byte order is a total order, sorting forgets arrival
order, hex and fixed-width concatenation are injective, and "equal images ⇒ equal multisets or a collision". -/
namespace Spok.Hash

theorem u8_tri (a b : UInt8) : a < b ∨ a = b ∨ b < a := by
  rcases Nat.lt_trichotomy a.toNat b.toNat with h | h | h
  · exact .inl (UInt8.lt_iff_toNat_lt.mpr h)
  · exact .inr (.inl (UInt8.toNat_inj.mp h))
  · exact .inr (.inr (UInt8.lt_iff_toNat_lt.mpr h))

theorem ble_cons (a b : UInt8) (as bs : Bytes) :
    ble (a :: as) (b :: bs) = true ↔ a < b ∨ (a = b ∧ ble as bs = true) := by
  simp [ble]

theorem ble_total (a b : Bytes) : (ble a b || ble b a) = true := by
  induction a generalizing b with
  | nil => simp [ble]
  | cons x xs ih =>
    cases b with
    | nil => simp [ble]
    | cons y ys =>
      have := ih ys
      simp only [Bool.or_eq_true, ble_cons] at *
      rcases u8_tri x y with h | h | h
      · exact .inl (.inl h)
      · subst h; rcases this with h | h
        · exact .inl (.inr ⟨rfl, h⟩)
        · exact .inr (.inr ⟨rfl, h⟩)
      · exact .inr (.inl h)

theorem ble_trans (a b c : Bytes) : ble a b = true → ble b c = true → ble a c = true := by
  induction a generalizing b c with
  | nil => simp [ble]
  | cons x xs ih =>
    cases b with
    | nil => simp [ble]
    | cons y ys =>
      cases c with
      | nil => simp [ble]
      | cons z zs =>
        simp only [ble_cons]
        rintro (h | ⟨rfl, h⟩) (h' | ⟨rfl, h'⟩)
        · exact .inl (UInt8.lt_trans h h')
        · exact .inl h
        · exact .inl h'
        · exact .inr ⟨rfl, ih _ _ h h'⟩

theorem ble_antisymm (a b : Bytes) : ble a b = true → ble b a = true → a = b := by
  induction a generalizing b with
  | nil => cases b <;> simp [ble]
  | cons x xs ih =>
    cases b with
    | nil => simp [ble]
    | cons y ys =>
      simp only [ble_cons]
      rintro (h | ⟨rfl, h⟩) (h' | ⟨h'', h'⟩)
      · exact absurd h' (UInt8.lt_asymm h)
      · subst h''; exact absurd h (UInt8.lt_irrefl _)
      · exact absurd h' (UInt8.lt_irrefl _)
      · rw [ih _ h h']
theorem sort_perm (l : List Bytes) : (sort l).Perm l := List.mergeSort_perm l ble
theorem sort_sorted (l : List Bytes) : (sort l).Pairwise (fun a b => ble a b = true) :=
  List.pairwise_mergeSort ble_trans ble_total l

/-- sorting forgets the order of arrival -/
theorem sort_eq_of_perm {l₁ l₂ : List Bytes} (h : l₁.Perm l₂) : sort l₁ = sort l₂ :=
  List.Perm.eq_of_pairwise (fun a b _ _ => ble_antisymm a b) (sort_sorted l₁) (sort_sorted l₂)
    ((sort_perm l₁).trans (h.trans (sort_perm l₂).symm))

theorem perm_of_sort_eq {l₁ l₂ : List Bytes} (h : sort l₁ = sort l₂) : l₁.Perm l₂ :=
  (sort_perm l₁).symm.trans (h ▸ sort_perm l₂)

/-! hex is injective -/
def unhexDigit (c : Char) : Nat := if c.toNat < 58 then c.toNat - 48 else c.toNat - 87
theorem unhexDigit_hexDigit : ∀ n, n < 16 → unhexDigit (hexDigit n) = n := by decide

def unhexChars : List Char → Bytes
  | a :: b :: rest => UInt8.ofNat (unhexDigit a * 16 + unhexDigit b) :: unhexChars rest
  | _ => []

theorem unhexChars_hexChars (bs : Bytes) : unhexChars (hexChars bs) = bs := by
  induction bs with
  | nil => rfl
  | cons b bs ih =>
    have hb := b.toNat_lt
    simp only [hexChars, unhexChars, ih]
    rw [unhexDigit_hexDigit _ (by omega), unhexDigit_hexDigit _ (Nat.mod_lt _ (by decide))]
    congr 1
    apply UInt8.toNat_inj.mp
    simp
    omega

theorem hex_injective {a b : Bytes} (h : hex a = hex b) : a = b := by
  have := String.ofList_injective h
  rw [← unhexChars_hexChars a, ← unhexChars_hexChars b, this]

/-! concatenation of fixed-width chunks is injective -/
theorem flatten_injective_of_length {n : Nat} (hn : 0 < n) :
    ∀ {l₁ l₂ : List Bytes}, (∀ x ∈ l₁, x.length = n) → (∀ x ∈ l₂, x.length = n) →
      l₁.flatten = l₂.flatten → l₁ = l₂ := by
  intro l₁
  induction l₁ with
  | nil =>
    intro l₂ _ h₂ h
    cases l₂ with
    | nil => rfl
    | cons y ys =>
      have hy := h₂ y (by simp)
      have := congrArg List.length h
      rw [List.flatten_cons, List.length_append, List.flatten_nil, List.length_nil] at this
      omega
  | cons x xs ih =>
    intro l₂ h₁ h₂ h
    cases l₂ with
    | nil =>
      have hx := h₁ x (by simp)
      have := congrArg List.length h
      rw [List.flatten_cons, List.length_append, List.flatten_nil, List.length_nil] at this
      omega
    | cons y ys =>
      have hx := h₁ x (by simp)
      have hy := h₂ y (by simp)
      simp only [List.flatten_cons] at h
      obtain ⟨hxy, hrest⟩ := List.append_inj h (by omega)
      rw [hxy, ih (fun z hz => h₁ z (by simp [hz])) (fun z hz => h₂ z (by simp [hz])) hrest]

/-- two lists whose images under `f` are permutations of each other are permutations of each other,
    or `f` identifies two different elements (constructively: the witness is found) -/
theorem perm_of_map_perm {α β : Type} [DecidableEq α] (f : α → β) :
    ∀ {l₁ l₂ : List α}, (l₁.map f).Perm (l₂.map f) → l₁.Perm l₂ ∨ ∃ x y, x ≠ y ∧ f x = f y := by
  intro l₁
  induction l₁ with
  | nil =>
    intro l₂ h
    have := h.length_eq
    cases l₂ with
    | nil => exact .inl (List.Perm.refl _)
    | cons _ _ => simp at this
  | cons a t ih =>
    intro l₂ h
    have hmem : f a ∈ l₂.map f := h.mem_iff.mp (by simp)
    obtain ⟨b, hb, hfb⟩ := List.mem_map.mp hmem
    by_cases hab : b = a
    · subst hab
      have hp : l₂.Perm (b :: l₂.erase b) := List.perm_cons_erase hb
      have h' : (f b :: t.map f).Perm (f b :: (l₂.erase b).map f) := by
        simpa using h.trans (hp.map f)
      rcases ih h'.cons_inv with h'' | h''
      · exact .inl ((List.Perm.cons b h'').trans hp.symm)
      · exact .inr h''
    · exact .inr ⟨b, a, hab, hfb⟩

/-! the digest in closed form -/

def isUnreadable (pe : Path × Entry) : Bool := match pe.2 with | .unreadable => true | _ => false

/-- the item of a (path, content) pair -/
def itemOf (sha : Bytes → Bytes) (pc : Path × Bytes) : Bytes := item sha pc.1 pc.2

@[simp] theorem jobResult_regular (sha : Bytes → Bytes) (p : Path) (c : Bytes) :
    jobResult sha (p, .regular c) = some (.item (item sha p c)) := rfl
@[simp] theorem jobResult_dir (sha : Bytes → Bytes) (p : Path) : jobResult sha (p, .dir) = none := rfl
@[simp] theorem jobResult_unreadable (sha : Bytes → Bytes) (p : Path) : jobResult sha (p, .unreadable) = some .err := rfl

theorem results_any_isErr (sha : Bytes → Bytes) (l : List (Path × Entry)) :
    (results sha l).any Res.isErr = l.any isUnreadable := by
  induction l with
  | nil => rfl
  | cons pe t ih =>
    obtain ⟨p, e⟩ := pe
    simp only [results] at ih ⊢
    cases e <;> simp_all [List.filterMap_cons, Res.isErr, isUnreadable]

theorem results_items (sha : Bytes → Bytes) (l : List (Path × Entry)) :
    (results sha l).filterMap Res.item? = (regs l).map (itemOf sha) := by
  induction l with
  | nil => rfl
  | cons pe t ih =>
    obtain ⟨p, e⟩ := pe
    simp only [results] at ih ⊢
    cases e <;> simp_all [List.filterMap_cons, Res.item?, regs, itemOf]

/-- closed form: an error iff some entry is unreadable, else a function of the regular (path, content) pairs -/
theorem digest_eq (sha : Bytes → Bytes) (l : List (Path × Entry)) :
    digest sha l = if l.any isUnreadable then .error .unreadable
      else .ok (hex (sha (sort ((regs l).map (itemOf sha))).flatten)) := by
  simp only [digest, finish, results_any_isErr, results_items]

theorem finish_perm (sha : Bytes → Bytes) {rs₁ rs₂ : List Res} (h : rs₁.Perm rs₂) :
    finish sha rs₁ = finish sha rs₂ := by
  simp only [finish, h.any_eq, sort_eq_of_perm (h.filterMap Res.item?)]

theorem regs_perm {l₁ l₂ : List (Path × Entry)} (h : l₁.Perm l₂) : (regs l₁).Perm (regs l₂) := by
  induction h with
  | nil => exact .refl _
  | cons x _ ih =>
    obtain ⟨p, e⟩ := x
    cases e <;> simp [regs, ih]
  | swap x y l =>
    obtain ⟨p, e⟩ := x
    obtain ⟨q, e'⟩ := y
    cases e <;> cases e' <;> simp [regs] <;> exact List.Perm.swap ..
  | trans _ _ ih₁ ih₂ => exact ih₁.trans ih₂

theorem mem_regs {p : Path} {c : Bytes} {l : List (Path × Entry)} : (p, c) ∈ regs l ↔ (p, Entry.regular c) ∈ l := by
  induction l with
  | nil => simp [regs]
  | cons pe t ih =>
    obtain ⟨q, e⟩ := pe
    cases e <;> simp [regs, ih]

theorem regs_append (l₁ l₂ : List (Path × Entry)) : regs (l₁ ++ l₂) = regs l₁ ++ regs l₂ := by
  induction l₁ with
  | nil => rfl
  | cons pe t ih =>
    obtain ⟨q, e⟩ := pe
    cases e <;> simp [regs, ih]

theorem item_length {sha : Bytes → Bytes} (h32 : ∀ x, (sha x).length = 32) (p : Path) (c : Bytes) :
    (item sha p c).length = 64 := by
  simp [item, h32]

/-- the item is injective in (path, content) — or else a collision of `sha` is exhibited -/
theorem collision_of_item_eq {sha : Bytes → Bytes} (h32 : ∀ x, (sha x).length = 32) {x y : Path × Bytes}
    (hne : x ≠ y) (h : itemOf sha x = itemOf sha y) : Collision sha := by
  obtain ⟨p, c⟩ := x
  obtain ⟨q, d⟩ := y
  simp only [itemOf, item] at h
  obtain ⟨hc, hp⟩ := List.append_inj h (by simp [h32])
  by_cases hcd : c = d
  · by_cases hpq : p = q
    · exact absurd (by rw [hcd, hpq]) hne
    · exact ⟨p, q, hpq, hp⟩
  · exact ⟨c, d, hcd, hc⟩

/-- a list without unreadable members yields a digest -/
theorem digest_ok_of_readable (sha : Bytes → Bytes) {files : List (Path × Entry)}
    (h : ∀ pe ∈ files, pe.2 ≠ .unreadable) : ∃ d, digest sha files = .ok d := by
  rw [digest_eq]
  have : files.any isUnreadable = false := by
    apply List.any_eq_false.mpr
    intro pe hpe; have := h pe hpe
    obtain ⟨p, e⟩ := pe
    cases e <;> simp_all [isUnreadable]
  simp [this]

/-- an unreadable member makes the digest an error -/
theorem digest_error_of_unreadable (sha : Bytes → Bytes) {files : List (Path × Entry)} {p : Path}
    (h : (p, Entry.unreadable) ∈ files) : digest sha files = .error .unreadable := by
  rw [digest_eq]
  have : files.any isUnreadable = true := List.any_eq_true.mpr ⟨_, h, rfl⟩
  simp [this]

end Spok.Hash
