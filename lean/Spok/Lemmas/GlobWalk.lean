import Spok.Glob
/-! # Lemmas about the glob walk model (used by `Props/C05.lean`) -/
namespace Spok.Glob

/-- a callback that never answers `SkipDir` -/
def NoSkip (ans : Path → Bool → Answer) : Prop := ∀ p d, ans p d = .ok

theorem NoSkip.under {ans : Path → Bool → Answer} (h : NoSkip ans) (p : Path) : NoSkip (under ans p) :=
  fun q d => h (p ++ q) d

/-! ## the entries of a tree -/

theorem mem_pre {n : Name} {vs : List Visit} {v : Visit} :
    v ∈ pre n vs ↔ ∃ w ∈ vs, v = (n :: w.1, w.2) := by
  simp only [pre, List.mem_map]
  constructor
  · rintro ⟨w, hw, rfl⟩; exact ⟨w, hw, rfl⟩
  · rintro ⟨w, hw, rfl⟩; exact ⟨w, hw, rfl⟩

theorem mem_entriesL {cs : List (Name × Node)} {v : Visit} :
    v ∈ entriesL cs ↔ ∃ n c, (n, c) ∈ cs ∧ ∃ w ∈ entries c, v = (n :: w.1, w.2) := by
  induction cs with
  | nil => simp [entriesL]
  | cons x rest ih =>
    obtain ⟨n, c⟩ := x
    simp only [entriesL, List.mem_append, mem_pre, ih, List.mem_cons]
    constructor
    · rintro (⟨w, hw, rfl⟩ | ⟨n', c', hm, w, hw, rfl⟩)
      · exact ⟨n, c, Or.inl rfl, w, hw, rfl⟩
      · exact ⟨n', c', Or.inr hm, w, hw, rfl⟩
    · rintro ⟨n', c', hm | hm, w, hw, rfl⟩
      · cases hm; exact Or.inl ⟨w, hw, rfl⟩
      · exact Or.inr ⟨n', c', hm, w, hw, rfl⟩

/-- the only entry with the empty path is the root itself -/
theorem nil_mem_entries {c : Node} {f : Bool} : (([] : Path), f) ∈ entries c ↔ f = c.isDir := by
  cases c with
  | file => simp [entries, Node.isDir]
  | dir cs =>
    simp only [entries, List.mem_cons, Node.isDir, mem_entriesL]
    constructor
    · rintro (h | ⟨n, c, _, w, _, h⟩)
      · simpa using h
      · simp at h
    · intro h; left; simp [h]

/-- inside a tree, "the prefix is a directory" is the same as "the node is a directory" -/
theorem dirOK_of_mem_entries {c : Node} {w : Visit} (h : w ∈ entries c) : dirOK w.2 w.1 = c.isDir := by
  cases c with
  | file => simp [entries] at h; subst h; simp [dirOK, Node.isDir]
  | dir cs =>
    simp only [entries, List.mem_cons, mem_entriesL] at h
    rcases h with h | ⟨n, c, _, w', _, h⟩
    · subst h; simp [dirOK, Node.isDir]
    · subst h; simp [dirOK, Node.isDir]

/-! ## `**` as the only segment visits everything -/

mutual
theorem dsWalk_noSkip : ∀ (cs : List (Name × Node)) (ans : Path → Bool → Answer), NoSkip ans →
    dsWalk cs ans = entriesL cs
  | [], _, _ => by simp [dsWalk, entriesL]
  | (n, c) :: rest, ans, h => by
    have h1 := dsEntry_noSkip c n ans h
    have h2 := dsWalk_noSkip rest ans h
    simp [dsWalk, entriesL, h1, h2]
theorem dsEntry_noSkip : ∀ (c : Node) (n : Name) (ans : Path → Bool → Answer), NoSkip ans →
    dsEntry c n ans = (pre n (entries c), true)
  | .file, n, ans, h => by simp [dsEntry, entries, pre, h [n] false]
  | .dir cs, n, ans, h => by
    have := dsWalk_noSkip cs (under ans [n]) (h.under [n])
    simp [dsEntry, h [n] true, this, entries, pre]
end

theorem dstarLoop_last_true (d : Bool) (p : Path) : dstarLoop true d (fun q => q.isEmpty) p = true := by
  induction p with
  | nil => simp [dstarLoop]
  | cons c cs ih => simp [dstarLoop, ih]

theorem matches_dstar_only (p : Path) (d : Bool) : «matches» [.dstar] p d = true := by
  simp [«matches», dstarLoop_last_true]

end Spok.Glob
