import Spok.Glob
/-! # Lemmas about the glob walk model (used by `Props/C05.lean`) -/
namespace Spok.Glob

/-- a callback that never answers `SkipDir` -/
def NoSkip (ans : Path → Bool → Answer) : Prop := ∀ p d, ans p d = .ok

theorem NoSkip.under {ans : Path → Bool → Answer} (h : NoSkip ans) (p : Path) : NoSkip (under ans p) :=
  fun q d => h (p ++ q) d

/-! ## the entries of a tree -/

theorem mem_pre {n : Name} {vs : List Visit} {v : Visit} :
    v ∈ pre n vs ↔ ∃ w ∈ vs, v = (n :: w.1, w.2) := by
  simp only [pre, List.mem_map]
  constructor
  · rintro ⟨w, hw, rfl⟩; exact ⟨w, hw, rfl⟩
  · rintro ⟨w, hw, rfl⟩; exact ⟨w, hw, rfl⟩

theorem mem_entriesL {cs : List (Name × Node)} {v : Visit} :
    v ∈ entriesL cs ↔ ∃ n c, (n, c) ∈ cs ∧ ∃ w ∈ entries c, v = (n :: w.1, w.2) := by
  induction cs with
  | nil => simp [entriesL]
  | cons x rest ih =>
    obtain ⟨n, c⟩ := x
    simp only [entriesL, List.mem_append, mem_pre, ih, List.mem_cons]
    constructor
    · rintro (⟨w, hw, rfl⟩ | ⟨n', c', hm, w, hw, rfl⟩)
      · exact ⟨n, c, Or.inl rfl, w, hw, rfl⟩
      · exact ⟨n', c', Or.inr hm, w, hw, rfl⟩
    · rintro ⟨n', c', hm | hm, w, hw, rfl⟩
      · cases hm; exact Or.inl ⟨w, hw, rfl⟩
      · exact Or.inr ⟨n', c', hm, w, hw, rfl⟩

/-- the only entry with the empty path is the root itself -/
theorem nil_mem_entries {c : Node} {f : Bool} : (([] : Path), f) ∈ entries c ↔ f = c.isDir := by
  cases c with
  | file => simp [entries, Node.isDir]
  | dir cs =>
    simp only [entries, List.mem_cons, Node.isDir, mem_entriesL]
    constructor
    · rintro (h | ⟨n, c, _, w, _, h⟩)
      · simpa using h
      · simp at h
    · intro h; left; simp [h]

/-- inside a tree, "the prefix is a directory" is the same as "the node is a directory" -/
theorem dirOK_of_mem_entries {c : Node} {w : Visit} (h : w ∈ entries c) : dirOK w.2 w.1 = c.isDir := by
  cases c with
  | file => simp [entries] at h; subst h; simp [dirOK, Node.isDir]
  | dir cs =>
    simp only [entries, List.mem_cons, mem_entriesL] at h
    rcases h with h | ⟨n, c, _, w', _, h⟩
    · subst h; simp [dirOK, Node.isDir]
    · subst h; simp [dirOK, Node.isDir]

/-! ## `**` as the only segment visits everything -/

mutual
theorem dsWalk_noSkip : ∀ (cs : List (Name × Node)) (ans : Path → Bool → Answer), NoSkip ans →
    dsWalk cs ans = entriesL cs
  | [], _, _ => by simp [dsWalk, entriesL]
  | (n, c) :: rest, ans, h => by
    have h1 := dsEntry_noSkip c n ans h
    have h2 := dsWalk_noSkip rest ans h
    simp [dsWalk, entriesL, h1, h2]
theorem dsEntry_noSkip : ∀ (c : Node) (n : Name) (ans : Path → Bool → Answer), NoSkip ans →
    dsEntry c n ans = (pre n (entries c), true)
  | .file, n, ans, h => by simp [dsEntry, entries, pre, h [n] false]
  | .dir cs, n, ans, h => by
    have := dsWalk_noSkip cs (under ans [n]) (h.under [n])
    simp [dsEntry, h [n] true, this, entries, pre]
end

theorem dstarLoop_last_true (d : Bool) (p : Path) : dstarLoop true d (fun q => q.isEmpty) p = true := by
  induction p with
  | nil => simp [dstarLoop]
  | cons c cs ih => simp [dstarLoop, ih]

theorem matches_dstar_only (p : Path) (d : Bool) : «matches» [.dstar] p d = true := by
  simp [«matches», dstarLoop_last_true]

/-! ## a plain last segment -/

theorem scan_noSkip (a : List Atom) (cs : List (Name × Node)) (ans : Path → Bool → Answer) (h : NoSkip ans) :
    scan a cs ans = (cs.filter (fun x => segMatch a x.1)).map (fun x => ([x.1], x.2.isDir)) := by
  induction cs with
  | nil => simp [scan]
  | cons x rest ih =>
    obtain ⟨n, c⟩ := x
    by_cases hm : segMatch a n = true
    · simp [scan, hm, h [n] c.isDir, ih]
    · simp [scan, hm, ih]

theorem matches_glob_only (a : List Atom) (p : Path) (d : Bool) :
    «matches» [.glob a] p d = true ↔ ∃ n, p = [n] ∧ segMatch a n = true := by
  cases p with
  | nil => simp [«matches»]
  | cons c r =>
    cases r with
    | nil => simp [«matches»]
    | cons c' r' => simp [«matches»]

/-! ## segments that are not the last one select directories -/

theorem selDirs_isDir {s : Seg} {t : Node} {x : Path × Node} (h : x ∈ selDirs s t) : ∃ cs, x.2 = .dir cs := by
  cases t with
  | file => cases s <;> simp [selDirs] at h
  | dir cs =>
    cases s with
    | glob a =>
      simp only [selDirs, List.mem_filterMap] at h
      obtain ⟨y, _, hy⟩ := h
      split at hy
      · rename_i hc
        cases hy
        simp only [Bool.and_eq_true] at hc
        cases hx : y.2 with
        | file => simp [hx, Node.isDir] at hc
        | dir cs' => exact ⟨cs', rfl⟩
      · cases hy
    | dstar =>
      simp only [selDirs, List.mem_cons] at h
      rcases h with rfl | h
      · exact ⟨cs, rfl⟩
      · exact dsDirs_isDir cs x h
where
  dsDirs_isDir : ∀ (cs : List (Name × Node)) (x : Path × Node), x ∈ dsDirs cs → ∃ cs', x.2 = .dir cs'
    | [], _, h => by simp [dsDirs] at h
    | (n, .file) :: rest, x, h => by
      simp only [dsDirs, dsDirsEntry, List.nil_append] at h
      exact dsDirs_isDir rest x h
    | (n, .dir cs') :: rest, x, h => by
      simp only [dsDirs, dsDirsEntry, List.cons_append, List.mem_cons, List.mem_append, List.mem_map] at h
      rcases h with rfl | ⟨y, hy, rfl⟩ | h
      · exact ⟨cs', rfl⟩
      · exact dsDirs_isDir cs' y hy
      · exact dsDirs_isDir rest x h

/-! ## `**` that is not the last segment -/

/-- the visits a continuation `F` (the walk of the remaining segments) produces from a list of selected directories -/
def Sel (F : Path → Node → List Visit) (xs : List (Path × Node)) (v : Visit) : Prop :=
  ∃ x ∈ xs, ∃ w ∈ F x.1 x.2, v = (x.1 ++ w.1, w.2)

/-- `F` visits, in every directory, exactly the entries matching `ps` -/
def HF (ps : Pattern) (F : Path → Node → List Visit) : Prop :=
  ∀ p cs w, w ∈ F p (.dir cs) ↔ w ∈ entries (.dir cs) ∧ «matches» ps w.1 w.2 = true

/-- `**` (not last) consumes at least one component of `v` -/
def Deep (ps : Pattern) (v : Visit) : Prop :=
  ∃ c r, v.1 = c :: r ∧ dirOK v.2 r = true ∧ dstarLoop false v.2 (fun q => «matches» ps q v.2) r = true

theorem sel_nil (F : Path → Node → List Visit) (v : Visit) : Sel F [] v ↔ False := by simp [Sel]

theorem sel_cons (F : Path → Node → List Visit) (a : Path × Node) (l : List (Path × Node)) (v : Visit) :
    Sel F (a :: l) v ↔ (∃ w ∈ F a.1 a.2, v = (a.1 ++ w.1, w.2)) ∨ Sel F l v := by
  simp [Sel]

theorem sel_append (F : Path → Node → List Visit) (l₁ l₂ : List (Path × Node)) (v : Visit) :
    Sel F (l₁ ++ l₂) v ↔ Sel F l₁ v ∨ Sel F l₂ v := by
  simp only [Sel, List.mem_append]
  constructor
  · rintro ⟨x, hx | hx, h⟩
    · exact Or.inl ⟨x, hx, h⟩
    · exact Or.inr ⟨x, hx, h⟩
  · rintro (⟨x, hx, h⟩ | ⟨x, hx, h⟩)
    · exact ⟨x, Or.inl hx, h⟩
    · exact ⟨x, Or.inr hx, h⟩

theorem sel_map (F : Path → Node → List Visit) (n : Name) (l : List (Path × Node)) (v : Visit) :
    Sel F (l.map (fun x => (n :: x.1, x.2))) v ↔
      ∃ v', Sel (fun p => F (n :: p)) l v' ∧ v = (n :: v'.1, v'.2) := by
  simp only [Sel, List.mem_map]
  constructor
  · rintro ⟨_, ⟨x, hx, rfl⟩, w, hw, rfl⟩
    exact ⟨(x.1 ++ w.1, w.2), ⟨x, hx, w, hw, rfl⟩, rfl⟩
  · rintro ⟨_, ⟨x, hx, w, hw, rfl⟩, rfl⟩
    exact ⟨(n :: x.1, x.2), ⟨x, hx, rfl⟩, w, hw, rfl⟩

theorem dstarLoop_unfold (d : Bool) (k : Path → Bool) (p : Path) :
    dstarLoop false d k p = true ↔
      k p = true ∨ ∃ c r, p = c :: r ∧ dirOK d r = true ∧ dstarLoop false d k r = true := by
  cases p with
  | nil => simp [dstarLoop]
  | cons c r =>
    simp only [dstarLoop, Bool.or_eq_true, Bool.and_eq_true, Bool.false_or, List.cons.injEq]
    constructor
    · rintro (h | ⟨h1, h2⟩)
      · exact Or.inl h
      · exact Or.inr ⟨c, r, ⟨rfl, rfl⟩, h1, h2⟩
    · rintro (h | ⟨_, _, ⟨rfl, rfl⟩, h1, h2⟩)
      · exact Or.inl h
      · exact Or.inr ⟨h1, h2⟩

/-- below the directory `n`: `**` consumes `n`, and then either stops or goes on consuming -/
theorem deep_cons (ps : Pattern) (n : Name) (w : Visit) :
    Deep ps (n :: w.1, w.2) ↔ dirOK w.2 w.1 = true ∧ («matches» ps w.1 w.2 = true ∨ Deep ps w) := by
  unfold Deep
  constructor
  · rintro ⟨c, r, h, hd, hl⟩
    simp only [List.cons.injEq] at h
    obtain ⟨rfl, rfl⟩ := h
    exact ⟨hd, (dstarLoop_unfold _ _ _).1 hl⟩
  · rintro ⟨hd, h⟩
    exact ⟨n, w.1, rfl, hd, (dstarLoop_unfold _ _ _).2 h⟩

theorem deep_entries_dir (ps : Pattern) (cs : List (Name × Node)) (w : Visit) :
    w ∈ entries (.dir cs) ∧ Deep ps w ↔ w ∈ entriesL cs ∧ Deep ps w := by
  simp only [entries, List.mem_cons]
  constructor
  · rintro ⟨rfl | h, hd⟩
    · obtain ⟨c, r, h, _⟩ := hd; simp at h
    · exact ⟨h, hd⟩
  · rintro ⟨h, hd⟩; exact ⟨Or.inr h, hd⟩

mutual
theorem sel_dsDirs (ps : Pattern) : ∀ (cs : List (Name × Node)) (F : Path → Node → List Visit), HF ps F → ∀ v,
    (Sel F (dsDirs cs) v ↔ v ∈ entriesL cs ∧ Deep ps v)
  | [], F, _, v => by simp [sel_nil, dsDirs, entriesL]
  | (n, c) :: rest, F, hF, v => by
    have h1 := sel_dsDirsEntry ps c n F hF v
    have h2 := sel_dsDirs ps rest F hF v
    simp only [dsDirs, entriesL, List.mem_append, sel_append, h1, h2]
    constructor
    · rintro (⟨a, b⟩ | ⟨a, b⟩)
      · exact ⟨Or.inl a, b⟩
      · exact ⟨Or.inr a, b⟩
    · rintro ⟨a | a, b⟩
      · exact Or.inl ⟨a, b⟩
      · exact Or.inr ⟨a, b⟩
theorem sel_dsDirsEntry (ps : Pattern) : ∀ (c : Node) (n : Name) (F : Path → Node → List Visit), HF ps F → ∀ v,
    (Sel F (dsDirsEntry c n) v ↔ v ∈ pre n (entries c) ∧ Deep ps v)
  | .file, n, F, _, v => by
    simp only [dsDirsEntry, sel_nil, entries, false_iff, mem_pre, List.mem_singleton]
    rintro ⟨⟨w, rfl, rfl⟩, hd⟩
    have := (deep_cons ps n ([], false)).1 hd
    simp [dirOK] at this
  | .dir cs, n, F, hF, v => by
    have ih := sel_dsDirs ps cs (fun p => F (n :: p)) (fun p cs' w => hF (n :: p) cs' w)
    simp only [dsDirsEntry, sel_cons, sel_map, mem_pre, hF [n] cs, ih]
    constructor
    · rintro (⟨w, ⟨hw, hm⟩, rfl⟩ | ⟨v', ⟨hv', hd⟩, rfl⟩)
      · refine ⟨⟨w, hw, rfl⟩, (deep_cons ps n w).2 ⟨?_, Or.inl hm⟩⟩
        simpa [Node.isDir] using dirOK_of_mem_entries hw
      · have hv'' : v' ∈ entries (.dir cs) := ((deep_entries_dir ps cs v').2 ⟨hv', hd⟩).1
        refine ⟨⟨v', hv'', rfl⟩, (deep_cons ps n v').2 ⟨?_, Or.inr hd⟩⟩
        simpa [Node.isDir] using dirOK_of_mem_entries hv''
    · rintro ⟨⟨w, hw, rfl⟩, hd⟩
      rcases ((deep_cons ps n w).1 hd).2 with hm | hd'
      · exact Or.inl ⟨w, ⟨hw, hm⟩, rfl⟩
      · exact Or.inr ⟨w, (deep_entries_dir ps cs w).1 ⟨hw, hd'⟩, rfl⟩
end

/-! ## the whole walk -/

theorem mem_walkFrom_cons_cons (s s' : Seg) (rest : Pattern) (t : Node) (ans : Path → Bool → Answer) (v : Visit) :
    v ∈ walkFrom (s :: s' :: rest) t ans ↔
      Sel (fun p d => walkFrom (s' :: rest) d (under ans p)) (selDirs s t) v := by
  simp only [walkFrom, List.mem_flatMap, List.mem_map, Sel]
  constructor
  · rintro ⟨x, hx, w, hw, rfl⟩; exact ⟨x, hx, w, hw, rfl⟩
  · rintro ⟨x, hx, w, hw, rfl⟩; exact ⟨x, hx, w, hw, rfl⟩

theorem sel_selDirs_glob (F : Path → Node → List Visit) (a : List Atom) (cs : List (Name × Node)) (v : Visit) :
    Sel F (selDirs (.glob a) (.dir cs)) v ↔
      ∃ n c, (n, c) ∈ cs ∧ segMatch a n = true ∧ c.isDir = true ∧ ∃ w ∈ F [n] c, v = (n :: w.1, w.2) := by
  simp only [Sel, selDirs, List.mem_filterMap]
  constructor
  · rintro ⟨x, ⟨y, hy, hx⟩, w, hw, rfl⟩
    split at hx
    · rename_i hc
      cases hx
      simp only [Bool.and_eq_true] at hc
      exact ⟨y.1, y.2, hy, hc.1, hc.2, w, hw, rfl⟩
    · cases hx
  · rintro ⟨n, c, hm, hs, hd, w, hw, rfl⟩
    exact ⟨([n], c), ⟨(n, c), hm, by simp [hs, hd]⟩, w, hw, rfl⟩

/-- **the walk visits exactly the matching entries** when the callback never answers `SkipDir` -/
theorem mem_walkFrom_noSkip : ∀ (pat : Pattern), pat ≠ [] → ∀ (cs : List (Name × Node)) (ans : Path → Bool → Answer),
    NoSkip ans → ∀ v : Visit,
    (v ∈ walkFrom pat (.dir cs) ans ↔ v ∈ entries (.dir cs) ∧ «matches» pat v.1 v.2 = true)
  | [], h, _, _, _, _ => absurd rfl h
  | [.dstar], _, cs, ans, hns, v => by
    simp [walkFrom, lastSeg, hns [] true, dsWalk_noSkip cs ans hns, entries, matches_dstar_only]
  | [.glob a], _, cs, ans, hns, v => by
    simp only [walkFrom, lastSeg, scan_noSkip a cs ans hns, matches_glob_only, List.mem_map, List.mem_filter,
      entries, List.mem_cons]
    constructor
    · rintro ⟨x, ⟨hx, hm⟩, rfl⟩
      refine ⟨Or.inr (mem_entriesL.2 ⟨x.1, x.2, hx, ([], x.2.isDir), nil_mem_entries.2 rfl, rfl⟩), x.1, rfl, hm⟩
    · rintro ⟨h, n, hp, hm⟩
      rcases h with rfl | h
      · simp at hp
      · obtain ⟨n', c, hc, w, hw, rfl⟩ := mem_entriesL.1 h
        simp only [List.cons.injEq] at hp
        obtain ⟨rfl, hw1⟩ := hp
        obtain ⟨w1, w2⟩ := w
        simp only at hw1
        subst hw1
        have := nil_mem_entries.1 hw
        subst this
        exact ⟨(n', c), ⟨hc, hm⟩, rfl⟩
  | s :: s' :: rest, _, cs, ans, hns, v => by
    have hF : HF (s' :: rest) (fun p d => walkFrom (s' :: rest) d (under ans p)) :=
      fun p cs' w => mem_walkFrom_noSkip (s' :: rest) (by simp) cs' (under ans p) (hns.under p) w
    rw [mem_walkFrom_cons_cons]
    cases s with
    | dstar =>
      simp only [selDirs, sel_cons, sel_dsDirs (s' :: rest) cs _ hF, hF [] cs, List.nil_append, «matches»,
        List.isEmpty_cons]
      rw [dstarLoop_unfold]
      constructor
      · rintro (⟨w, ⟨hw, hm⟩, rfl⟩ | ⟨hv, hd⟩)
        · exact ⟨hw, Or.inl hm⟩
        · exact ⟨((deep_entries_dir (s' :: rest) cs v).2 ⟨hv, hd⟩).1, Or.inr hd⟩
      · rintro ⟨hv, hm | hd⟩
        · exact Or.inl ⟨v, ⟨hv, hm⟩, rfl⟩
        · exact Or.inr ((deep_entries_dir (s' :: rest) cs v).1 ⟨hv, hd⟩)
    | glob a =>
      rw [sel_selDirs_glob]
      constructor
      · rintro ⟨n, c, hc, hs, hd, w, hw, rfl⟩
        cases c with
        | file => simp [Node.isDir] at hd
        | dir cs' =>
          obtain ⟨hw, hm⟩ := (hF [n] cs' w).1 hw
          refine ⟨?_, ?_⟩
          · simp only [entries, List.mem_cons]
            exact Or.inr (mem_entriesL.2 ⟨n, _, hc, w, hw, rfl⟩)
          · have := dirOK_of_mem_entries hw
            simp only [Node.isDir] at this
            simp [«matches», hs, this, hm]
      · rintro ⟨hv, hm⟩
        simp only [entries, List.mem_cons] at hv
        rcases hv with rfl | hv
        · simp [«matches»] at hm
        · obtain ⟨n, c, hc, w, hw, rfl⟩ := mem_entriesL.1 hv
          simp only [«matches», List.isEmpty_cons, Bool.false_or, Bool.and_eq_true] at hm
          obtain ⟨⟨hs, hd⟩, hm⟩ := hm
          have hcd : c.isDir = true := by rw [← dirOK_of_mem_entries hw]; exact hd
          cases c with
          | file => simp [Node.isDir] at hcd
          | dir cs' => exact ⟨n, _, hc, hs, rfl, w, (hF [n] cs' w).2 ⟨hw, hm⟩, rfl⟩

end Spok.Glob
