import Spok.Lemmas.Graph
/-! # `sort` (dag.Graph.Sort, Kahn's algorithm over Go maps) refines the emission relation, for every oracle

`KInv` is the loop invariant of `for !zeroInDegreeQueue.Empty()`; `sort_spec` is what the rest of the development uses:
whatever iteration orders the oracle dictates, `sort` never runs out of fuel, a returned order is an emission sequence
that cannot be extended (`EmitSeq`, `Stuck`), and the only error is "no vertex has in-degree 0". -/
namespace Spok.Graph

variable {α : Type} [DecidableEq α]

theorem inDegree_eq_zero_iff {par : List (α × α)} {c : α} : inDegree par c = 0 ↔ ∀ e ∈ par, e.2 ≠ c := by
  unfold inDegree
  rw [List.length_eq_zero_iff, List.filter_eq_nil_iff]
  simp

theorem mem_children {E : List (α × α)} {v c : α} : c ∈ children E v ↔ (v, c) ∈ E := by
  unfold children
  simp only [List.mem_map, List.mem_filter, decide_eq_true_eq]
  constructor
  · rintro ⟨⟨a, b⟩, ⟨h1, h2⟩, h3⟩
    simp only at h2 h3
    subst h2 h3; exact h1
  · intro h; exact ⟨(v, c), ⟨h, rfl⟩, rfl⟩

theorem nodup_children {E : List (α × α)} (hE : E.Nodup) (v : α) : (children E v).Nodup := by
  unfold children
  induction E with
  | nil => simp
  | cons e E ih =>
    have hE' := List.nodup_cons.mp hE
    simp only [List.filter_cons]
    split
    · next he =>
      simp only [decide_eq_true_eq] at he
      rw [List.map_cons, List.nodup_cons]
      refine ⟨?_, ih hE'.2⟩
      intro hm
      simp only [List.mem_map, List.mem_filter, decide_eq_true_eq] at hm
      obtain ⟨⟨a, b⟩, ⟨h1, h2⟩, h3⟩ := hm
      simp only at h2 h3
      apply hE'.1
      have : e = (a, b) := by
        obtain ⟨e1, e2⟩ := e
        simp only at he h3
        subst he h2 h3; rfl
      rw [this]; exact h1
    · exact ih hE'.2

/-- what one pass over the children of `v` does to the parents relation and to the queue -/
theorem relax_spec (v : α) : ∀ (cs : List α) (par : List (α × α)) (q : List α), cs.Nodup →
    ∃ extra, (relax v cs (par, q)).2 = q ++ extra ∧ extra.Sublist cs ∧
      (∀ c ∈ cs, c ∈ extra ↔ ∀ e ∈ par, e.2 = c → e.1 = v) ∧
      (∀ e, e ∈ (relax v cs (par, q)).1 ↔ e ∈ par ∧ ¬ (e.1 = v ∧ e.2 ∈ cs)) := by
  intro cs
  induction cs with
  | nil =>
    intro par q _
    exact ⟨[], by simp [relax], List.Sublist.refl _, by simp, by simp [relax]⟩
  | cons c cs ih =>
    intro par q hcs
    have hcs' := List.nodup_cons.mp hcs
    let par' := par.filter fun e => ¬ (e.1 = v ∧ e.2 = c)
    have hpar' : ∀ e, e ∈ par' ↔ e ∈ par ∧ ¬ (e.1 = v ∧ e.2 = c) := by
      intro e; simp only [par', List.mem_filter, decide_eq_true_eq]
    have hdeg : inDegree par' c = 0 ↔ ∀ e ∈ par, e.2 = c → e.1 = v := by
      rw [inDegree_eq_zero_iff]
      constructor
      · intro h e he hec
        apply Classical.byContradiction
        intro hev
        exact h e ((hpar' e).mpr ⟨he, fun hh => hev hh.1⟩) hec
      · intro h e he hec
        have := (hpar' e).mp he
        exact this.2 ⟨h e this.1 hec, hec⟩
    obtain ⟨extra', h1, h2, h3, h4⟩ := ih par' (if inDegree par' c = 0 then q ++ [c] else q) hcs'.2
    have hstep : relax v (c :: cs) (par, q) = relax v cs (par', if inDegree par' c = 0 then q ++ [c] else q) := rfl
    rw [hstep]
    have hcx : c ∉ extra' := fun hx => hcs'.1 (h2.subset hx)
    have h3' : ∀ c' ∈ cs, c' ∈ extra' ↔ ∀ e ∈ par, e.2 = c' → e.1 = v := by
      intro c' hc'
      rw [h3 c' hc']
      constructor
      · intro h e he hec
        apply Classical.byContradiction
        intro hev
        exact hev (h e ((hpar' e).mpr ⟨he, fun hh => hev hh.1⟩) hec)
      · intro h e he hec
        exact h e ((hpar' e).mp he).1 hec
    have h4' : ∀ e, e ∈ (relax v cs (par', if inDegree par' c = 0 then q ++ [c] else q)).1 ↔
        e ∈ par ∧ ¬ (e.1 = v ∧ e.2 ∈ c :: cs) := by
      intro e
      rw [h4 e, hpar' e]
      simp only [List.mem_cons]
      constructor
      · rintro ⟨⟨a, b⟩, d⟩
        refine ⟨a, ?_⟩
        rintro ⟨x, y | y⟩
        · exact b ⟨x, y⟩
        · exact d ⟨x, y⟩
      · rintro ⟨a, b⟩
        exact ⟨⟨a, fun hh => b ⟨hh.1, Or.inl hh.2⟩⟩, fun hh => b ⟨hh.1, Or.inr hh.2⟩⟩
    by_cases hz : inDegree par' c = 0
    · refine ⟨c :: extra', ?_, h2.cons_cons c, ?_, h4'⟩
      · rw [h1]; simp [hz]
      · intro c' hc'
        rcases List.mem_cons.mp hc' with rfl | hmem
        · simp only [List.mem_cons, true_or, true_iff]
          exact hdeg.mp hz
        · rw [← h3' c' hmem]
          simp only [List.mem_cons]
          constructor
          · rintro (heq | h)
            · exact absurd (heq ▸ hmem) hcs'.1
            · exact h
          · exact Or.inr
    · refine ⟨extra', ?_, h2.cons c, ?_, h4'⟩
      · rw [h1]; simp [hz]
      · intro c' hc'
        rcases List.mem_cons.mp hc' with rfl | hmem
        · constructor
          · intro h; exact absurd h hcx
          · intro h; exact absurd (hdeg.mpr h) hz
        · exact h3' c' hmem

/-- invariant of the loop of `dag.Sort` (queue, result so far, remaining parent edges) -/
structure KInv (V : List α) (E : List (α × α)) (q acc : List α) (par : List (α × α)) : Prop where
  nodup : (acc ++ q).Nodup
  sub : ∀ x ∈ acc ++ q, x ∈ V
  par_iff : ∀ e, e ∈ par ↔ e ∈ E ∧ e.1 ∉ acc
  ready : ∀ v ∈ q, ∀ e ∈ par, e.2 ≠ v
  seq : EmitSeq V E acc
  waiting : ∀ v ∈ V, v ∉ acc → v ∉ q → ∃ e ∈ par, e.2 = v

/-- the graph handed to `sort` is well formed -/
structure WF (V : List α) (E : List (α × α)) : Prop where
  vnodup : V.Nodup
  enodup : E.Nodup
  inV : ∀ p c, (p, c) ∈ E → p ∈ V ∧ c ∈ V

theorem kinv_init {V : List α} {E : List (α × α)} (hwf : WF V E) (o : Oracle α) :
    KInv V E (initQueue o ⟨V, E, 0⟩) [] E where
  nodup := by
    simp only [List.nil_append, initQueue]
    exact (nodup_reorder hwf.vnodup).sublist List.filter_sublist
  sub := by
    intro x hx
    simp only [List.nil_append, initQueue, List.mem_filter] at hx
    exact mem_reorder.mp hx.1
  par_iff := by intro e; simp
  ready := by
    intro v hv e he
    simp only [initQueue, List.mem_filter, decide_eq_true_eq] at hv
    exact inDegree_eq_zero_iff.mp hv.2 e he
  seq := .nil
  waiting := by
    intro v hv _ hq
    simp only [initQueue, List.mem_filter, decide_eq_true_eq, not_and] at hq
    have := hq (mem_reorder.mpr hv)
    rw [inDegree_eq_zero_iff] at this
    apply Classical.byContradiction
    intro hne
    apply this
    intro e he hev
    exact hne ⟨e, he, hev⟩

theorem kinv_step {V : List α} {E : List (α × α)} (hwf : WF V E) {v : α} {q acc : List α} {par : List (α × α)}
    (h : KInv V E (v :: q) acc par) (hint : List α) :
    KInv V E (relax v (reorder hint (children E v)) (par, q)).2 (acc ++ [v])
      (relax v (reorder hint (children E v)) (par, q)).1 := by
  have hcsn : (reorder hint (children E v)).Nodup := nodup_reorder (nodup_children hwf.enodup v)
  have hcsm : ∀ c, c ∈ reorder hint (children E v) ↔ (v, c) ∈ E := fun c => mem_reorder.trans mem_children
  obtain ⟨extra, h1, h2, h3, h4⟩ := relax_spec v (reorder hint (children E v)) par q hcsn
  generalize reorder hint (children E v) = cs at *
  rw [h1]
  have hnd := List.nodup_append.mp h.nodup
  have hvq : (v :: q).Nodup := hnd.2.1
  have hvq' := List.nodup_cons.mp hvq
  have hva : v ∉ acc := fun ha => hnd.2.2 v ha v List.mem_cons_self rfl
  have hvV : v ∈ V := h.sub v (List.mem_append_right _ List.mem_cons_self)
  have hvpar : (p : α) → (p, v) ∈ E → p ∈ acc := by
    intro p hp
    apply Classical.byContradiction
    intro hpa
    exact h.ready v List.mem_cons_self (p, v) ((h.par_iff _).mpr ⟨hp, hpa⟩) rfl
  -- facts about a newly enqueued vertex
  have hextra : ∀ c ∈ extra, (v, c) ∈ par ∧ c ∉ acc ∧ c ≠ v ∧ c ∉ q := by
    intro c hc
    have hcE : (v, c) ∈ E := (hcsm c).mp (h2.subset hc)
    have hcpar : (v, c) ∈ par := (h.par_iff _).mpr ⟨hcE, hva⟩
    refine ⟨hcpar, ?_, ?_, ?_⟩
    · intro hca; exact hva (h.seq.parents_mem hcE hca)
    · rintro rfl; exact h.ready c List.mem_cons_self _ hcpar rfl
    · intro hcq; exact h.ready c (List.mem_cons_of_mem _ hcq) _ hcpar rfl
  exact {
    nodup := by
      rw [List.nodup_append]
      refine ⟨?_, ?_, ?_⟩
      · rw [List.nodup_append]
        refine ⟨hnd.1, by simp, ?_⟩
        intro a ha b hb
        have : b = v := by simpa using hb
        subst this
        rintro rfl; exact hva ha
      · rw [List.nodup_append]
        refine ⟨hvq'.2, h2.nodup hcsn, ?_⟩
        intro a ha b hb
        rintro rfl
        exact (hextra a hb).2.2.2 ha
      · intro a ha b hb
        rintro rfl
        rcases List.mem_append.mp ha with ha | ha
        · rcases List.mem_append.mp hb with hb | hb
          · exact hnd.2.2 a ha a (List.mem_cons_of_mem _ hb) rfl
          · exact (hextra a hb).2.1 ha
        · have : a = v := by simpa using ha
          subst this
          rcases List.mem_append.mp hb with hb | hb
          · exact hvq'.1 hb
          · exact (hextra a hb).2.2.1 rfl
    sub := by
      intro x hx
      rcases List.mem_append.mp hx with hx | hx
      · rcases List.mem_append.mp hx with hx | hx
        · exact h.sub x (List.mem_append_left _ hx)
        · have : x = v := by simpa using hx
          exact this ▸ hvV
      · rcases List.mem_append.mp hx with hx | hx
        · exact h.sub x (List.mem_append_right _ (List.mem_cons_of_mem _ hx))
        · exact (hwf.inV v x ((hcsm x).mp (h2.subset hx))).2
    par_iff := by
      intro e
      rw [h4 e, h.par_iff e]
      simp only [List.mem_append, List.mem_cons, List.not_mem_nil, or_false, not_or]
      constructor
      · rintro ⟨⟨a, b⟩, c⟩
        refine ⟨a, b, ?_⟩
        intro hev
        apply c
        refine ⟨hev, (hcsm _).mpr ?_⟩
        obtain ⟨e1, e2⟩ := e
        simp only at hev
        subst hev; exact a
      · rintro ⟨a, b, c⟩
        exact ⟨⟨a, b⟩, fun hh => c hh.1⟩
    ready := by
      intro w hw e he hew
      have hep := (h4 e).mp he
      rcases List.mem_append.mp hw with hw | hw
      · exact h.ready w (List.mem_cons_of_mem _ hw) e hep.1 hew
      · have := (h3 w (h2.subset hw)).mp hw e hep.1 hew
        exact hep.2 ⟨this, hew ▸ h2.subset hw⟩
    seq := .snoc h.seq ⟨hvV, hva, hvpar⟩
    waiting := by
      intro w hw hwa hwq
      have hwa' : w ∉ acc := fun hh => hwa (List.mem_append_left _ hh)
      have hwv : w ≠ v := fun hh => hwa (List.mem_append_right _ (by simp [hh]))
      have hwq' : w ∉ q := fun hh => hwq (List.mem_append_left _ hh)
      have hwx : w ∉ extra := fun hh => hwq (List.mem_append_right _ hh)
      obtain ⟨e, he, hew⟩ := h.waiting w hw hwa' (by
        intro hh
        rcases List.mem_cons.mp hh with hh | hh
        · exact hwv hh
        · exact hwq' hh)
      by_cases hall : ∀ e ∈ par, e.2 = w → e.1 = v
      · exfalso
        have hev := hall e he hew
        have : (v, w) ∈ E := by
          have := ((h.par_iff e).mp he).1
          obtain ⟨e1, e2⟩ := e
          simp only at hev hew
          subst hev hew; exact this
        exact hwx ((h3 w ((hcsm w).mpr this)).mpr hall)
      · have : ∃ e ∈ par, e.2 = w ∧ e.1 ≠ v := by
          apply Classical.byContradiction
          intro hne
          apply hall
          intro e he hew
          apply Classical.byContradiction
          intro hev
          exact hne ⟨e, he, hew, hev⟩
        obtain ⟨e', he', hew', hev'⟩ := this
        exact ⟨e', (h4 e').mpr ⟨he', fun hh => hev' hh.1⟩, hew'⟩ }

omit [DecidableEq α] in
theorem stuck_of_kinv {V : List α} {E : List (α × α)} {acc : List α} {par : List (α × α)} (h : KInv V E [] acc par) :
    Stuck V E acc := by
  intro v hv hva
  obtain ⟨e, he, hev⟩ := h.waiting v hv hva (by simp)
  have := (h.par_iff e).mp he
  obtain ⟨e1, e2⟩ := e
  simp only at hev
  subst hev
  exact ⟨e1, this.1, this.2⟩

theorem kahnLoop_spec {V : List α} {E : List (α × α)} (hwf : WF V E) (o : Oracle α) :
    ∀ (fuel : Nat) (q acc : List α) (par : List (α × α)), KInv V E q acc par → V.length ≤ acc.length + fuel →
      ∃ r, kahnLoop o E fuel q acc par = some r ∧ EmitSeq V E r ∧ Stuck V E r := by
  intro fuel
  induction fuel with
  | zero =>
    intro q acc par h hf
    cases q with
    | nil => exact ⟨acc, by simp [kahnLoop], h.seq, stuck_of_kinv h⟩
    | cons v q =>
      exfalso
      have := h.nodup.length_le_of_subset (fun x hx => h.sub x hx)
      simp at this
      omega
  | succ fuel ih =>
    intro q acc par h hf
    cases q with
    | nil => exact ⟨acc, by simp [kahnLoop], h.seq, stuck_of_kinv h⟩
    | cons v q =>
      simp only [kahnLoop]
      apply ih _ _ _ (kinv_step hwf h _)
      simp
      omega

/-- `dag.Graph.Sort` for every iteration order: never spins; a result is a maximal emission sequence; the only error is
    an empty initial queue, i.e. every vertex has a parent (or there is no vertex at all) -/
theorem sort_spec {g : Graph α} (hwf : WF g.verts g.edges) (o : Oracle α) :
    (∃ r, sort o g = .ok r ∧ EmitSeq g.verts g.edges r ∧ Stuck g.verts g.edges r) ∨
    (sort o g = .error .cycle ∧ Stuck g.verts g.edges []) := by
  have hinit : KInv g.verts g.edges (initQueue o g) [] g.edges := kinv_init hwf o
  unfold sort
  by_cases hq : initQueue o g = []
  · right
    simp only [hq, if_true, true_and]
    rw [hq] at hinit
    exact stuck_of_kinv hinit
  · left
    obtain ⟨r, hr, h1, h2⟩ := kahnLoop_spec hwf o g.verts.length _ _ _ hinit (by simp)
    exact ⟨r, by simp [hq, hr], h1, h2⟩

end Spok.Graph
