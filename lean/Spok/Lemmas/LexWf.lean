import Spok.Lemmas.LexTerm
/-! # The well-formedness invariant of the scanner (property C16), part 1: definitions and primitives

`Wf input l` ties the Go counters of a scanner state (`pos start line startLine`) to the zipper:
`pos` is the byte length of what has been read, `line` one plus its newlines, the token under
construction is the stretch `[start, pos)`, and the tokens emitted so far tile the input before `start`
(`TilesR`).  This file proves that every primitive preserves it under its precondition. -/
namespace Spok

/-! ## byte lengths and newline counts of rune lists -/

def bytesLen : List Rune → Nat
  | [] => 0
  | r :: rs => r.w + bytesLen rs

def nl : List Rune → Nat
  | [] => 0
  | r :: rs => (if r.cp == NL then 1 else 0) + nl rs

@[simp] theorem bytesLen_nil : bytesLen [] = 0 := rfl
@[simp] theorem bytesLen_cons (r : Rune) (rs : List Rune) : bytesLen (r :: rs) = r.w + bytesLen rs := rfl
@[simp] theorem bytesLen_append (xs ys : List Rune) : bytesLen (xs ++ ys) = bytesLen xs + bytesLen ys := by
  induction xs with
  | nil => simp
  | cons x xs ih => simp [ih]; omega
@[simp] theorem bytesLen_reverse (xs : List Rune) : bytesLen xs.reverse = bytesLen xs := by
  induction xs with
  | nil => simp
  | cons x xs ih => simp [ih]; omega

@[simp] theorem nl_nil : nl [] = 0 := rfl
@[simp] theorem nl_cons (r : Rune) (rs : List Rune) : nl (r :: rs) = (if r.cp == NL then 1 else 0) + nl rs := rfl
@[simp] theorem nl_append (xs ys : List Rune) : nl (xs ++ ys) = nl xs + nl ys := by
  induction xs with
  | nil => simp
  | cons x xs ih => simp [ih]; omega
@[simp] theorem nl_reverse (xs : List Rune) : nl xs.reverse = nl xs := by
  induction xs with
  | nil => simp
  | cons x xs ih => simp [ih]; omega

/-! ## what decoding guarantees about a rune -/

/-- A rune as `decode1` produces it: an ASCII code point is carried by exactly its own byte, and every
    byte of a non-ASCII rune (a multi-byte sequence, or an invalid byte decoded to U+FFFD) is ≥ 0x80. -/
def RuneGood (r : Rune) : Prop :=
  (r.cp < 128 → r.more = [] ∧ r.b0.toNat = r.cp) ∧ (128 ≤ r.cp → ∀ b ∈ r.bytes, 128 ≤ b.toNat)

def RunesOK (rs : List Rune) : Prop := ∀ r ∈ rs, RuneGood r

theorem RuneGood.w_eq_one {r : Rune} (h : RuneGood r) (hc : r.cp < 128) : r.w = 1 := by
  simp [Rune.w, (h.1 hc).1]

theorem decode1_good (b0 : UInt8) (rest : List UInt8) : RuneGood (decode1 b0 rest) := by
  have hb : b0.toNat < 256 := UInt8.toNat_lt b0
  unfold decode1
  simp only []
  repeat' split
  all_goals (simp only [RuneGood, Rune.bytes, cont, Bool.and_eq_true, decide_eq_true_eq, beq_iff_eq] at *)
  all_goals (refine ⟨fun h => ?_, fun h => ?_⟩)
  all_goals first
    | omega
    | (simp; omega)
    | (simp; done)
    | (simp only [List.mem_cons, List.not_mem_nil, or_false, forall_eq_or_imp, forall_eq]; omega)

theorem decodeAll_runesOK (bs : List UInt8) : RunesOK (decodeAll bs) := by
  induction h : bs.length using Nat.strongRecOn generalizing bs with
  | _ n ih =>
    cases bs with
    | nil => intro r hr; simp [decodeAll] at hr
    | cons b0 rest =>
      rw [decodeAll]
      intro r hr
      simp only [List.mem_cons] at hr
      rcases hr with rfl | hr
      · exact decode1_good b0 rest
      · have hw := decode1_w_pos b0 rest
        exact ih _ (by subst h; simp [List.length_drop]; omega) _ rfl r hr

/-! ## tiling -/

/-- `TilesR before ts`: the tokens `ts` (in emission order) tile the stretch of input whose runes,
    *last one first*, are `before`: each token's text is a contiguous run of it, at the token's byte
    offset and line; between tokens (and before the first, and after the last) there is only white space;
    no token is an ERROR or EOF token. -/
inductive TilesR : List Rune → List Tok → Prop
  | nil : TilesR [] []
  | space {b : List Rune} {ts : List Tok} {r : Rune} : TilesR b ts → isSpace r = true → TilesR (r :: b) ts
  | tok {b : List Rune} {ts : List Tok} (t : Tok) : TilesR b ts → t.ty ≠ .error → t.ty ≠ .eof →
      t.pos = bytesLen b → t.line = 1 + nl b → TilesR (t.val.reverse ++ b) (ts ++ [t])

theorem TilesR.spaces {b : List Rune} {ts : List Tok} (h : TilesR b ts) :
    ∀ (ws : List Rune), (∀ r ∈ ws, isSpace r = true) → TilesR (ws ++ b) ts := by
  intro ws
  induction ws with
  | nil => intro _; exact h
  | cons w ws ih =>
    intro hws
    exact TilesR.space (ih (fun r hr => hws r (by simp [hr]))) (hws w (by simp))

/-! ## the invariant -/

structure Wf (input : List Rune) (l : L) : Prop where
  ok : RunesOK input
  zip : l.left.reverse ++ l.right = input
  pos : l.pos = bytesLen l.left
  line : l.line = 1 + nl l.left
  tok : ∃ before, l.left = l.tokRev ++ before ∧ l.start = bytesLen before ∧ l.startLine = 1 + nl before ∧
          TilesR before l.toks.toList

theorem Wf.mem_right {input : List Rune} {l : L} (h : Wf input l) {r : Rune} (hr : r ∈ l.right) : r ∈ input := by
  rw [← h.zip]; simp [hr]
theorem Wf.mem_left {input : List Rune} {l : L} (h : Wf input l) {r : Rune} (hr : r ∈ l.left) : r ∈ input := by
  rw [← h.zip]; simp [hr]

theorem Wf.good_right {input : List Rune} {l : L} (h : Wf input l) {r : Rune} (hr : r ∈ l.right) : RuneGood r :=
  h.ok r (h.mem_right hr)
theorem Wf.good_left {input : List Rune} {l : L} (h : Wf input l) {r : Rune} (hr : r ∈ l.left) : RuneGood r :=
  h.ok r (h.mem_left hr)

theorem Wf.init {rs : List Rune} (h : RunesOK rs) : Wf rs (L.init rs) :=
  ⟨h, by simp [L.init], by simp [L.init], by simp [L.init], ⟨[], by simp [L.init], by simp [L.init], by simp [L.init],
    by simpa [L.init] using TilesR.nil⟩⟩

/-! ## `width` is irrelevant -/

def L.setW (l : L) (w : Nat) : L := { l with width := w }

@[simp] theorem L.setW_left (l : L) (w : Nat) : (l.setW w).left = l.left := rfl
@[simp] theorem L.setW_right (l : L) (w : Nat) : (l.setW w).right = l.right := rfl
@[simp] theorem L.setW_tokRev (l : L) (w : Nat) : (l.setW w).tokRev = l.tokRev := rfl
@[simp] theorem L.setW_pos (l : L) (w : Nat) : (l.setW w).pos = l.pos := rfl
@[simp] theorem L.setW_start (l : L) (w : Nat) : (l.setW w).start = l.start := rfl
@[simp] theorem L.setW_line (l : L) (w : Nat) : (l.setW w).line = l.line := rfl
@[simp] theorem L.setW_startLine (l : L) (w : Nat) : (l.setW w).startLine = l.startLine := rfl
@[simp] theorem L.setW_toks (l : L) (w : Nat) : (l.setW w).toks = l.toks := rfl

theorem Wf.setW {input : List Rune} {l : L} (h : Wf input l) (w : Nat) : Wf input (l.setW w) :=
  ⟨h.ok, h.zip, h.pos, h.line, h.tok⟩

/-! ## primitives -/

theorem Wf.next {input : List Rune} {l : L} (h : Wf input l) : Wf input (l.next).1 := by
  unfold L.next
  cases hr : l.right with
  | nil => exact ⟨h.ok, by simpa [hr] using h.zip, h.pos, h.line, h.tok⟩
  | cons r rs =>
    obtain ⟨before, h1, h2, h3, h4⟩ := h.tok
    refine ⟨h.ok, ?_, ?_, ?_, ⟨before, ?_, h2, h3, h4⟩⟩
    · simp only [List.reverse_cons, List.append_assoc, List.singleton_append]; rw [← hr]; exact h.zip
    · simp [h.pos]; omega
    · simp only [nl_cons, h.line]; split <;> omega
    · simp [h1]

/-- `backup` directly after `next` restores everything but `width` (this is `peek`) -/
theorem L.next_backup_eq {input : List Rune} {l : L} (h : Wf input l) :
    (l.next).1.backup = l.setW (l.next).1.width := by
  unfold L.next
  cases hr : l.right with
  | nil => simp [L.backup, L.setW, hr]
  | cons r rs =>
    have hg := h.good_right (r := r) (by simp [hr])
    have hw : r.cp = NL → r.w = 1 := fun hc => hg.w_eq_one (by omega)
    have hr' : r :: rs = l.right := hr.symm
    simp only [L.backup, Rune.w_ne_zero, L.setW]
    cases l with
    | mk left right tokRev pos start line startLine width toks =>
      simp only [Bool.false_eq_true, if_false, L.mk.injEq, true_and, and_true] at hr' ⊢
      refine ⟨hr', by omega, ?_⟩
      by_cases hc : r.cp = NL
      · simp [hc, hw hc]
      · simp [hc]

theorem L.peek_eq {input : List Rune} {l : L} (h : Wf input l) : (l.peek).1 = l.setW (l.next).1.width := by
  rw [← L.next_backup_eq h]; rfl

theorem L.atEOL_eq {input : List Rune} {l : L} (h : Wf input l) : (l.atEOL).1 = l.setW (l.next).1.width := by
  rw [← L.peek_eq h]; rfl

theorem Wf.next_backup {input : List Rune} {l : L} (h : Wf input l) : Wf input (l.next).1.backup := by
  rw [L.next_backup_eq h]; exact h.setW _
theorem Wf.peek {input : List Rune} {l : L} (h : Wf input l) : Wf input (l.peek).1 := by
  rw [L.peek_eq h]; exact h.setW _
theorem Wf.atEOL {input : List Rune} {l : L} (h : Wf input l) : Wf input (l.atEOL).1 := by
  rw [L.atEOL_eq h]; exact h.setW _

/-! ### projections of the primitives that later proofs need -/

@[simp] theorem L.emit_tokRev (l : L) (t : TT) : (l.emit t).tokRev = [] := rfl
@[simp] theorem L.discard_tokRev (l : L) : l.discard.tokRev = [] := rfl
@[simp] theorem L.error_toks (l : L) :
    (l.error).1.toks = l.toks.push ⟨.error, [], l.start, l.startLine, l.line⟩ := rfl

theorem bytesLen_eq_length {xs : List Rune} (h : ∀ r ∈ xs, r.w = 1) : bytesLen xs = xs.length := by
  induction xs with
  | nil => rfl
  | cons x xs ih =>
    simp only [bytesLen_cons, List.length_cons, h x (by simp), ih (fun r hr => h r (by simp [hr]))]; omega

theorem nl_eq_zero {xs : List Rune} (h : ∀ r ∈ xs, r.cp ≠ NL) : nl xs = 0 := by
  induction xs with
  | nil => rfl
  | cons x xs ih =>
    have := h x (by simp)
    simp [this, ih (fun r hr => h r (by simp [hr]))]

theorem Wf.emit {input : List Rune} {l : L} (h : Wf input l) (ty : TT) (h1 : ty ≠ .error) (h2 : ty ≠ .eof) :
    Wf input (l.emit ty) := by
  obtain ⟨before, e1, e2, e3, e4⟩ := h.tok
  refine ⟨h.ok, h.zip, h.pos, h.line, ⟨l.left, by simp [L.emit], h.pos, h.line, ?_⟩⟩
  have := TilesR.tok ⟨ty, l.tokRev.reverse, l.start, l.startLine, 0⟩ e4 h1 h2 e2 e3
  simpa [L.emit, e1] using this

/-- `discard` is sound when what is thrown away is white space -/
theorem Wf.discard {input : List Rune} {l : L} (h : Wf input l) (hws : ∀ r ∈ l.tokRev, isSpace r = true) :
    Wf input l.discard := by
  obtain ⟨before, e1, e2, e3, e4⟩ := h.tok
  refine ⟨h.ok, h.zip, h.pos, h.line, ⟨l.left, by simp [L.discard], h.pos, h.line, ?_⟩⟩
  have := e4.spaces l.tokRev hws
  simpa [L.discard, e1] using this

/-- `absorb` over the spelled token: the next runes carry the ASCII code points `s` (none a newline) -/
theorem Wf.absorb {input : List Rune} {l : L} (h : Wf input l) (s : List Nat) (hp : l.hasPrefix s = true)
    (hs : ∀ c ∈ s, c < 128 ∧ c ≠ NL) : Wf input (l.absorb s.length) := by
  obtain ⟨before, e1, e2, e3, e4⟩ := h.tok
  have hm : (l.right.take s.length).map (·.cp) = s := by simpa [L.hasPrefix] using hp
  have hlen : (l.right.take s.length).length = s.length := by
    have := congrArg List.length hm; simpa using this
  have hcp : ∀ r ∈ l.right.take s.length, r.cp ∈ s := by
    intro r hr; rw [← hm]; exact List.mem_map.mpr ⟨r, hr, rfl⟩
  have hw : bytesLen (l.right.take s.length) = s.length := by
    rw [bytesLen_eq_length, hlen]
    intro r hr
    exact (h.good_right (List.mem_of_mem_take hr)).w_eq_one (hs _ (hcp r hr)).1
  have hn : nl (l.right.take s.length) = 0 := nl_eq_zero (fun r hr => (hs _ (hcp r hr)).2)
  refine ⟨h.ok, ?_, ?_, ?_, ⟨before, ?_, e2, e3, e4⟩⟩
  · simp only [L.absorb, List.reverse_append, List.reverse_reverse, List.append_assoc, List.take_append_drop]
    exact h.zip
  · simp [L.absorb, hw, h.pos]; omega
  · simp [L.absorb, hn, h.line]
  · simp [L.absorb, e1]

/-- the one-byte step back over a rune that `lastIs` has just seen -/
theorem Wf.stepBack {input : List Rune} {l : L} (h : Wf input l) (c : Nat) (hl : l.lastIs c = true)
    (hc : c < 128) (hn : c ≠ NL) : Wf input l.stepBack := by
  obtain ⟨before, e1, e2, e3, e4⟩ := h.tok
  unfold L.lastIs at hl
  split at hl
  · rename_i t ts r ls h1 h2
    have hcp : r.cp = c := by simpa using hl
    have hg := h.good_left (r := r) (by simp [h2])
    have hw : r.w = 1 := hg.w_eq_one (by omega)
    have htr : ls = ts ++ before := by
      rw [h1, h2] at e1; simp at e1; exact e1.2
    have hpos := h.pos
    have hline := h.line
    have hzip := h.zip
    rw [h2] at hpos hline hzip
    have hsb : l.stepBack = { l with left := ls, right := r :: l.right, tokRev := ts, pos := l.pos - 1 } := by
      simp [L.stepBack, h1, h2]
    rw [hsb]
    refine ⟨h.ok, ?_, ?_, ?_, ⟨before, htr, e2, e3, e4⟩⟩
    · simpa using hzip
    · simp [hw] at hpos; simp; omega
    · have : ¬ r.cp = NL := by omega
      simpa [this] using hline
  · cases hl

/-- the tokens emitted so far tile some prefix of the input (what is left of `Wf` when the scanner state
    itself is no longer trusted: on the way to an ERROR token) -/
def TilesOK (input : List Rune) (toks : Array Tok) : Prop :=
  ∃ b rest, b.reverse ++ rest = input ∧ TilesR b toks.toList

theorem Wf.tilesOK {input : List Rune} {l : L} (h : Wf input l) : TilesOK input l.toks := by
  obtain ⟨before, e1, e2, e3, e4⟩ := h.tok
  refine ⟨before, l.tokRev.reverse ++ l.right, ?_, e4⟩
  rw [← h.zip, e1]; simp

end Spok
