/-! # Engine `run` — executable model of `SpokFile.run` (file/file.go) and of the cache protocol (cache/cache.go)

A pc-style small-step machine.  One `step` is one *micro-step*: a point at which the process can be killed.
Every `Cache.Dump` is two micro-steps (truncate, then write), so a kill in between leaves the file `corrupt`.

```
boot ─ Exists? ─ no ─► initializing ─truncate─► initWriting ─write, Load─► decide
      └ yes: Load ─ unparsable ─► cacheError            └ parsed ─► decide
decide (head task t):   hasher fails ─► hashError
                        !force && n>0 && cached != "" && current == cached ─► skip, next task
                        cached != "" ─ Set "" ; truncate ─► invalidating ─write─► invalidated
                        cached == ""                      ─────────────────────► invalidated
invalidated ─ Task.Run ─► executed ─ recorded != "" ─ Set ; truncate ─► committing ─write─► decide (next task)
                                    └ recorded == "" ──────────────────────────────────► decide (next task)
```
`recorded` = current digest on success with files, `""` on success without files, the old digest on failure.

Ghost (specification) state `last : Name → Option Items`: the dependency files (paths and contents) a task's commands
last completed successfully on; set on every successful completion, forced or not, reset when the cache is removed.

`digest` is a parameter; nothing here or in the theorems assumes it injective. -/
namespace Spok.Run

abbrev Name := Nat
abbrev Digest := Nat
/-- a regular file handed to the hasher: (path id, content id) -/
abbrev Item := Nat × Nat
abbrev Items := List Item

/-- What the hasher is handed for one task (DESIGN §7.1): `n = dirs + items.length` paths, of which `items` are the
    regular files (canonical order, with multiplicity) and `dirs` are directories (dropped by the hasher). -/
structure Inputs where
  dirs : Nat
  items : Items
deriving DecidableEq, Repr

def Inputs.n (i : Inputs) : Nat := i.dirs + i.items.length

/-- the parsed cache file: `none` is the `""` entry (or an absent key) -/
abbrev Map := Name → Option Digest

def upd {β : Type} (m : Name → β) (t : Name) (v : β) : Name → β := fun u => if u = t then v else m u

inductive Disk where
  | missing | corrupt | valid (m : Map)

/-- one task of the run order, with everything the environment decides about it for this invocation -/
structure TaskIn where
  name : Name
  inp : Inputs
  /-- `false`: `hash.Hash` returns an error (a literal dependency does not exist) -/
  readable : Bool
  /-- outcome oracle of the task's commands -/
  ok : Bool

inductive Out where
  | skipped | ranOk | ranFail
deriving DecidableEq, Repr

inductive Pc where
  | boot | initializing | initWriting | decide
  | invalidating (old : Option Digest) | invalidated (old : Option Digest)
  | executed (old : Option Digest) | committing
  | finished | cacheError | hashError

structure St where
  force : Bool
  todo : List TaskIn
  pc : Pc
  mem : Map
  disk : Disk
  last : Name → Option Items
  /-- what has happened so far, in order: a skip is logged when decided, a run when `Task.Run` returns -/
  out : List (Name × Out)

def res (t : TaskIn) : Out := if t.ok then .ranOk else .ranFail

/-- the skip test of `run`: `!force && hasFiles && cachedDigest != "" && currentDigest == cachedDigest` -/
def skipTest (digest : Items → Digest) (s : St) (t : TaskIn) : Bool :=
  !s.force && decide (t.inp.n > 0) && s.mem t.name == some (digest t.inp.items)

/-- the digest written back after `Task.Run` -/
def recorded (digest : Items → Digest) (t : TaskIn) (old : Option Digest) : Option Digest :=
  if t.ok then (if t.inp.n > 0 then some (digest t.inp.items) else none) else old

def step (digest : Items → Digest) (s : St) : St :=
  match s.pc with
  | .boot =>
    match s.disk with
    | .missing => { s with pc := .initializing }
    | .corrupt => { s with pc := .cacheError }
    | .valid m => { s with pc := .decide, mem := m }
  | .initializing => { s with pc := .initWriting, disk := .corrupt }
  | .initWriting => { s with pc := .decide, mem := fun _ => none, disk := .valid fun _ => none }
  | .decide =>
    match s.todo with
    | [] => { s with pc := .finished }
    | t :: rest =>
      if t.readable = false then { s with pc := .hashError }
      else if skipTest digest s t then
        { s with todo := rest, out := s.out ++ [(t.name, .skipped)] }
      else if (s.mem t.name).isSome then
        { s with pc := .invalidating (s.mem t.name), mem := upd s.mem t.name none, disk := .corrupt }
      else { s with pc := .invalidated none }
  | .invalidating old => { s with pc := .invalidated old, disk := .valid s.mem }
  | .invalidated old =>
    match s.todo with
    | [] => { s with pc := .finished }
    | t :: _ =>
      { s with pc := .executed old, out := s.out ++ [(t.name, res t)],
               last := if t.ok then upd s.last t.name (some t.inp.items) else s.last }
  | .executed old =>
    match s.todo with
    | [] => { s with pc := .finished }
    | t :: rest =>
      if (recorded digest t old).isSome then
        { s with pc := .committing, mem := upd s.mem t.name (recorded digest t old), disk := .corrupt }
      else { s with pc := .decide, todo := rest }
  | .committing =>
    match s.todo with
    | [] => { s with pc := .finished, disk := .valid s.mem }
    | _ :: rest => { s with pc := .decide, todo := rest, disk := .valid s.mem }
  | .finished => s
  | .cacheError => s
  | .hashError => s

def iter (digest : Items → Digest) : Nat → St → St
  | 0, s => s
  | k + 1, s => iter digest k (step digest s)

def Pc.terminal : Pc → Bool
  | .finished | .cacheError | .hashError => true
  | _ => false

/-! ## History layer -/

/-- what persists between invocations: the cache file, the ghost, and the current inputs of every task
    (`none`: the hasher would fail) -/
structure World where
  disk : Disk
  last : Name → Option Items
  inp : Name → Option Inputs

def World.init : World := ⟨.missing, fun _ => none, fun _ => some ⟨0, []⟩⟩

inductive Event where
  /-- files were created / edited / reverted / deleted: the new inputs of every task -/
  | edit (inp : Name → Option Inputs)
  /-- `.spok` was removed -/
  | removeCache
  /-- `spok [--force] tasks…`; `order` is the run order, `fails` the outcome oracle of the commands,
      `crashAt = some k`: the process is killed after `k` micro-steps -/
  | invoke (force : Bool) (order : List Name) (fails : Name → Bool) (crashAt : Option Nat)

abbrev History := List Event

def mkTask (inp : Name → Option Inputs) (fails : Name → Bool) (t : Name) : TaskIn :=
  match inp t with
  | some i => ⟨t, i, true, !fails t⟩
  | none => ⟨t, ⟨0, []⟩, false, !fails t⟩

def initSt (w : World) (force : Bool) (order : List Name) (fails : Name → Bool) : St :=
  { force := force, todo := order.map (mkTask w.inp fails), pc := .boot, mem := fun _ => none,
    disk := w.disk, last := w.last, out := [] }

/-- enough micro-steps for any invocation over `n` tasks to reach a terminal pc (`Props/C10`: `run_terminates`) -/
def fuel (n : Nat) : Nat := 5 * n + 9

def runInv (digest : Items → Digest) (w : World) (force : Bool) (order : List Name) (fails : Name → Bool)
    (crashAt : Option Nat) : St :=
  iter digest (crashAt.getD (fuel order.length)) (initSt w force order fails)

inductive Outcome where
  | done          -- results returned
  | cacheError    -- "Could not load spok cache file": explicit error, nothing executed
  | otherError    -- the hasher's error
  | crashed       -- killed
  | stuck         -- would not terminate within the fuel (proved impossible)
  | panic | bad   -- implementation only: a Go panic / a report that contradicts the Runner calls
deriving DecidableEq, Repr

inductive DiskClass where
  | missing | corrupt | valid
deriving DecidableEq, Repr

def Disk.cls : Disk → DiskClass
  | .missing => .missing | .corrupt => .corrupt | .valid _ => .valid

def isRun : Name × Out → Bool
  | (_, .skipped) => false
  | _ => true

/-- one observed event: what a bystander sees of the history (no cache contents beyond its class, no ghost) -/
inductive OEvent where
  | edit (inp : Name → Option Inputs)
  | removeCache
  /-- `trace`: when `outcome = done` the reported results in order (skip flags, and whether the commands completed
      successfully); otherwise only the Runner calls that returned. `sel` = the tasks selected for the run. -/
  | invoke (force : Bool) (sel : List Name) (trace : List (Name × Out)) (outcome : Outcome) (diskAfter : DiskClass)

abbrev ObservedHistory := List OEvent

def outcomeOf (crashAt : Option Nat) (s : St) : Outcome :=
  match s.pc with
  | .finished => .done
  | .cacheError => .cacheError
  | .hashError => .otherError
  | _ => if crashAt.isSome then .crashed else .stuck

def traceOf (s : St) : List (Name × Out) :=
  match s.pc with
  | .finished => s.out
  | _ => s.out.filter isRun

def runEvent (digest : Items → Digest) (w : World) : Event → World × OEvent
  | .edit f => ({ w with inp := f }, .edit f)
  | .removeCache => ({ w with disk := .missing, last := fun _ => none }, .removeCache)
  | .invoke force order fails crashAt =>
    let s := runInv digest w force order fails crashAt
    ({ w with disk := s.disk, last := s.last }, .invoke force order (traceOf s) (outcomeOf crashAt s) s.disk.cls)

def runHistory (digest : Items → Digest) : World → History → World × ObservedHistory
  | w, [] => (w, [])
  | w, e :: es =>
    let r := runEvent digest w e
    let r' := runHistory digest r.1 es
    (r'.1, r.2 :: r'.2)

def Event.crashFree : Event → Bool
  | .invoke _ _ _ (some _) => false
  | _ => true

def crashFree (h : History) : Bool := h.all Event.crashFree

/-- every machine state met in any history: the start of an invocation after some history, and every micro-step on.
    `cf = true`: the invocations *before* this one were crash-free. -/
inductive Reach (digest : Items → Digest) (cf : Bool) : St → Prop where
  | start (h : History) (hcf : cf = true → crashFree h = true) (force : Bool) (order : List Name) (fails : Name → Bool) :
      Reach digest cf (initSt (runHistory digest World.init h).1 force order fails)
  | step {s : St} : Reach digest cf s → Reach digest cf (step digest s)

/-- the digest the oracle and the non-vacuity examples instantiate `digest` with: a positional code of the item list
    (path ids < 31, content ids < 7; the harness computes the same number for the real SHA-256 digests it meets) -/
def natDigest (l : Items) : Digest := l.foldl (fun a p => a * 256 + (p.1 * 8 + p.2 + 1)) 0

end Spok.Run
