/-! # Engine **graph** — executable model of how spok selects and orders the tasks of one run (property C03)

Code under test: `file.New` (duplicate task check), `SpokFile.buildGraph`, `SpokFile.Run` / `run` in `/repo/file/file.go`
and the third-party `github.com/FollowTheProcess/collections/dag` (`AddVertex`, `AddEdge`, `Sort` = Kahn's algorithm over
Go maps / sets, FIFO queue).

Core Lean only.  Everything is generic in the type `α` of task names (`String` in the oracle executable).

* a spokfile is a `Table α`: the task definitions `(name, task dependencies in source order)` in spokfile order;
* `load`     = the loop of `file.New` over the task nodes (`HasTask` ⇒ "Duplicate task" error);
* `closure`  = `buildGraph`: the recursive closure `visit(name, parent)` written as its own call stack
               (`Frame.visit` = a pending call, `Frame.edge` = the `graph.AddEdge(dep, name)` that follows the call);
* `sort o`   = `dag.Graph.Sort`: the two places where Go ranges over a map (`g.vertices`, `vert.children.Items()`) take
               their iteration order from the oracle `o`; theorems quantify over every oracle;
* `plan o`   = `load`, `closure`, `sort`, then the `len(runOrder) != dag.Order()` test of `Run`;
* `runLoop`  = the `for _, taskToRun := range runOrder` loop of `run` as far as C03 sees it (forced run, one command per
               task): one Runner call and one result per planned task, **no exit from the loop when a command fails**.
-/
namespace Spok.Graph

variable {α : Type} [DecidableEq α]

/-- task definitions in spokfile order: name and declared task dependencies (in source order) -/
abbrev Table (α : Type) := List (α × List α)

def names (ts : Table α) : List α := ts.map Prod.fst

/-- `s.Tasks[name]` (first definition; `load` rejects tables in which that matters) -/
def lookup : Table α → α → Option (List α)
  | [], _ => none
  | (m, ds) :: ts, n => if m = n then some ds else lookup ts n

/-- `TaskDependencies` of a task (`[]` for an undefined name) -/
def deps (ts : Table α) (n : α) : List α := (lookup ts n).getD []

/-- error classes (message wording is never compared) -/
inductive Err
  | duplicate         -- file.New: "Duplicate task: spokfile already contains task named …"
  | noSuchTask        -- buildGraph: "Spokfile has no task …"
  | noSuchDependency  -- buildGraph: "Task … declares a dependency on task …, which does not exist"
  | cycle             -- dag.Sort / Run: "graph contains a cycle and cannot be sorted"
  | other             -- "could not add edge …" (AddEdge on a missing vertex): proved unreachable
  deriving DecidableEq, Repr

inductive Outcome (β : Type)
  | ok (v : β)
  | error (e : Err)
  | spin            -- the `for !queue.Empty()` loop of dag.Sort would still be running after |V| pops: proved unreachable
  deriving DecidableEq, Repr

/-! ## file.New -/

/-- the task part of the loop in `file.New`: `acc` is `file.Tasks` so far -/
def loadFrom (acc : Table α) : Table α → Except Err (Table α)
  | [] => .ok acc
  | (n, ds) :: rest =>
    if (lookup acc n).isSome then .error .duplicate     -- file.HasTask(task.Name)
    else loadFrom (acc ++ [(n, ds)]) rest

def load (ts : Table α) : Except Err (Table α) := loadFrom [] ts

/-! ## buildGraph -/

/-- `dag.Graph`: `verts` = keys of `vertices` (insertion order is *not* observable in Go, only through the oracle),
    `edges` = pairs `(parent, child)` with `child ∈ parent.children`, `parent ∈ child.parents` (sets), `size` = `g.edges`
    (`AddEdge` counts every call, also a repeated edge) -/
structure Graph (α : Type) where
  verts : List α
  edges : List (α × α)
  size  : Nat
  deriving Repr

def Graph.empty : Graph α := ⟨[], [], 0⟩

/-- `graph.AddVertex(name, current)` when `ContainsVertex(name)` was false just before (its error branch is dead code there) -/
def Graph.addVertex (g : Graph α) (n : α) : Graph α := { g with verts := g.verts ++ [n] }

/-- the successful part of `AddEdge(from, to)`: two set inserts and `g.edges++` -/
def Graph.insEdge (g : Graph α) (p c : α) : Graph α :=
  { g with edges := if (p, c) ∈ g.edges then g.edges else g.edges ++ [(p, c)], size := g.size + 1 }

/-- a frame of `visit`'s call stack -/
inductive Frame (α : Type)
  | visit (name : α) (parent : Option α)   -- a call `visit(name, parent)` (`parent = none` is Go's `""`: a requested task)
  | edge (dep name : α)                     -- `graph.AddEdge(dep, name)` after `visit(dep, name)` returned nil
  deriving DecidableEq, Repr

/-- what `visit(name, …)` pushes for `for _, dep := range current.TaskDependencies` -/
def frames (n : α) (ds : List α) : List (Frame α) :=
  ds.flatMap fun d => [Frame.visit d (some n), Frame.edge d n]

/-- number of defined names that are not yet vertices (termination measure of the closure) -/
def fresh (ts : Table α) (g : Graph α) : Nat := ((names ts).filter (fun n => n ∉ g.verts)).length

omit [DecidableEq α] in
theorem filter_length_le {p q : α → Bool} (hpq : ∀ x, q x = true → p x = true) (l : List α) :
    (l.filter q).length ≤ (l.filter p).length := by
  induction l with
  | nil => simp
  | cons x xs ih =>
    simp only [List.filter_cons]
    cases hq : q x <;> cases hp : p x
    · simpa using ih
    · simp only [Bool.false_eq_true, if_false, if_true, List.length_cons]; omega
    · rw [hpq x hq] at hp; cases hp
    · simp only [if_true, List.length_cons]; omega

omit [DecidableEq α] in
theorem filter_length_lt {p q : α → Bool} (hpq : ∀ x, q x = true → p x = true) {l : List α} {n : α}
    (hn : n ∈ l) (hp : p n = true) (hq : q n = false) : (l.filter q).length < (l.filter p).length := by
  induction l with
  | nil => cases hn
  | cons x xs ih =>
    simp only [List.filter_cons]
    rcases List.mem_cons.mp hn with h1 | h1
    · subst h1
      have := filter_length_le hpq xs
      simp only [hp, hq, Bool.false_eq_true, if_false, if_true, List.length_cons]; omega
    · have := ih h1
      cases hq' : q x <;> cases hp' : p x
      · simpa using this
      · simp only [Bool.false_eq_true, if_false, if_true, List.length_cons]; omega
      · rw [hpq x hq'] at hp'; cases hp'
      · simp only [if_true, List.length_cons]; omega

theorem mem_names_of_lookup {ts : Table α} {n : α} {ds : List α} (h : lookup ts n = some ds) : n ∈ names ts := by
  induction ts with
  | nil => simp [lookup] at h
  | cons t ts ih =>
    obtain ⟨m, ds'⟩ := t
    by_cases hm : m = n
    · simp [names, hm]
    · simp only [lookup, hm, if_false] at h
      simp only [names, List.map_cons, List.mem_cons]
      exact Or.inr (ih h)

theorem fresh_lt {ts : Table α} {g : Graph α} {n : α} {ds : List α}
    (h : lookup ts n = some ds) (hn : n ∉ g.verts) : fresh ts (g.addVertex n) < fresh ts g := by
  unfold fresh Graph.addVertex
  refine filter_length_lt (n := n) ?_ (mem_names_of_lookup h) (by simpa using hn) (by simp)
  intro x hx
  simp only [decide_eq_true_eq] at hx ⊢
  intro hm; exact hx (List.mem_append_left _ hm)

/-- `buildGraph` after the `for _, name := range requested` loop has been unrolled onto the stack -/
def closureLoop (ts : Table α) : Graph α → List (Frame α) → Except Err (Graph α)
  | g, [] => .ok g
  | g, .edge d n :: st =>
    if d ∈ g.verts ∧ n ∈ g.verts then closureLoop ts (g.insEdge d n) st
    else .error .other                                    -- "could not add edge"
  | g, .visit n p :: st =>
    match h : lookup ts n with
    | none => .error (if p.isNone then .noSuchTask else .noSuchDependency)
    | some ds =>
      if hv : n ∈ g.verts then closureLoop ts g st        -- already expanded
      else
        have := fresh_lt h hv
        closureLoop ts (g.addVertex n) (frames n ds ++ st)
termination_by g st => (fresh ts g, st.length)
decreasing_by
  · simp only [Graph.insEdge, fresh]
    exact Prod.Lex.right _ (by simp)
  · exact Prod.Lex.right _ (by simp)
  · exact Prod.Lex.left _ _ this

def closure (ts : Table α) (req : List α) : Except Err (Graph α) :=
  closureLoop ts Graph.empty (req.map fun r => Frame.visit r none)

/-! ## dag.Graph.Sort -/

/-- the order in which Go happens to iterate a map or set: a hint for `range g.vertices` and one for
    `range vert.children.Items()` at each pop.  *Every* value of this type is an admissible oracle (see `reorder`). -/
structure Oracle (α : Type) where
  init : List α
  kids : Nat → List α

/-- iterate the collection `l` in the order suggested by `hint`: always a permutation of `l`
    (`reorder_perm`), and every permutation `p` of `l` is `reorder p l` (`reorder_self`) -/
def reorder : List α → List α → List α
  | [], l => l
  | x :: h, l => if x ∈ l then x :: reorder h (l.erase x) else reorder h l

/-- `vertex.inDegree()` = `parents.Size()`, `par` being all remaining (parent, child) pairs -/
def inDegree (par : List (α × α)) (c : α) : Nat := (par.filter fun e => e.2 = c).length

/-- the members of `vert.children` -/
def children (E : List (α × α)) (v : α) : List α := (E.filter fun e => e.1 = v).map Prod.snd

/-- body of `for child := range vert.children.Items()`; state = (parents relation, queue) -/
def relax (v : α) : List α → List (α × α) × List α → List (α × α) × List α
  | [], s => s
  | c :: cs, (par, q) =>
    let par' := par.filter fun e => ¬ (e.1 = v ∧ e.2 = c)          -- child.parents.Remove(vert)
    relax v cs (par', if inDegree par' c = 0 then q ++ [c] else q)  -- zeroInDegreeQueue.Push(child)

/-- `for !zeroInDegreeQueue.Empty() { … }` with explicit fuel; `none` = fuel exhausted with a non-empty queue -/
def kahnLoop (o : Oracle α) (E : List (α × α)) : Nat → List α → List α → List (α × α) → Option (List α)
  | _, [], acc, _ => some acc
  | 0, _ :: _, _, _ => none
  | fuel + 1, v :: q, acc, par =>
    let s := relax v (reorder (o.kids acc.length) (children E v)) (par, q)
    kahnLoop o E fuel s.2 (acc ++ [v]) s.1

/-- the initial queue: every vertex with in-degree 0, in map-iteration order -/
def initQueue (o : Oracle α) (g : Graph α) : List α :=
  (reorder o.init g.verts).filter fun v => inDegree g.edges v = 0

def sort (o : Oracle α) (g : Graph α) : Outcome (List α) :=
  let q0 := initQueue o g
  if q0 = [] then .error .cycle                 -- "graph contains a cycle and cannot be sorted" (also for the empty graph)
  else match kahnLoop o g.edges g.verts.length q0 [] g.edges with
    | some r => .ok r
    | none => .spin

/-! ## Run -/

/-- run order of `Run(…, tasks...)`, or the error it returns before anything is executed -/
def plan (o : Oracle α) (ts : Table α) (req : List α) : Outcome (List α) :=
  match load ts with
  | .error e => .error e
  | .ok tasks =>
    match closure tasks req with
    | .error e => .error e
    | .ok g =>
      match sort o g with
      | .ok order => if order.length ≠ g.verts.length then .error .cycle else .ok order   -- len(runOrder) != dag.Order()
      | .error e => .error e
      | .spin => .spin

/-- the loop of `run` on a forced run of tasks with one command and no file dependencies: each planned task gets one
    Runner call, its result is appended whatever the exit status, and the loop goes on.  `res` = `results` so far -/
def runLoop (fails : α → Bool) : List α → List (α × Bool) → List (α × Bool)
  | [], res => res
  | t :: rest, res => runLoop fails rest (res ++ [(t, !fails t)])

/-- what an observer of one `Run` sees: error class (`none` = nil error) and the Runner calls in order -/
structure Obs (α : Type) where
  err : Option Err
  calls : List α
  deriving DecidableEq, Repr

def exec (o : Oracle α) (ts : Table α) (req : List α) (fails : α → Bool) : Outcome (Obs α) :=
  match plan o ts req with
  | .ok order => .ok ⟨none, (runLoop fails order []).map Prod.fst⟩
  | .error e => .ok ⟨some e, []⟩
  | .spin => .spin

/-! ## Specification vocabulary (used by the judge's correctness theorem and by `Props/C03.lean`) -/

/-- `n` is requested or reachable from a requested task through declared task dependencies -/
inductive Reach (ts : Table α) (req : List α) : α → Prop
  | req {n : α} : n ∈ req → Reach ts req n
  | dep {m d : α} : Reach ts req m → d ∈ deps ts m → Reach ts req d

/-- `DependsOn ts a b`: task `b` declares task `a` as a dependency (`a` must run before `b`) -/
def DependsOn (ts : Table α) (a b : α) : Prop := a ∈ deps ts b

/-- the dependencies of the selected tasks contain a cycle -/
def Cyclic (ts : Table α) (req : List α) : Prop :=
  ∃ n, Reach ts req n ∧ Relation.TransGen (DependsOn ts) n n

def Undefined (ts : Table α) (n : α) : Prop := lookup ts n = none

/-- the three erroneous configurations of C03 -/
def Erroneous (ts : Table α) (req : List α) : Prop :=
  ¬ (names ts).Nodup ∨ (∃ n, Reach ts req n ∧ Undefined ts n) ∨ Cyclic ts req

/-- `a` comes before `b` in `l` (used for `b ∈ l`; then it also says `a ∈ l`) -/
def Before (l : List α) (a b : α) : Prop := l.idxOf a < l.idxOf b

end Spok.Graph
