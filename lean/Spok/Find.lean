import Spok.Generated.Facts
/-! # Model of `file.Find` (file/file.go) — spokfile discovery, property C17

Directories are absolute, clean paths given as their list of components from the file-system root
(`[]` is `/`).  A file system is what `os.ReadDir` answers for every directory: a list of entries
`(name, isDir)`; for a directory chain `/n₁/n₂/…/nₖ` the value of `fs` on the prefixes of the chain
is the "list of levels from the root".  An entry is, for `Find`, one of three kinds
(`Entry.kind`): some other name, a regular `spokfile`, a directory called `spokfile`.

`findUp` transliterates the loop of `Find` as it is in /repo now:

```go
for {
    if isAbove(start, stop) { return "", errors.New("No spokfile found") }
    entries, err := os.ReadDir(start)                       // readable levels only: see `Limits`
    for _, e := range entries { if !e.IsDir() && e.Name() == NAME { return abs(start/NAME), nil } }
    parent := filepath.Dir(start)
    if start == stop || parent == start { return "", errors.New("No spokfile found") }
    start = parent
}
```

The Go loop has no variant of its own; the model recurses **structurally** on the (reversed) component
list of `start` — `filepath.Dir` drops the last component, and at the root `parent == start` ends the
walk — so the model's totality *is* the termination argument, and the correspondence run (every call
under a watchdog) checks that the Go loop takes the same exits.

Limits (modelled, not verified): `os.ReadDir` / `filepath.Rel` / `filepath.Dir` on clean absolute
paths; unreadable or symlinked levels are not modelled (a `ReadDir` error ends the real walk with an
error, the model has no such outcome). -/
namespace Spok.Find

/-- an absolute clean directory path: its components from the root, `[]` = `/` -/
abbrev Dir := List String

structure Entry where
  name : String
  isDir : Bool
deriving DecidableEq, Repr

/-- what `os.ReadDir` lists for each directory -/
abbrev FS := Dir → List Entry

/-- `file.NAME`, regenerated from the source on every run -/
def NAME : String := Spok.Generated.Facts.spokfileName

inductive Kind where
  | other | spokRegular | spokDir
deriving DecidableEq, Repr

def Entry.kind (e : Entry) : Kind :=
  if e.name == NAME then (if e.isDir then .spokDir else .spokRegular) else .other

/-- the test inside the entry loop: `!e.IsDir() && e.Name() == NAME` -/
def isSpok (e : Entry) : Bool := !e.isDir && e.name == NAME

/-- the entry loop of `Find`: scans *all* entries of the listing -/
def hasSpokfile (es : List Entry) : Bool := es.any isSpok

/-- `isAbove(dir, other)`: `dir` is a strict ancestor of `other`
    (`filepath.Rel(dir, other)` is neither `.` nor starts with `..`) -/
def isAbove (dir other : Dir) : Bool := dir.isPrefixOf other && dir.length < other.length

inductive Result where
  | found (dir : Dir)      -- `dir/spokfile`
  | notFound
deriving DecidableEq, Repr

/-- the loop of `Find`, on the reversed component list of `start` (so that "go to the parent" is `tail`) -/
def findUp (fs : FS) (stop : Dir) : List String → Result
  | [] =>
    if isAbove [] stop then .notFound
    else if hasSpokfile (fs []) then .found []
    else .notFound                                   -- `parent == start`: the file-system root
  | c :: up =>
    let start := (c :: up).reverse
    if isAbove start stop then .notFound             -- never look above `stop`
    else if hasSpokfile (fs start) then .found start
    else if start == stop then .notFound             -- nothing at or below `stop` had one
    else findUp fs stop up

def find (fs : FS) (start stop : Dir) : Result := findUp fs stop start.reverse

/-- the directories at or above `start`, nearest first (given the reversed components of `start`) -/
def upsRev : List String → List Dir
  | [] => [[]]
  | c :: up => (c :: up).reverse :: upsRev up

/-- the directories at or above `start`, nearest first: `start`, its parent, …, `/` -/
def ancestors (start : Dir) : List Dir := upsRev start.reverse

/-- a candidate: not a strict ancestor of `stop`, and holding a regular file called `spokfile` -/
def candidate (fs : FS) (stop : Dir) (d : Dir) : Bool := !isAbove d stop && hasSpokfile (fs d)

/-- the specification: the nearest candidate directory, else none found -/
def spec (fs : FS) (start stop : Dir) : Result :=
  match (ancestors start).find? (candidate fs stop) with
  | some d => .found d
  | none => .notFound

/-! ## a RELATIVE start path

`Find` takes any path.  With a relative `start` (components `rel` below the working directory `cwd`) and an absolute
`stop`, `filepath.Rel(start, stop)` is an error, so `isAbove` is false, and `start == stop` never holds; the climb
`filepath.Dir("d/d") = "d"`, `Dir("d") = "."`, `Dir(".") = "."` ends at the working directory. -/

/-- the loop, on the reversed components of the relative start -/
def findRelUp (fs : FS) (cwd : Dir) : List String → Result
  | [] => if hasSpokfile (fs cwd) then .found cwd else .notFound          -- `.`: its own parent
  | c :: up =>
    let d := cwd ++ (c :: up).reverse
    if hasSpokfile (fs d) then .found d else findRelUp fs cwd up

def findRel (fs : FS) (cwd : Dir) (rel : List String) : Result := findRelUp fs cwd rel.reverse

/-- the directories from `cwd/rel` up to `cwd`, nearest first -/
def relUps (cwd : Dir) : List String → List Dir
  | [] => [cwd]
  | c :: up => (cwd ++ (c :: up).reverse) :: relUps cwd up

/-- the specification for a relative start: the nearest directory between start and the working directory (both
    included) that holds a regular file called `spokfile` -/
def relSpec (fs : FS) (cwd : Dir) (rel : List String) : Result :=
  match (relUps cwd rel.reverse).find? (fun d => hasSpokfile (fs d)) with
  | some d => .found d
  | none => .notFound

end Spok.Find
