import Spok.Syntax.Printer
/-! # Line-protocol encoding shared by the oracle driver and the judges (not part of any proof) -/
namespace Spok.Wire

def hexDigit (n : Nat) : Char := if n < 10 then Char.ofNat (48 + n) else Char.ofNat (87 + n)
def hexBytes (bs : List UInt8) : String :=
  if bs.isEmpty then "-" else String.ofList (bs.flatMap fun b => [hexDigit (b.toNat / 16), hexDigit (b.toNat % 16)])
def hexRunes (rs : List Rune) : String := hexBytes (flat rs)

def unhexDigit (c : Char) : Option Nat :=
  if '0' ≤ c ∧ c ≤ '9' then some (c.toNat - 48)
  else if 'a' ≤ c ∧ c ≤ 'f' then some (c.toNat - 87)
  else none

def unhexList : List Char → Option (List UInt8)
  | [] => some []
  | a :: b :: rest => do
    let x ← unhexDigit a; let y ← unhexDigit b; let r ← unhexList rest
    pure (UInt8.ofNat (x * 16 + y) :: r)
  | _ => none

def unhex (s : String) : Option (List UInt8) := if s == "-" then some [] else unhexList s.toList

def ttCode : TT → String
  | .eof => "EOF" | .error => "ERR" | .comment => "COMMENT" | .hash => "HASH" | .lparen => "LPAREN" | .rparen => "RPAREN"
  | .lbrace => "LBRACE" | .rbrace => "RBRACE" | .quote => "QUOTE" | .comma => "COMMA" | .task => "TASK" | .string => "STRING"
  | .command => "COMMAND" | .output => "OUTPUT" | .ident => "IDENT" | .declare => "DECLARE" | .linterp => "LINTERP" | .rinterp => "RINTERP"

def ttOfCode (s : String) : Option TT := TT.all.find? (fun t => ttCode t == s)

/-- `TY:valhex:pos:line`, error tokens `ERR:-:pos:line:cited` -/
def tokStr (t : Tok) : String :=
  if t.ty == .error then s!"ERR:-:{t.pos}:{t.line}:{t.errLine}"
  else s!"{ttCode t.ty}:{hexRunes t.val}:{t.pos}:{t.line}"

/-- tokens up to and including the first EOF or ERROR -/
def cutToks : List Tok → List Tok
  | [] => []
  | t :: ts => if t.ty == .eof || t.ty == .error then [t] else t :: cutToks ts

def toksStr (ts : List Tok) : String := " ".intercalate ((cutToks ts).map tokStr)

def parseTok (s : String) : Option Tok :=
  match s.splitOn ":" with
  | [ty, v, p, l] => do
    let ty ← ttOfCode ty; let v ← unhex v; let p ← p.toNat?; let l ← l.toNat?
    pure ⟨ty, decodeAll v, p, l, 0⟩
  | ["ERR", _, p, l, c] => do
    let p ← p.toNat?; let l ← l.toNat?; let c ← c.toNat?
    pure ⟨.error, [], p, l, c⟩
  | _ => none

def parseToks (s : String) : Option (List Tok) :=
  ((s.splitOn " ").filter (· ≠ "")).mapM parseTok

/-! trees as flat word streams -/
def argWords : Arg → List String
  | .str s => ["S", hexRunes s]
  | .ident n => ["I", hexRunes n]

def nodeWords : Node → List String
  | .comment t => ["C", hexRunes t]
  | .assign n (.str s) => ["A", hexRunes n, "S", hexRunes s]
  | .assign n (.ident i) => ["A", hexRunes n, "I", hexRunes i]
  | .assign n (.call f args) => ["A", hexRunes n, "F", hexRunes f, toString args.length] ++ args.flatMap argWords
  | .task name doc deps outs cmds =>
    ["T", hexRunes name, hexRunes doc, toString deps.length] ++ deps.flatMap argWords ++
    [toString outs.length] ++ outs.flatMap argWords ++ [toString cmds.length] ++ cmds.map hexRunes

def treeStr (t : Tree) : String := " ".intercalate ([toString t.length] ++ t.flatMap nodeWords)

def rd (s : String) : Option (List Rune) := (unhex s).map decodeAll

def readArgs : Nat → List String → Option (List Arg × List String)
  | 0, ws => some ([], ws)
  | n + 1, "S" :: h :: ws => do let s ← rd h; let (r, ws) ← readArgs n ws; pure (.str s :: r, ws)
  | n + 1, "I" :: h :: ws => do let s ← rd h; let (r, ws) ← readArgs n ws; pure (.ident s :: r, ws)
  | _, _ => none

def readCmds : Nat → List String → Option (List (List Rune) × List String)
  | 0, ws => some ([], ws)
  | n + 1, h :: ws => do let s ← rd h; let (r, ws) ← readCmds n ws; pure (s :: r, ws)
  | _, _ => none

def readNode : List String → Option (Node × List String)
  | "C" :: h :: ws => do let t ← rd h; pure (.comment t, ws)
  | "A" :: n :: "S" :: h :: ws => do let n ← rd n; let s ← rd h; pure (.assign n (.str s), ws)
  | "A" :: n :: "I" :: h :: ws => do let n ← rd n; let s ← rd h; pure (.assign n (.ident s), ws)
  | "A" :: n :: "F" :: f :: k :: ws => do
    let n ← rd n; let f ← rd f; let k ← k.toNat?; let (args, ws) ← readArgs k ws
    pure (.assign n (.call f args), ws)
  | "T" :: n :: d :: k :: ws => do
    let n ← rd n; let d ← rd d; let k ← k.toNat?; let (deps, ws) ← readArgs k ws
    match ws with
    | k2 :: ws => do
      let k2 ← k2.toNat?; let (outs, ws) ← readArgs k2 ws
      match ws with
      | k3 :: ws => do
        let k3 ← k3.toNat?; let (cmds, ws) ← readCmds k3 ws
        pure (.task n d deps outs cmds, ws)
      | [] => none
    | [] => none
  | _ => none

def readNodes : Nat → List String → Option (List Node)
  | 0, [] => some []
  | 0, _ => none
  | n + 1, ws => do let (x, ws) ← readNode ws; let r ← readNodes n ws; pure (x :: r)

def parseTree (s : String) : Option Tree :=
  match (s.splitOn " ").filter (· ≠ "") with
  | k :: ws => do let k ← k.toNat?; readNodes k ws
  | [] => none

end Spok.Wire
