import Spok.Syntax.Token
set_option linter.unusedVariables false
/-! # The spok lexer as a zipper machine with Go's counter arithmetic

A transliteration of `lexer/lexer.go`.  `L` is the scanner state: the decoded input as a zipper
(`left` reversed, `right`), the runes of the token being built (`tokRev`, reversed) and the
counters `pos start line startLine width` updated *with the arithmetic of the Go code*
(`line++` in `next`, `line--` in `backup`, `pos -= width`, `pos--`), because property C16 is about
that arithmetic.  Each Go state function `lexXxx` is a function `L → L × Tag`; `run` iterates them
until the tag is `.done` — which is where the Go `run` loop closes the channel — reading the token
stream only up to its first ERROR token (the parser never reads beyond it).

Deviations from a literal transliteration, all behaviour-preserving on reachable states:
* `lexStart` performs the first iteration of `lexIdent`'s scanning loop itself (the rune it has
  just peeked and found to be an identifier rune), so that every cycle of states consumes input;
* the `absorb`-based state functions go to `.done` without a token when there is nothing to absorb
  (unreachable: each is entered only after its token has been seen);
* `lexTaskCommands` carries a fuel argument, initialised with the remaining input length plus
  one; running out of it is the explicit outcome `.spin` (proved unreachable in `Props/C08`). -/
namespace Spok

notation "NL" => (10 : Nat)
notation "CR" => (13 : Nat)
notation "TAB" => (9 : Nat)
notation "SP" => (32 : Nat)
notation "QUOTE" => (34 : Nat)
notation "HASH" => (35 : Nat)
notation "LPAREN" => (40 : Nat)
notation "RPAREN" => (41 : Nat)
notation "COMMA" => (44 : Nat)
notation "MINUS" => (45 : Nat)
notation "COLON" => (58 : Nat)
notation "EQUALS" => (61 : Nat)
notation "GT" => (62 : Nat)
notation "UNDERSCORE" => (95 : Nat)
notation "LBRACE" => (123 : Nat)
notation "RBRACE" => (125 : Nat)

structure L where
  left : List Rune
  right : List Rune
  tokRev : List Rune
  pos : Nat
  start : Nat
  line : Nat
  startLine : Nat
  width : Nat
  toks : Array Tok
deriving Repr

inductive Tag where
  | start | hash | comment | taskKeyword | leftParen | rightParen | outputOp | leftBrace | rightBrace
  | taskBody | taskCommands | taskName | ident | args | comma | declare | string | declString
  | done
  | spin     -- the Go code would loop for ever here (never reached: `Props/C08`)
deriving DecidableEq, Repr, Inhabited

def L.init (rs : List Rune) : L := ⟨[], rs, [], 0, 0, 1, 1, 0, #[]⟩

def L.next (l : L) : L × Rune :=
  match l.right with
  | [] => ({ l with width := 0 }, eofRune)
  | r :: rs =>
    ({ l with left := r :: l.left, right := rs, tokRev := r :: l.tokRev, pos := l.pos + r.w, width := r.w,
              line := if r.cp == NL then l.line + 1 else l.line }, r)

/-- `pos -= width; if width == 1 && current() == '\n' { line-- }`.  With `width = 0` (after a read at
    end of input) nothing moves. -/
def L.backup (l : L) : L :=
  if l.width == 0 then l else
  match l.left, l.tokRev with
  | r :: ls, _ :: ts =>
    let ln := if l.width == 1 && r.cp == NL then l.line - 1 else l.line
    { l with left := ls, right := r :: l.right, tokRev := ts, pos := l.pos - l.width, line := ln }
  | r :: ls, [] =>
    let ln := if l.width == 1 && r.cp == NL then l.line - 1 else l.line
    { l with left := ls, right := r :: l.right, pos := l.pos - l.width, line := ln }
  | [], _ => l

def L.peek (l : L) : L × Rune := let (l', r) := l.next; (l'.backup, r)
def L.atEOF (l : L) : Bool := l.right.isEmpty
/-- `strings.HasPrefix(l.rest(), s)` for an ASCII `s` given by its code points -/
def L.hasPrefix (l : L) (s : List Nat) : Bool := (l.right.take s.length).map (·.cp) == s
/-- `atEOL` goes through `peek`, which overwrites `width`, like the Go code -/
def L.atEOL (l : L) : L × Bool :=
  let (l', r) := l.peek
  (l', r.cp == NL || l'.hasPrefix [CR, NL])

/-- `l.pos += len(t.String())` over the spelled token of `n` ASCII runes -/
def L.absorb (l : L) (n : Nat) : L :=
  let taken := l.right.take n
  { l with left := taken.reverse ++ l.left, right := l.right.drop n, tokRev := taken.reverse ++ l.tokRev,
           pos := l.pos + n }

def L.emit (l : L) (ty : TT) : L :=
  { l with toks := l.toks.push ⟨ty, l.tokRev.reverse, l.start, l.startLine, 0⟩,
           start := l.pos, startLine := l.line, tokRev := [] }
def L.discard (l : L) : L := { l with start := l.pos, startLine := l.line, tokRev := [] }
/-- `l.error(syntaxError{… line: l.line …})`: an ERROR token at `start`, citing `l.line` -/
def L.error (l : L) : L × Tag :=
  ({ l with toks := l.toks.push ⟨.error, [], l.start, l.startLine, l.line⟩ }, .done)
/-- the one-byte step back `l.pos--` -/
def L.stepBack (l : L) : L :=
  match l.left, l.tokRev with
  | r :: ls, _ :: ts => { l with left := ls, right := r :: l.right, tokRev := ts, pos := l.pos - 1 }
  | _, _ => l

@[simp] theorem L.next_right_cons {l : L} {r : Rune} {rs : List Rune} (h : l.right = r :: rs) :
    (l.next).1.right = rs := by simp [L.next, h]

@[simp] theorem L.peek_right (l : L) : (l.peek).1.right = l.right := by
  unfold L.peek L.next L.backup
  cases h : l.right with
  | nil => simp
  | cons r rs => simp [Rune.w_ne_zero]

@[simp] theorem L.atEOL_right (l : L) : (l.atEOL).1.right = l.right := by
  simp [L.atEOL]

/-- `strings.HasSuffix(l.all(), c)` for a one-byte `c`: the token is not empty and the rune before the
    cursor is `c` -/
def L.lastIs (l : L) (c : Nat) : Bool :=
  match l.tokRev, l.left with
  | _ :: _, r :: _ => r.cp == c
  | _, _ => false

def skipWs (l : L) : L :=
  match h : l.right with
  | [] => ((l.next).1.backup).discard
  | r :: _ =>
    if isSpace r then skipWs (l.next).1 else ((l.next).1.backup).discard
termination_by l.right.length
decreasing_by simp [L.next, h]

/-- the loop of `lexIdent` / `lexTaskName` -/
def scanIdent (l : L) : L :=
  match h : l.right with
  | [] => (l.next).1.backup
  | r :: _ => if isIdent r then scanIdent (l.next).1 else (l.next).1.backup
termination_by l.right.length
decreasing_by simp [L.next, h]

def lexStart (l : L) : L × Tag :=
  let l := skipWs l
  if l.hasPrefix [HASH] then (l, .hash)
  else if l.hasPrefix [116, 97, 115, 107] then (l, .taskKeyword)
  else
    let (l, r) := l.peek
    if isIdent r then ((l.next).1, .ident)
    else if l.atEOF then (l.emit .eof, .done)
    else l.error

def lexHash (l : L) : L × Tag :=
  if l.atEOF then (l, .done) else ((l.absorb 1).emit .hash, .comment)

def scanComment (l : L) : L :=
  match h : l.right with
  | [] => (l.atEOL).1
  | _ :: _ =>
    if (l.atEOL).2 then (l.atEOL).1 else scanComment ((l.atEOL).1.next).1
termination_by l.right.length
decreasing_by
  have h1 := L.atEOL_right l
  rw [h] at h1
  simp [L.next_right_cons h1, h]

def lexComment (l : L) : L × Tag := ((scanComment l).emit .comment, .start)

def lexTaskKeyword (l : L) : L × Tag :=
  if l.atEOF then (l, .done) else (skipWs ((l.absorb 4).emit .task), .taskName)
def lexLeftParen (l : L) : L × Tag :=
  if l.atEOF then (l, .done) else (skipWs ((l.absorb 1).emit .lparen), .args)

def lexRightParen (l : L) : L × Tag :=
  if l.atEOF then (l, .done) else
  let l := skipWs ((l.absorb 1).emit .rparen)
  let (l, r) := l.peek
  if r.cp == LBRACE then (l, .leftBrace)
  else if l.hasPrefix [MINUS, GT] then (l, .outputOp)
  else
    let (l, eol) := l.atEOL
    if eol || l.atEOF || isIdent r then (l, .start)
    else if r.cp == HASH then (l, .hash)
    else l.error

def lexOutputOp (l : L) : L × Tag :=
  if l.atEOF then (l, .done) else
  let l := skipWs ((l.absorb 2).emit .output)
  let (l, r) := l.next
  if r.cp == QUOTE then (l, .string)
  else if r.cp == LPAREN then (l.backup, .leftParen)
  else if isIdent r then (l, .ident)
  else if r.cp == LBRACE then l.backup.error
  else if isPunct r then l.error
  else l.backup.error

def lexLeftBrace (l : L) : L × Tag :=
  if l.atEOF then (l, .done) else (skipWs ((l.absorb 1).emit .lbrace), .taskBody)
def lexRightBrace (l : L) : L × Tag :=
  if l.atEOF then (l, .done) else ((l.absorb 1).emit .rbrace, .start)

def lexTaskBody (l : L) : L × Tag :=
  if l.atEOF then l.error else
  let l := skipWs l
  let (l, r) := l.next
  if r.cp == RBRACE then (l.backup, .rightBrace)
  else if isLetter r then (l, .taskCommands)
  else l.error

/-- `for strings.HasSuffix(l.all(), "\r") { l.pos-- }` -/
def stripCR (l : L) : L :=
  if h : l.lastIs CR then stripCR l.stepBack else l
termination_by l.tokRev.length
decreasing_by
  unfold L.lastIs at h
  split at h
  · rename_i h1 h2; simp [L.stepBack, h1, h2]
  · cases h

def lexTaskCommandsF : Nat → L → L × Tag
  | 0, l => (l, .spin)
  | fuel + 1, l =>
    let (l, r) := l.next
    if r.cp == NL then
      let l := stripCR l.backup
      lexTaskCommandsF fuel (skipWs (l.emit .command))
    else if l.hasPrefix [LBRACE, LBRACE] then lexTaskCommandsF fuel (l.absorb 2)
    else if l.hasPrefix [RBRACE, RBRACE] then lexTaskCommandsF fuel (l.absorb 2)
    else if r.cp == RBRACE then
      let l := l.backup
      let l := if l.lastIs SP then l.stepBack else l
      let l := stripCR l
      let l := if !l.tokRev.isEmpty then l.emit .command else l
      (skipWs l, .rightBrace)
    else if l.atEOF || r.cp == HASH then l.error
    else if isASCII r then lexTaskCommandsF fuel l
    else l.backup.error

def lexTaskCommands (l : L) : L × Tag := lexTaskCommandsF (l.right.length + 1) l

def lexTaskName (l : L) : L × Tag :=
  let l := skipWs ((scanIdent l).emit .ident)
  let (l, r) := l.peek
  if r.cp != LPAREN then l.error else (l, .leftParen)

def lexIdent (l : L) : L × Tag :=
  let l := skipWs ((scanIdent l).emit .ident)
  let (l, r) := l.peek
  if r.cp == LPAREN then (l, .leftParen)
  else if l.hasPrefix [COLON, EQUALS] then (l, .declare)
  else
    let (l, eol) := l.atEOL
    if eol || l.atEOF then (l, .start)
    else
      let (l, r) := l.peek
      if r.cp == RPAREN then (l, .rightParen)
      else if r.cp == COMMA then (l, .comma)
      else if r.cp == LBRACE then (l, .leftBrace)
      else l.error

def lexArgs (l : L) : L × Tag :=
  let l := skipWs l
  let (l, r) := l.next
  if r.cp == RPAREN then (l.backup, .rightParen)
  else if r.cp == QUOTE then (l, .string)
  else if isIdent r then (l, .ident)
  else if r.cp == COMMA then (l.backup, .comma)
  else if r.cp == LBRACE then (l.backup, .leftBrace)
  else l.error

def lexComma (l : L) : L × Tag :=
  if l.atEOF then (l, .done) else
  let l := skipWs ((l.absorb 1).emit .comma)
  let (l, r) := l.next
  if r.cp == QUOTE then (l, .string)
  else if isIdent r then (l, .ident)
  else if r.cp == RPAREN then (l.backup, .rightParen)
  else l.backup.error

def lexDeclare (l : L) : L × Tag :=
  let l := skipWs l
  if l.atEOF then (l, .done) else
  let l := skipWs ((l.absorb 2).emit .declare)
  let (l, r) := l.next
  if r.cp == QUOTE then (l, .declString)
  else if isIdent r then (l, .ident)
  else l.backup.error

/-- the scanning loop of `lexString`: `.error l` = unterminated, with the state the Go code is in when
    it builds the message (after its `backup()`, whose width may come from the peek inside `atEOL`) -/
def scanString (l : L) : Except L L :=
  match h : l.right with
  | [] => .error ((l.next).1.backup)
  | r :: rs =>
    let l1 := (l.next).1
    if r.cp == QUOTE then .ok l1
    else if rs.isEmpty then .error l1.backup
    else
      if (l1.atEOL).2 then .error (l1.atEOL).1.backup else scanString (l1.atEOL).1
termination_by l.right.length
decreasing_by
  have h2 : (l.next).1.right = rs := L.next_right_cons h
  simp [h2, h]

def lexString (l : L) : L × Tag :=
  match scanString l with
  | .error l => l.error
  | .ok l =>
    let l := l.emit .string
    if l.atEOF then (l, .start) else
    let (l, eol) := l.atEOL
    if eol then (l, .start) else (l, .args)

/-- `for r := l.peek(); r == ' ' || r == '\t'; r = l.peek() { l.next() }` -/
def skipBlanks (l : L) : L :=
  match h : l.right with
  | [] => (l.peek).1
  | r :: _ => if r.cp == SP || r.cp == TAB then skipBlanks ((l.peek).1.next).1 else (l.peek).1
termination_by l.right.length
decreasing_by
  have h1 : (l.peek).1.right = r :: ‹List Rune› := by simp [h]
  simp [L.next_right_cons h1, h]

def lexDeclString (l : L) : L × Tag :=
  match scanString l with
  | .error l => l.error
  | .ok l =>
    let l := l.emit .string
    -- `lexString` itself: its atEOF / atEOL tests run before the blank-skipping loop
    let l := if l.atEOF then l else (l.atEOL).1
    let l := (skipBlanks l).discard
    if l.atEOF then (l, .start) else
    let (l, eol) := l.atEOL
    if eol then (l, .start) else l.error

def stepTag (l : L) : Tag → L × Tag
  | .start => lexStart l | .hash => lexHash l | .comment => lexComment l | .taskKeyword => lexTaskKeyword l
  | .leftParen => lexLeftParen l | .rightParen => lexRightParen l | .outputOp => lexOutputOp l
  | .leftBrace => lexLeftBrace l | .rightBrace => lexRightBrace l | .taskBody => lexTaskBody l
  | .taskCommands => lexTaskCommands l | .taskName => lexTaskName l | .ident => lexIdent l | .args => lexArgs l
  | .comma => lexComma l | .declare => lexDeclare l | .string => lexString l | .declString => lexDeclString l
  | .done => (l, .done)
  | .spin => (l, .spin)

def Tag.final (t : Tag) : Bool := t == .done || t == .spin

/-- the `run` loop, with an explicit step budget; `lexRunes` gives it `3·|input| + 4`, which
    `Props/C08` proves is never exhausted -/
def runF : Nat → L → Tag → L × Tag
  | 0, l, t => (l, if t.final then t else .spin)
  | fuel + 1, l, t => if t.final then (l, t) else let (l', t') := stepTag l t; runF fuel l' t'

structure LexResult where
  toks : List Tok
  /-- `false` when the Go lexer would not have terminated -/
  halted : Bool
deriving Repr

def lexRunes (rs : List Rune) : LexResult :=
  let (l, t) := runF (3 * rs.length + 4) (L.init rs) .start
  ⟨l.toks.toList, t == .done⟩

def lex (bytes : List UInt8) : LexResult := lexRunes (decodeAll bytes)

end Spok
