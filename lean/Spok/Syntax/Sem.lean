import Spok.Syntax.Printer
/-! # What a spokfile *does* (`sem`) and what it *documents* (`notes`): the projections C07 and C15 speak about -/
namespace Spok

/-- variables with their value form and tasks with dependencies, outputs and command lines, in order;
    comments and docstrings are left out -/
inductive SemItem where
  | var (name : List Rune) (v : Val)
  | task (name : List Rune) (deps outs : List Arg) (cmds : List (List Rune))
deriving Repr, DecidableEq

def sem (t : Tree) : List SemItem := t.filterMap fun
  | .comment _ => none
  | .assign n v => some (.var n v)
  | .task n _ d o c => some (.task n d o c)

/-- the non-empty comments (trimmed, as `--show` and the formatter see them), the positions of the
    statements between them, and every task's docstring -/
inductive Note where
  | comment (t : List Rune)
  | stmt
  | task (doc : List Rune)
deriving Repr, DecidableEq

def notes (t : Tree) : List Note := t.filterMap fun
  | .comment c => if (trimSpace c).isEmpty then none else some (.comment (trimSpace c))
  | .assign _ _ => some .stmt
  | .task _ doc _ _ _ => some (.task (trimSpace doc))

end Spok
