import Spok.Syntax.Lexer
/-! # The spok parser over the lexer model's token stream

A transliteration of `parser/parser.go`.  The token channel is a list; once it is exhausted every
further read yields the zero token (`EOF`, line 0), as a read from the closed Go channel does.  The
three-slot back-up buffer is only ever used for one token of look-ahead, which here is a `match` on
the head of the list.  Every Go operation that can panic (`lines[i]` in `getLine`) and the one loop
that could spin (`parseTaskCommands` on an exhausted stream) are explicit outcomes. -/
namespace Spok

inductive Arg where
  | str (s : List Rune)
  | ident (n : List Rune)
deriving Repr, Inhabited, DecidableEq

inductive Val where
  | str (s : List Rune)
  | ident (n : List Rune)
  | call (f : List Rune) (args : List Arg)
deriving Repr, Inhabited, DecidableEq

inductive Node where
  | comment (t : List Rune)
  | assign (name : List Rune) (v : Val)
  | task (name : List Rune) (doc : List Rune) (deps outs : List Arg) (cmds : List (List Rune))
deriving Repr, Inhabited, DecidableEq

abbrev Tree := List Node

/-- what a syntax error cites: `cited` = the N of "(Line N)", `ctx` = 1-based index of the quoted line
    (the text quoted is `TrimSpace(lines[ctx-1])`) -/
structure PErr where
  cited : Nat
  ctx : Nat
deriving Repr, Inhabited, DecidableEq

inductive PFail where
  | err (e : PErr)     -- a syntax error was returned
  | panic              -- index out of range while building the error
  | spin               -- the Go parser would loop for ever
deriving Repr, Inhabited, DecidableEq

def zeroTok : Tok := ⟨.eof, [], 0, 0, 0⟩

/-- number of lines `strings.Split(input, "\n")` yields -/
def nLines (rs : List Rune) : Nat := 1 + (rs.filter (·.cp == NL)).length

structure PCtx where
  nlines : Nat

/-- the lexer built the message itself: `lines[l.line-1]` must exist -/
def lexErr (c : PCtx) (t : Tok) : PFail :=
  if 1 ≤ t.errLine && t.errLine ≤ c.nlines then .err ⟨t.errLine, t.errLine⟩ else .panic

/-- `illegalToken{encountered: t, line: p.getLine(t)}`; `getLine` uses `lines[Line-1]`, or `lines[0]` when Line = 0 -/
def illegal (c : PCtx) (t : Tok) : PFail :=
  let idx := if t.line == 0 then 1 else t.line
  if idx ≤ c.nlines then .err ⟨t.line, idx⟩ else .panic

def stripQuotes (v : List Rune) : List Rune := v.filter (·.cp != QUOTE)

abbrev PRes (α : Type) := Except PFail (α × List Tok)

def pnext : List Tok → Tok × List Tok
  | [] => (zeroTok, [])
  | t :: ts => (t, ts)

def expect (c : PCtx) (ty : TT) (ts : List Tok) : Except PFail (List Tok) :=
  let (t, ts) := pnext ts
  if t.ty == .error then .error (lexErr c t)
  else if t.ty != ty then .error (illegal c t)
  else .ok ts

/-- the `for next := p.next(); !next.Is(RPAREN)` loops of parseFunction / parseTaskDependencies and the
    inner loop of parseTaskOutputs -/
def parseArgList (c : PCtx) : List Tok → List Arg → PRes (List Arg)
  | [], _ => .error (illegal c zeroTok)
  | t :: ts, acc =>
    match t.ty with
    | .rparen => .ok (acc.reverse, ts)
    | .string => parseArgList c ts (.str (stripQuotes t.val) :: acc)
    | .ident => parseArgList c ts (.ident t.val :: acc)
    | .comma => parseArgList c ts acc
    | .error => .error (lexErr c t)
    | _ => .error (illegal c t)

def parseOutputs (c : PCtx) (ts : List Tok) : PRes (List Arg) :=
  match ts with
  | [] => .ok ([], [])
  | t :: ts1 =>
    if t.ty != .output then .ok ([], t :: ts1) else
    let (n, ts2) := pnext ts1
    match n.ty with
    | .string => .ok ([.str (stripQuotes n.val)], ts2)
    | .ident => .ok ([.ident n.val], ts2)
    | .comma => .ok ([], ts2)
    | .lparen => parseArgList c ts2 []
    | .error => .error (lexErr c n)
    | _ => .error (illegal c n)

def parseCommands (c : PCtx) : List Tok → List (List Rune) → PRes (List (List Rune))
  | [], _ => .error .spin
  | t :: ts, acc =>
    match t.ty with
    | .error => .error (lexErr c t)
    | .rbrace => .ok (acc.reverse, ts)
    | .command => parseCommands c ts (t.val :: acc)
    | _ => parseCommands c ts acc

def parseTask (c : PCtx) (doc : List Rune) (ts : List Tok) : PRes Node :=
  let (nameTok, ts) := pnext ts
  match expect c .lparen ts with
  | .error e => .error e
  | .ok ts =>
  match parseArgList c ts [] with
  | .error e => .error e
  | .ok (deps, ts) =>
  match parseOutputs c ts with
  | .error e => .error e
  | .ok (outs, ts) =>
  match expect c .lbrace ts with
  | .error e => .error e
  | .ok ts =>
  match parseCommands c ts [] with
  | .error e => .error e
  | .ok (cmds, ts) => .ok (.task nameTok.val doc deps outs cmds, ts)

def parseAssign (c : PCtx) (ident : Tok) (ts : List Tok) : PRes Node :=
  match expect c .declare ts with
  | .error e => .error e
  | .ok ts =>
  let (n, ts) := pnext ts
  match n.ty with
  | .string => .ok (.assign ident.val (.str (stripQuotes n.val)), ts)
  | .ident =>
    match ts with
    | t2 :: ts2 =>
      if t2.ty == .lparen then
        match parseArgList c ts2 [] with
        | .error e => .error e
        | .ok (args, ts3) => .ok (.assign ident.val (.call n.val args), ts3)
      else .ok (.assign ident.val (.ident n.val), ts)
    | [] => .ok (.assign ident.val (.ident n.val), ts)
  | .error => .error (lexErr c n)
  | _ => .error (illegal c n)

/-- the tokens left after a successful sub-parse are a strict suffix: every parse function consumes -/
def parseLoop (c : PCtx) : Nat → List Tok → List Node → List Node × Option PFail
  | 0, _, acc => (acc.reverse, some .spin)
  | fuel + 1, ts, acc =>
    match ts with
    | [] => (acc.reverse, none)
    | t :: ts =>
      match t.ty with
      | .eof => (acc.reverse, none)
      | .error => (acc.reverse, some (lexErr c t))
      | .hash =>
        let (cm, ts1) := pnext ts
        match ts1 with
        | n :: ts2 =>
          if n.ty == .task && !cm.val.isEmpty then
            match parseTask c cm.val ts2 with
            | .error e => (acc.reverse, some e)
            | .ok (node, ts3) => parseLoop c fuel ts3 (node :: acc)
          else parseLoop c fuel ts1 (.comment cm.val :: acc)
        | [] => parseLoop c fuel ts1 (.comment cm.val :: acc)
      | .ident =>
        match parseAssign c t ts with
        | .error e => (acc.reverse, some e)
        | .ok (node, ts1) => parseLoop c fuel ts1 (node :: acc)
      | .task =>
        match parseTask c [] ts with
        | .error e => (acc.reverse, some e)
        | .ok (node, ts1) => parseLoop c fuel ts1 (node :: acc)
      | _ => (acc.reverse, some (illegal c t))

structure ParseResult where
  tree : Tree
  fail : Option PFail
deriving Repr, DecidableEq

def parseToks (nlines : Nat) (toks : List Tok) : ParseResult :=
  let (t, f) := parseLoop ⟨nlines⟩ (toks.length + 1) toks []
  ⟨t, f⟩

def parseRunes (rs : List Rune) : ParseResult :=
  let lr := lexRunes rs
  if !lr.halted then ⟨[], some .spin⟩ else parseToks (nLines rs) lr.toks

def parse (bytes : List UInt8) : ParseResult := parseRunes (decodeAll bytes)

end Spok
