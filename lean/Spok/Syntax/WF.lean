import Spok.Syntax.Render
/-! # Well-formed trees: what the parser can return

`wfTree` is the (executable) condition under which the formatter's output is an admissible layout of
the normalised tree (`Lemmas/RT/Format.lean`: `wfTree t = true → Doc (norm t) (format t)`).  Every
tree the parser returns satisfies it; until that is proved (`parse_wf`, open) the oracle evaluates
`wfTree` on every tree the implementation produces and reports a tree that does not satisfy it. -/
namespace Spok

def identRunesB (n : List Rune) : Bool := n.all isIdent
def strOKB (s : List Rune) : Bool := s.all (fun r => r.cp != QUOTE) && s.tail.all (fun r => r.cp != NL)
def commentOKB (c : List Rune) : Bool := c.all (fun r => r.cp != NL)

def argOKB : Arg → Bool
  | .str s => strOKB s
  | .ident n => !n.isEmpty && identRunesB n

def firstCmdOKB : List Rune → Bool
  | [] => false
  | a :: c' => isLetter a && cmdScanOK c' && !endsWithCp (a :: c') CR

def nextCmdOKB : List Rune → Bool
  | [] => false
  | a :: c' => !isSpace a && cmdScanOK (a :: c') && !endsWithCp (a :: c') CR

def cmdsOKB : List (List Rune) → Bool
  | [] => true
  | c :: cs => firstCmdOKB c && cs.all nextCmdOKB

def valOKB : Val → Bool
  | .str s => strOKB s
  | .ident v => !v.isEmpty && identRunesB v
  | .call f args => !f.isEmpty && identRunesB f && args.all argOKB

def nodeOKB : Node → Bool
  | .comment c => commentOKB c
  | .assign n v => !n.isEmpty && identRunesB n && !kwPrefix n && valOKB v
  | .task name doc deps outs cmds => identRunesB name && commentOKB doc && deps.all argOKB && outs.all argOKB && cmdsOKB cmds

def Node.isIdentAssign : Node → Bool
  | .assign _ (.ident _) => true
  | _ => false

/-- a non-empty comment is never directly followed by a task without docstring (it would have become
    the docstring), and `NAME := OTHER` can only be the last statement (the lexer rejects anything after it) -/
def adjOKB : Tree → Bool
  | [] => true
  | [_] => true
  | n :: n2 :: t => !(n.isNonEmptyComment && n2.isDoclessTask) && !n.isIdentAssign && adjOKB (n2 :: t)

def wfTree (t : Tree) : Bool := t.all nodeOKB && adjOKB t

end Spok
