import Spok.Basic.Unicode
/-! # Tokens -/
namespace Spok

inductive TT where
  | eof | error | comment | hash | lparen | rparen | lbrace | rbrace | quote | comma | task | string
  | command | output | ident | declare | linterp | rinterp
deriving DecidableEq, Repr, Inhabited

/-- `token.Type.String()` -/
def TT.name : TT → String
  | .eof => "EOF" | .error => "ERROR" | .comment => "COMMENT" | .hash => "#" | .lparen => "(" | .rparen => ")"
  | .lbrace => "{" | .rbrace => "}" | .quote => "\"" | .comma => "," | .task => "task" | .string => "STRING"
  | .command => "COMMAND" | .output => "->" | .ident => "IDENT" | .declare => ":=" | .linterp => "{{" | .rinterp => "}}"

def TT.all : List TT :=
  [.eof, .error, .comment, .hash, .lparen, .rparen, .lbrace, .rbrace, .quote, .comma, .task, .string,
   .command, .output, .ident, .declare, .linterp, .rinterp]

structure Tok where
  ty : TT
  val : List Rune
  pos : Nat
  line : Nat
  /-- for ERROR tokens: the line the message cites (`l.line` when the error was built); `none` = the
      error construction would index `lines[l.line-1]` out of range (a panic in the Go code) -/
  errLine : Nat := 0
deriving Repr, Inhabited, DecidableEq

end Spok
