import Spok.Syntax.Parser
import Spok.Generated.Facts
/-! # The formatter (`ast.Tree.String`) -/
namespace Spok

def str (s : String) : List Rune := s.toList.map fun c => asc c.toNat

/-- `strings.TrimSpace` on decoded runes -/
def trimSpace (s : List Rune) : List Rune := ((s.dropWhile isSpace).reverse.dropWhile isSpace).reverse

def joinR (sep : List Rune) : List (List Rune) → List Rune
  | [] => [] | [x] => x | x :: xs => x ++ sep ++ joinR sep xs

/-- the literals the printer uses; `Printer.lits` is what the Go source spells today, the round-trip
    theorems are stated for any `Lits` satisfying the side conditions in `Props/Facts` -/
structure Lits where
  commentOpen : List Rune    -- "# "
  nl : List Rune             -- "\n"
  quote : List Rune          -- "\""
  assignOp : List Rune       -- " := "
  taskKw : List Rune         -- "task "
  lparen : List Rune
  rparen : List Rune
  sep : List Rune            -- ", "
  arrow : List Rune          -- " -> "
  bodyOpen : List Rune       -- " {\n"
  indent : List Rune         -- "    "
  bodyClose : List Rune      -- "}\n\n"
  emptyComment : List Rune   -- "#\n"

def stdLits : Lits :=
  { commentOpen := str "# ", nl := str "\n", quote := str "\"", assignOp := str " := ", taskKw := str "task ",
    lparen := str "(", rparen := str ")", sep := str ", ", arrow := str " -> ", bodyOpen := str " {\n",
    indent := str "    ", bodyClose := str "}\n\n", emptyComment := str "#\n" }

section
variable (L : Lits)

def printArg : Arg → List Rune
  | .str s => L.quote ++ s ++ L.quote
  | .ident n => n

/-- `Comment.String` -/
def printComment (t : List Rune) : List Rune :=
  if t.isEmpty then [] else L.commentOpen ++ trimSpace t ++ L.nl

def printVal : Val → List Rune
  | .str s => L.quote ++ s ++ L.quote
  | .ident n => n
  | .call f args => f ++ L.lparen ++ joinR L.sep (args.map (printArg L)) ++ L.rparen

/-- `Tree.Write` on one node: an empty top-level comment is written as `#` -/
def printNode : Node → List Rune
  | .comment t => if t.isEmpty then L.emptyComment else printComment L t
  | .assign n v => n ++ L.assignOp ++ printVal L v ++ L.nl
  | .task name doc deps outs cmds =>
    printComment L doc ++ L.taskKw ++ name ++ L.lparen ++ joinR L.sep (deps.map (printArg L)) ++ L.rparen ++
    (match outs with
     | [] => []
     | [o] => L.arrow ++ printArg L o
     | os => L.arrow ++ L.lparen ++ joinR L.sep (os.map (printArg L)) ++ L.rparen) ++
    L.bodyOpen ++ (cmds.map fun c => L.indent ++ c ++ L.nl).flatten ++ L.bodyClose

def printTree (t : Tree) : List Rune := (t.map (printNode L)).flatten
end

/-- the formatter with the literals of the Go source -/
def format (t : Tree) : List Rune := printTree stdLits t

end Spok
