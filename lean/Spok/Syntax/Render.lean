import Spok.Syntax.Sem
/-! # Admissible layouts: every text that "writes out" a tree

`Doc t txt` says that `txt` is the tree `t` written out in some layout the syntax admits
(DESIGN §7.5): any whitespace between statements and around punctuation, LF or CRLF line ends,
optional trailing commas, a single output bare or parenthesised, one-line or multi-line bodies,
non-ASCII letters in names and strings.  Property C06 is `Doc t txt → parse txt = t`
(`Props/C06.lean`); the formatter's output is one particular layout of the normalised tree
(`Doc (norm t) (format t)`), which gives C07, C11 and C15.

The relation is deliberately *syntactic*: every side condition is about the pieces of text
themselves (which runes a name, a string, a comment or a command may contain, which whitespace may
stand in which slot), never about what the lexer does. -/
namespace Spok

/-! ## whitespace classes -/

/-- any whitespace: blanks, tabs, LF, CR, Unicode spaces -/
def Ws (ws : List Rune) : Prop := ∀ r ∈ ws, isSpace r = true

/-- blanks and tabs only -/
def Blanks (ws : List Rune) : Prop := ∀ r ∈ ws, r.cp = SP ∨ r.cp = TAB

/-- the text begins with a line end: `\n` or `\r\n` -/
def startsEol : List Rune → Bool
  | r :: rest => r.cp == NL || (r.cp == CR && (match rest with | r2 :: _ => r2.cp == NL | [] => false))
  | [] => false

/-- a line end: LF or CRLF -/
def Eol (e : List Rune) : Prop := e = [asc NL] ∨ e = [asc CR, asc NL]

/-! ## pieces -/

def IdentRunes (n : List Rune) : Prop := ∀ r ∈ n, isIdent r = true

/-- the name begins with the keyword `task` -/
def kwPrefix (n : List Rune) : Bool := (n.take 4).map (·.cp) == [116, 97, 115, 107]

/-- a string body: no quote, and a newline at most in first position -/
def StrOK (s : List Rune) : Prop := (∀ r ∈ s, r.cp ≠ QUOTE) ∧ (∀ r ∈ s.tail, r.cp ≠ NL)

/-- a comment text: everything up to the end of the line -/
def CommentOK (c : List Rune) : Prop := ∀ r ∈ c, r.cp ≠ NL

def endsWithCp (rs : List Rune) (c : Nat) : Bool := match rs.getLast? with | some r => r.cp == c | none => false

/-- The command-text scanner of `lexTaskCommands`, started on a rune that is read as the loop
    variable, with a newline following the text: every rune of `c` is taken as command text.
    (`{{` / `}}` directly after the rune being read are jumped over, whatever that rune is; otherwise
    the rune must be ASCII and none of newline, `}`, `#`.) -/
def cmdScanOK : List Rune → Bool
  | [] => true
  | r :: rest =>
    if r.cp == NL then false
    else if (rest.take 2).map (·.cp) == [LBRACE, LBRACE] || (rest.take 2).map (·.cp) == [RBRACE, RBRACE] then
      cmdScanOK (rest.drop 2)
    else if r.cp == RBRACE || r.cp == HASH then false
    else if isASCII r then cmdScanOK rest
    else false
termination_by l => l.length
decreasing_by all_goals simp [List.length_drop]; all_goals omega

/-- the first command of a body: its first rune is a letter (read by `lexTaskBody`), the scan starts after it -/
def FirstCmdOK (c : List Rune) : Prop :=
  match c with
  | [] => False
  | a :: c' => isLetter a = true ∧ cmdScanOK c' = true ∧ endsWithCp (a :: c') CR = false

/-- a later command: starts on a non-space rune, the scan starts on it -/
def NextCmdOK (c : List Rune) : Prop :=
  match c with
  | [] => False
  | a :: c' => isSpace a = false ∧ cmdScanOK (a :: c') = true ∧ endsWithCp (a :: c') CR = false

/-! ## arguments -/

/-- the text of one argument -/
inductive ArgText : Arg → List Rune → Prop
  | str (s : List Rune) : StrOK s → ArgText (.str s) (asc QUOTE :: s ++ [asc QUOTE])
  | ident (n : List Rune) : n ≠ [] → IdentRunes n → ArgText (.ident n) n

/-- whitespace admissible directly after an argument (before `,`, `)` or `{`): after a string it must
    not begin with a line end — the lexer would take the string for a declaration -/
def AfterArg : Arg → List Rune → Prop
  | .str _, ws => Ws ws ∧ startsEol ws = false
  | .ident _, ws => Ws ws

/-- the text from the first argument up to (excluding) the closing parenthesis: items separated by
    `,` with whitespace anywhere around them, optional trailing comma -/
inductive ItemsText : List Arg → List Rune → Prop
  | last (a : Arg) (txt ws : List Rune) : ArgText a txt → AfterArg a ws → ItemsText [a] (txt ++ ws)
  | lastComma (a : Arg) (txt ws ws2 : List Rune) : ArgText a txt → AfterArg a ws → Ws ws2 →
      ItemsText [a] (txt ++ ws ++ asc COMMA :: ws2)
  | cons (a : Arg) (txt ws ws2 : List Rune) (as : List Arg) (rest : List Rune) :
      ArgText a txt → AfterArg a ws → Ws ws2 → ItemsText as rest →
      ItemsText (a :: as) (txt ++ ws ++ asc COMMA :: ws2 ++ rest)

/-- `( … )` -/
inductive ParenText : List Arg → List Rune → Prop
  | empty (ws : List Rune) : Ws ws → ParenText [] (asc LPAREN :: ws ++ [asc RPAREN])
  | items (ws : List Rune) (args : List Arg) (body : List Rune) : Ws ws → ItemsText args body →
      ParenText args (asc LPAREN :: ws ++ body ++ [asc RPAREN])

/-! ## task pieces -/

/-- the output clause between `)` and `{` (both exclusive), *including* the whitespace before `{` -/
inductive OutsText : List Arg → List Rune → Prop
  | none (ws : List Rune) : Ws ws → OutsText [] ws
  | single (ws1 ws2 ws3 : List Rune) (a : Arg) (txt : List Rune) : Ws ws1 → Ws ws2 → ArgText a txt → AfterArg a ws3 →
      OutsText [a] (ws1 ++ asc MINUS :: asc GT :: ws2 ++ txt ++ ws3)
  | list (ws1 ws2 ws3 : List Rune) (args : List Arg) (p : List Rune) : Ws ws1 → Ws ws2 → Ws ws3 → args ≠ [] →
      ParenText args p → OutsText args (ws1 ++ asc MINUS :: asc GT :: ws2 ++ p ++ ws3)

/-- what stands between one command and the next: optional carriage returns, a newline, any whitespace -/
def CmdSep (sep : List Rune) : Prop :=
  ∃ crs ws, (∀ r ∈ crs, r.cp = CR) ∧ Ws ws ∧ sep = crs ++ asc NL :: ws

/-- what stands between the last command `c` and the closing brace: either a separator as between
    commands, or (one-line style) optional carriage returns and at most one blank — the lexer drops
    one trailing blank and trailing carriage returns; with nothing in between the command itself must
    not end in a blank -/
def CmdEnd (c : List Rune) (e : List Rune) : Prop :=
  CmdSep e ∨
  ∃ crs sp, (∀ r ∈ crs, r.cp = CR) ∧ (sp = [] ∨ sp = [asc SP]) ∧ e = crs ++ sp ∧
    (crs = [] → sp = [] → endsWithCp c SP = false)

/-- commands after the first one, up to (excluding) the closing brace -/
inductive MoreCmds : List (List Rune) → List Rune → List Rune → Prop
  | done (prev e : List Rune) : CmdEnd prev e → MoreCmds [] prev e
  | cons (prev sep c : List Rune) (cs : List (List Rune)) (rest : List Rune) :
      CmdSep sep → NextCmdOK c → MoreCmds cs c rest → MoreCmds (c :: cs) prev (sep ++ c ++ rest)

/-- the body between `{` and `}` (both exclusive) -/
inductive BodyText : List (List Rune) → List Rune → Prop
  | empty (ws : List Rune) : Ws ws → BodyText [] ws
  | cmds (ws c : List Rune) (cs : List (List Rune)) (rest : List Rune) : Ws ws → FirstCmdOK c →
      MoreCmds cs c rest → BodyText (c :: cs) (ws ++ c ++ rest)

/-! ## statements -/

/-- how a statement that does not end its own line may be followed: after skipping whitespace the
    input is exhausted or continues with the first rune of another statement (`#`, or an identifier
    rune — `task` begins with one) -/
def NextStmtOK (rest : List Rune) : Prop :=
  match rest.dropWhile isSpace with
  | [] => True
  | r :: _ => isIdent r = true ∨ r.cp = HASH

/-- `StmtText node txt rest`: `txt` is the text of the top-level statement `node`, and `rest` is what
    follows it in the file -/
inductive StmtText : Node → List Rune → List Rune → Prop
  | comment (c e rest : List Rune) : CommentOK c → (Eol e ∨ (e = [] ∧ rest = [])) →
      (endsWithCp c CR = true → e ≠ [asc NL]) →
      StmtText (.comment c) (asc HASH :: c ++ e) rest
  | assignStr (n ws1 ws2 s b e rest : List Rune) : n ≠ [] → IdentRunes n → kwPrefix n = false → Ws ws1 → Ws ws2 →
      StrOK s → Blanks b → (Eol e ∨ (e = [] ∧ rest = [])) →
      StmtText (.assign n (.str s)) (n ++ ws1 ++ asc COLON :: asc EQUALS :: ws2 ++ asc QUOTE :: s ++ asc QUOTE :: b ++ e) rest
  | assignCall (n ws1 ws2 f ws3 : List Rune) (args : List Arg) (p rest : List Rune) : n ≠ [] → IdentRunes n →
      kwPrefix n = false → Ws ws1 → Ws ws2 → f ≠ [] → IdentRunes f → Ws ws3 → ParenText args p → NextStmtOK rest →
      StmtText (.assign n (.call f args)) (n ++ ws1 ++ asc COLON :: asc EQUALS :: ws2 ++ f ++ ws3 ++ p) rest
  | assignIdent (n ws1 ws2 v ws3 : List Rune) : n ≠ [] → IdentRunes n → kwPrefix n = false → Ws ws1 → Ws ws2 →
      v ≠ [] → IdentRunes v → Ws ws3 →
      StmtText (.assign n (.ident v)) (n ++ ws1 ++ asc COLON :: asc EQUALS :: ws2 ++ v ++ ws3) []
  | task (doc d e ws0 ws1 name ws2 : List Rune) (deps : List Arg) (p : List Rune) (outs : List Arg) (o : List Rune)
      (cmds : List (List Rune)) (b rest : List Rune) :
      -- optional docstring line: `# doc` EOL whitespace
      ((doc = [] ∧ d = []) ∨ (doc ≠ [] ∧ CommentOK doc ∧ Eol e ∧ (endsWithCp doc CR = true → e ≠ [asc NL]) ∧ Ws ws0 ∧
        d = asc HASH :: doc ++ e ++ ws0)) →
      Ws ws1 → IdentRunes name → Ws ws2 → ParenText deps p → OutsText outs o → BodyText cmds b →
      -- what follows the closing brace is not a brace: the command loop tests for `{{` / `}}` *after*
      -- the rune it has just read before it tests that rune itself
      (∀ r, rest.head? = some r → r.cp ≠ RBRACE ∧ r.cp ≠ LBRACE) →
      StmtText (.task name doc deps outs cmds)
        (d ++ asc 116 :: asc 97 :: asc 115 :: asc 107 :: ws1 ++ name ++ ws2 ++ p ++ o ++ asc LBRACE :: b ++ [asc RBRACE]) rest

def Node.isNonEmptyComment : Node → Bool
  | .comment c => !c.isEmpty
  | _ => false

def Node.isDoclessTask : Node → Bool
  | .task _ doc _ _ _ => doc.isEmpty
  | _ => false

/-- a file: statements with any whitespace before, between and after them.  A task without docstring
    cannot directly follow a non-empty comment (the comment *would be* its docstring). -/
inductive Doc : Tree → List Rune → Prop
  | nil (ws : List Rune) : Ws ws → Doc [] ws
  | cons (ws : List Rune) (node : Node) (txt : List Rune) (t : Tree) (rest : List Rune) : Ws ws →
      StmtText node txt rest → Doc t rest →
      (node.isNonEmptyComment = true → ∀ n2, t.head? = some n2 → n2.isDoclessTask = false) →
      Doc (node :: t) (ws ++ txt ++ rest)

/-! ## what the formatter does to a tree -/

/-- a comment as the formatter re-spells it: `# ` + trimmed text -/
def normComment (c : List Rune) : List Rune := if c.isEmpty then [] else asc SP :: trimSpace c

def normNode : Node → Node
  | .comment c => .comment (normComment c)
  | .assign n v => .assign n v
  | .task n doc d o c => .task n (normComment doc) d o c

/-- the tree a formatted file parses to: comments and docstrings are re-spelled, nothing else changes -/
def norm (t : Tree) : Tree := t.map normNode

end Spok
