/-! # Model of `spok --clean` (property C12)

Lexical path algebra of Go's `path/filepath` on Unix (`Clean`, `Join`, `IsAbs`, `Abs`), a finite-map file
system with `os.RemoveAll`, and `App.handleClean` / `App.clean` / `containsSpokfile` of `cli/app/app.go`
as they are in /repo now (after the repair of D8: output globs are expanded, and a target that is the
spokfile, its directory or an ancestor makes the whole clean fail before anything is touched).

Text is `List Char` (`Str`).  Paths of file-system entries are component lists (`Path`), the root is `[]`.
Core Lean only. -/
namespace Spok.Clean

abbrev Str := List Char

/-! ## strings.Split on '/' -/

/-- put a character in front of the first piece -/
def consHead (c : Char) : List Str → List Str
  | [] => [[c]]           -- unreachable below: `split` never returns []
  | h :: t => (c :: h) :: t

/-- `strings.Split(s, "/")`: always at least one piece -/
def split : Str → List Str
  | [] => [[]]
  | c :: cs => if c = '/' then [] :: split cs else consHead c (split cs)

/-- `strings.Join(segs, "/")` -/
def glue : List Str → Str
  | [] => []
  | [s] => s
  | s :: t => s ++ '/' :: glue t

/-- `strings.Join(words, " ")` -/
def glue' : List Str → Str
  | [] => []
  | [s] => s
  | s :: t => s ++ ' ' :: glue' t

notation "DOT" => (['.'] : List Char)
notation "DOTDOT" => (['.', '.'] : List Char)

/-- the non-empty pieces between slashes -/
def segs (s : Str) : List Str := (split s).filter (fun x => !x.isEmpty)

/-! ## filepath.Clean / Join / IsAbs / Abs (Unix) -/

def isAbs (s : Str) : Bool :=
  match s with
  | '/' :: _ => true
  | _ => false

/-- one element of the path against the (reversed) stack of elements kept so far:
    empty and `.` are dropped, `..` removes the previous proper element, is dropped at the root of a
    rooted path and kept otherwise -/
def step (rooted : Bool) (st : List Str) (seg : Str) : List Str :=
  if seg = [] then st
  else if seg = DOT then st
  else if seg = DOTDOT then
    match st with
    | [] => if rooted then [] else [DOTDOT]
    | top :: rest => if top = DOTDOT then DOTDOT :: top :: rest else rest
  else seg :: st

def cleanSegs (rooted : Bool) (l : List Str) : List Str := (l.foldl (step rooted) []).reverse

/-- `filepath.Clean` -/
def clean (s : Str) : Str :=
  if isAbs s then '/' :: glue (cleanSegs true (split s))
  else match cleanSegs false (split s) with
    | [] => DOT
    | l => glue l

/-- `filepath.Join`: leading empty elements are ignored, the rest is joined with '/' and cleaned;
    all empty (or none) gives the empty string -/
def join (parts : List Str) : Str :=
  match parts.dropWhile (fun p => p.isEmpty) with
  | [] => []
  | ps => clean (glue ps)

/-- `filepath.Abs` with the working directory `cwd` -/
def abs (cwd : Str) (s : Str) : Str :=
  if isAbs s then clean s else join [cwd, s]

/-! ## file system as a finite map -/

abbrev Path := List Str

inductive Kind where
  | dir
  | file (content : Str)     -- the harness puts the content hash here
  deriving DecidableEq, Repr

abbrev FS := List (Path × Kind)

def Kind.isFile : Kind → Bool
  | .file _ => true
  | .dir => false

/-- components of an absolute, cleaned path string -/
def pathOf (s : Str) : Path := segs s

/-- `d` is `p` or a directory above it -/
def within (d p : Path) : Bool := d.isPrefixOf p

/-- `os.RemoveAll`: the entry and everything below it; a missing path is not an error -/
def removeAll (fs : FS) (d : Path) : FS := fs.filter (fun e => !within d e.1)

/-- `os.Stat` failing with something other than "the path is not there".  When a proper prefix of the path
    is a regular file the kernel answers ENOTDIR; since the repair 85950c0 `App.clean` treats that like
    "does not exist" (`notThere`), so no modelled stat failure is an error any more. -/
def statErr (_fs : FS) (_p : Path) : Bool := false

/-! ## the spokfile as `--clean` sees it -/

structure GlobOut where
  pattern : Str
  /-- what the directory walk reported for this pattern, relative to the spokfile's directory
      (the expansion is an input of the model) -/
  hits : List Str
  deriving Repr

structure Task where
  name : Str
  fileOutputs : List Str          -- the literals as written, `task.New` joins them with the root
  namedOutputs : List Str
  globOutputs : List GlobOut
  deriving Repr

structure SpokFile where
  dir : Str                        -- absolute directory of the spokfile, where it really is
  vars : List (Str × Str)          -- evaluated variables
  tasks : List Task
  /-- `physical` of `cli/app/app.go` in the world of this run: a (clean, absolute) path with the symbolic links of its
      DIRECTORY part resolved, the last element kept as written (`filepath.EvalSymlinks(Dir) + Base`) — the identity in a
      tree without links.  It is also what the operating system does with the path handed to `os.RemoveAll`: the entry
      removed is the last element in the directory the links lead to.  The file system `FS` below is the physical one. -/
  phys : Str → Str

def cacheDirName : Str := ['.', 's', 'p', 'o', 'k']
def spokfileName : Str := ['s', 'p', 'o', 'k', 'f', 'i', 'l', 'e']
def cleanName : Str := ['c', 'l', 'e', 'a', 'n']

def SpokFile.path (sf : SpokFile) : Str := join [sf.dir, spokfileName]
def SpokFile.cacheDir (sf : SpokFile) : Str := join [sf.dir, cacheDirName]
def SpokFile.hasTask (sf : SpokFile) (n : Str) : Bool := sf.tasks.any (fun t => t.name = n)

def lookupVar (vars : List (Str × Str)) (n : Str) : Option Str :=
  match vars with
  | [] => none
  | (k, v) :: rest => if k = n then some v else lookupVar rest n

inductive Err where
  | undefinedOutput (name : Str)
  | stat (p : Str)
  | refused (p : Str)
  | taskFailed
  deriving DecidableEq, Repr

/-- `filepath.Abs`, then where that really is -/
def absP (sf : SpokFile) (cwd : Str) (s : Str) : Str := sf.phys (abs cwd s)

/-- glob matches as `expandGlob` stores them -/
def globTargets (sf : SpokFile) (cwd : Str) (g : GlobOut) : List Str :=
  g.hits.map (fun m => absP sf cwd (join [sf.dir, m]))

def fileTarget (sf : SpokFile) (cwd : Str) (lit : Str) : Str := absP sf cwd (join [sf.dir, lit])

/-- resolve, then `os.Stat` (a missing path, or one below a regular file, is not an error) -/
def statted (fs : FS) (p : Str) : Except Err Str :=
  if statErr fs (pathOf p) then .error (.stat p) else .ok p

def namedTarget (sf : SpokFile) (cwd : Str) (fs : FS) (n : Str) : Except Err Str :=
  match lookupVar sf.vars n with
  | none => .error (.undefinedOutput n)
  | some v => statted fs (absP sf cwd v)

/-- `mapM` in `Except`, first error wins -/
def mapE {α β ε} (f : α → Except ε β) : List α → Except ε (List β)
  | [] => .ok []
  | a :: l =>
    match f a with
    | .error e => .error e
    | .ok b =>
      match mapE f l with
      | .error e => .error e
      | .ok bs => .ok (b :: bs)

def taskTargets (sf : SpokFile) (cwd : Str) (fs : FS) (t : Task) : Except Err (List Str) :=
  match mapE (fun o => statted fs (fileTarget sf cwd o)) t.fileOutputs with
  | .error e => .error e
  | .ok fl =>
    match mapE (namedTarget sf cwd fs) t.namedOutputs with
    | .error e => .error e
    | .ok nm => .ok (t.globOutputs.flatMap (globTargets sf cwd) ++ fl ++ nm)

/-- the list `toRemove` of `App.clean` (the tasks are a Go map: their order is immaterial for the result,
    every error is raised before anything is removed) -/
def targets (sf : SpokFile) (cwd : Str) (fs : FS) : Except Err (List Str) :=
  match mapE (taskTargets sf cwd fs) sf.tasks with
  | .error e => .error e
  | .ok per => .ok (per.flatten ++ [sf.cacheDir])

/-- `containsSpokfile` on paths that have been through `physical` (the targets above; the spokfile's own path is
    physical by the convention on `dir`): the path is the spokfile, or `filepath.Rel(path, spokfile)` does not climb, i.e.
    the path is a prefix directory of the spokfile.  Every path handed to it is absolute (it came out
    of `filepath.Abs`); for a relative one `Rel` fails against the absolute spokfile path ⇒ false. -/
def containsSpokfile (p : Str) (target : Str) : Bool :=
  let p := clean p
  let t := clean target
  p = t || (isAbs p && isAbs t && within (pathOf p) (pathOf t))

structure Result where
  err : Option Err
  fs : FS
  removed : List Str            -- the arguments of spok's own `os.RemoveAll` calls (ghost)
  deriving Repr

/-- `App.clean` -/
def runClean (sf : SpokFile) (cwd : Str) (fs : FS) : Result :=
  match targets sf cwd fs with
  | .error e => ⟨some e, fs, []⟩
  | .ok ts =>
    match ts.find? (fun t => containsSpokfile t sf.path) with
    | some t => ⟨some (.refused t), fs, []⟩
    | none => ⟨none, ts.foldl (fun fs t => removeAll fs (pathOf t)) fs, ts⟩

/-- `App.handleClean`; `taskRun` is what running the user's `clean` task does to the file system
    (and whether all of its commands exited with 0) -/
def handleClean (sf : SpokFile) (cwd : Str) (fs : FS) (taskRun : FS → FS × Bool) : Result :=
  if sf.hasTask cleanName then
    let r := taskRun fs
    ⟨if r.2 then none else some .taskFailed, r.1, []⟩
  else runClean sf cwd fs

/-! ## specification vocabulary used by the theorems and the judge -/

/-- the paths a spokfile *designates* for `--clean`, as a relation: where the declared outputs really are -/
inductive Designated (sf : SpokFile) (cwd : Str) : Str → Prop
  | file {t o} : t ∈ sf.tasks → o ∈ t.fileOutputs → Designated sf cwd (absP sf cwd (join [sf.dir, o]))
  | named {t n v} : t ∈ sf.tasks → n ∈ t.namedOutputs → lookupVar sf.vars n = some v → Designated sf cwd (absP sf cwd v)
  | glob {t g m} : t ∈ sf.tasks → g ∈ t.globOutputs → m ∈ g.hits → Designated sf cwd (absP sf cwd (join [sf.dir, m]))
  | cache : Designated sf cwd sf.cacheDir

/-- the same as a list (named outputs whose variable is missing designate nothing) -/
def designatedList (sf : SpokFile) (cwd : Str) : List Str :=
  sf.tasks.flatMap (fun t =>
    t.globOutputs.flatMap (globTargets sf cwd) ++
    t.fileOutputs.map (fileTarget sf cwd) ++
    t.namedOutputs.filterMap (fun n => (lookupVar sf.vars n).map (absP sf cwd)))
  ++ [sf.cacheDir]

/-- the spokfile, its directory, or anything above -/
def protectedPath (sf : SpokFile) (p : Path) : Bool := within p (pathOf sf.path)

/-- what must be left of `fs` once every subtree of a designated path is gone -/
def expectedAfter (fs : FS) (ds : List Str) : FS :=
  fs.filter (fun e => !ds.any (fun d => within (pathOf d) e.1))

/-! ## `physical` in a world given by its symbolic links (path ↦ target string) -/

def linkAt (links : List (Str × Str)) (p : Str) : Option Str := (links.find? (·.1 == p)).map (·.2)

/-- the directory the components lead to, links followed (`filepath.EvalSymlinks` on an existing directory; where a
    component does not exist both spellings name nothing, and nothing depends on which one is used) -/
def resolveDir (links : List (Str × Str)) : Nat → List Str → Str → Str
  | 0, _, cur => cur
  | _ + 1, [], cur => cur
  | fuel + 1, c :: rest, cur =>
    let p := join [cur, c]
    match linkAt links p with
    | some t =>
      let tgt := if isAbs t then clean t else join [cur, t]
      resolveDir links fuel rest (resolveDir links fuel (segs tgt) ['/'])
    | none => resolveDir links fuel rest p

/-- `physical`: the directory part resolved, the last element as written -/
def physOf (links : List (Str × Str)) (s : Str) : Str :=
  match (segs s).reverse with
  | [] => s
  | base :: revDir => join [resolveDir links 64 revDir.reverse ['/'], base]


end Spok.Clean
