import Spok.Oracle.All
/-! `oracle <engine>`: reads one case per line on stdin (`<case> | <what the implementation did>`), writes
    `<what the model does> || <judge verdicts on the implementation's behaviour>` per line -/

partial def loop (h : IO.FS.Stream) (out : IO.FS.Stream) (f : String → String) : IO Unit := do
  let line ← h.getLine
  if line.isEmpty then return ()
  let line := line.trimAsciiEnd.toString
  if !line.isEmpty then out.putStrLn (f line)
  loop h out f

def main (args : List String) : IO UInt32 := do
  let stdin ← IO.getStdin
  let stdout ← IO.getStdout
  match args with
  | [e] =>
    match Spok.Oracle.handlers.lookup e with
    | some f => loop stdin stdout f; return 0
    | none => IO.eprintln s!"oracle: unknown engine {e}"; return 2
  | _ => IO.eprintln "usage: oracle <engine>"; return 2
