"""glob engine plug-in: glob expansion through SpokFile.ExpandGlobs / doublestar.GlobWalk (C05)"""
from engine_base import Engine, _sections


def _parse(case):
    f = case.split()
    if len(f) < 4 or f[0] != "T" or f[2] != "P":
        return None
    es = [] if f[1] == "-" else f[1].split(",")
    return es, f[3]


def _second(case):
    f = case.split()
    for i in range(4, len(f) - 1, 2):
        if f[i] == "Q":
            return f[i + 1]
    return None


def _extras(case):
    """the optional `R <hex>` / `L <paths>` part of a case, as (root, links)"""
    f = case.split()
    root, links = None, []
    for i in range(4, len(f) - 1, 2):
        if f[i] == "R":
            root = f[i + 1]
        elif f[i] == "L":
            links = f[i + 1].split(",")

    return root, links


def _mk(es, pat):
    return "T %s P %s" % (",".join(es) if es else "-", pat)


class Glob(Engine):
    name = "glob"

    def compare_sections(self, prop):
        # SEQ: the expansion in the order spok stores it (`na` on both sides for patterns with `{`),
        # SET: the same, sorted and duplicate-free; directories included
        # LEG: doublestar.GlobWalk called directly with a callback answering SkipDir for hidden paths, against the walk
        #      model with the same callback (validates the modelled SkipDir behaviours on every run)
        return ["SET", "SEQ", "LEG", "SETQ"]

    def shrink_candidates(self, case):
        """drop entries of the tree (halves first, then single entries), then shorten paths, then drop pattern segments"""
        p = _parse(case)
        if p is None:
            return []
        es, pat = p
        root, links = _extras(case)
        q = _second(case)
        out = []

        def emit(es2, pat2, root2=root, links2=links, q2=q):
            # a link survives only while its entry (or something below it) is still in the tree
            have = set()
            for e in es2:
                parts = e[2:].split("/")
                for j in range(1, len(parts) + 1):
                    have.add("/".join(parts[:j]))
            ls = [l for l in links2 if l in have]
            c = _mk(es2, pat2) + ((" R " + root2) if root2 else "") + ((" L " + ",".join(ls)) if ls else "") + ((" Q " + q2) if q2 else "")
            if c != case and c not in out:
                out.append(c)

        if root:
            emit(es, pat, root2=None)
        if q:
            emit(es, pat, q2=None)
        for i in range(len(links)):
            emit(es, pat, links2=links[:i] + links[i + 1:])

        n = len(es)
        size = max(1, n // 2)
        while size >= 1 and n > 0:
            for i in range(0, n, size):
                emit(es[:i] + es[i + size:], pat)
            size //= 2
        for i, e in enumerate(es):  # replace an entry by its parent directory / drop a leading component
            k, path = e[:2], e[2:]
            if "/" in path:
                head, _, tail = path.partition("/")
                if all(not (o[2:] == tail or o[2:].startswith(tail + "/") or tail.startswith(o[2:] + "/")) for j, o in enumerate(es) if j != i):
                    emit(es[:i] + [k + tail] + es[i + 1:], pat)
        segs = pat.split("/")
        if len(segs) > 1:
            for i in range(len(segs)):
                p2 = "/".join(segs[:i] + segs[i + 1:])
                if "*" in p2:
                    emit(es, p2)
        return out[:400]

    def nontrivial_key(self, prop, rec):
        # a case exercises the property when the tree is not empty
        return rec[0] if not rec[0].startswith("T - P ") else None

    def histogram(self, prop, rec):
        p = _parse(rec[0])
        if p is None:
            return ["bad-case"]
        es, pat = p
        sec = _sections(rec[1])
        obs = sec.get("OBS", "?")
        out = ["tree-entries:" + ("0" if not es else "1-3" if len(es) <= 3 else "4-10" if len(es) <= 10 else "11+")]
        if obs == "notglob":
            out.append("not-a-glob")
        elif obs == "-":
            out.append("expansion:empty")
        else:
            toks = obs.split()
            out.append("expansion:" + ("1-2" if len(toks) <= 2 else "3-8" if len(toks) <= 8 else "9+"))
            if any(t.startswith("d:") for t in toks):
                out.append("expansion-has-directory")
            if len(set(toks)) != len(toks):
                out.append("expansion-has-duplicates")
        if any(e[2:].startswith(".") for e in es):
            out.append("tree:hidden-at-top-level")
        if any("/." in e for e in es):
            out.append("tree:hidden-nested")
        if any(e.startswith("d:") for e in es):
            out.append("tree:explicit-directory")
        out.append("pattern:" + ("doublestar" if "**" in pat.split("/") else "plain"))
        if "{" in pat:
            out.append("pattern:alternation")
        if "?" in pat:
            out.append("pattern:question-mark")
        root, links = _extras(rec[0])
        if root:
            out.append("project-directory:unusual-name")
        if links:
            out.append("tree:symbolic-links")
        if _second(rec[0]):
            out.append("second-pattern-in-the-same-spokfile")
        return out

    def rule(self, prop):
        return ("exhaustive (both tiers): every subset of the 10-path pool (top-level and nested files, dot-files and dot-directories at "
                "both levels, names sorting before and after '.') x 33 patterns, and every subset of an 8-entry pool of kinds (a regular "
                "file where a pattern expects a directory, empty directories, directories matching file patterns) x the same patterns; "
                "plus seeded random trees of <= 25 paths with random patterns from the grammar (3*10^3 quick, 2*10^4 thorough); the fixed tree under 12 unusual project-directory names (glob meta-characters, blanks, backslash, non-ASCII, hidden) and with each entry in turn realised as a symbolic link to a copy outside the project; a quarter of the random cases with such a name, a third with linked entries; corpus "
                "(D4 witnesses) first. Each case is a real temp tree expanded through parser -> file.New -> SpokFile.ExpandGlobs, three "
                "times (fresh, fresh, cached). non-trivial = distinct (tree, pattern) with a non-empty tree")


ENGINE = Glob()

GLOB_MODELLED = [
    "modelled, not verified: doublestar v4 outside the pattern subset (character classes, escapes, nested/empty alternatives, '***', "
    "'.'/'..' segments) and its globAltsWalk (alternations are matched per segment in the model; for patterns with '{' only the set of "
    "paths is compared, not their order); symbolic links are followed (a linked directory is a directory, a linked file a file: compared on generated trees, link loops not generated); the OS directory listing (os.ReadDir / fs.ReadDir sorted by name over os.DirFS); "
    "filepath.Abs/Join on the results",
]

PROPS = {
    "C05": {"engine": "glob", "extra_engines": ["env"], "extra_props": ["FactsGlob"], "modelled": GLOB_MODELLED,
            "assumptions": ["the tree is not modified while it is being expanded",
                            "reading fixed: a pattern segment that is followed by '/' denotes a directory, so 'sub/**' does not denote a regular file called 'sub' "
                            "(doublestar.Match alone says it does; GlobWalk, bash and the specification matcher say it does not)"]},
}
