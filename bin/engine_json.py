"""json engine plug-in: the byte level of the cache file — cache.Dump / cache.Load, i.e. encoding/json's Marshal of a
map[string]string, its validity scanner and Unmarshal — run as an extra engine of C10"""
from engine_base import Engine, _sections


class Json(Engine):
    name = "json"

    def compare_sections(self, prop):
        return ["ENC", "LOAD", "VALID", "BACK"]

    def shrink_candidates(self, case):
        f = case.split()
        out = []
        if f[0] == "M":
            n = int(f[1])
            kv = [(f[2 + 2 * i], f[3 + 2 * i]) for i in range(n)]
            cut = int(f[3 + 2 * n])

            def emit(kv2, cut2):
                out.append("M %d %s T %d" % (len(kv2), " ".join(k + " " + v for k, v in kv2), cut2) if kv2 else "M 0 T %d" % cut2)
            for i in range(n):
                for c in (cut, max(0, cut - 8), cut // 2):
                    emit(kv[:i] + kv[i + 1:], c)
            for i, (k, v) in enumerate(kv):
                for k2, v2 in ((k, "-"), (k[: max(2, len(k) // 2 // 2 * 2)], v), (k, v[: len(v) // 2 // 2 * 2] or "-")):
                    if (k2, v2) != (k, v) and k2 not in [x for j, (x, _) in enumerate(kv) if j != i]:
                        emit(kv[:i] + [(k2, v2)] + kv[i + 1:], cut)
            for c in (cut - 1, cut // 2, 0):
                if 0 <= c != cut:
                    emit(kv, c)
        elif f[0] in ("B", "Q") and f[1] != "-":
            h = f[1]
            n = len(h) // 2
            size = max(1, n // 2)
            while size >= 1 and len(out) < 1500:
                for i in range(0, n, size):
                    out.append(f[0] + " " + ((h[: 2 * i] + h[2 * (i + size):]) or "-"))
                    if len(out) >= 1500:
                        break
                size //= 2
        seen, res = set(), []
        for c in out:
            c = " ".join(c.split())
            if c != case and c not in seen:
                seen.add(c)
                res.append(c)
        return res[:600]

    def nontrivial_key(self, prop, rec):
        f = rec[0].split()
        if f[0] == "M":
            return rec[0] if int(f[1]) > 0 else None
        sec = _sections(rec[1])
        if f[0] == "B":
            return rec[0] if sec.get("VALID") == "1" or len(f[1]) > 8 else None
        return rec[0]

    def histogram(self, prop, rec):
        f = rec[0].split()
        sec = _sections(rec[1])
        out = ["kind:" + {"M": "dump-cut-load", "B": "raw-bytes-load", "Q": "string-marshal-unmarshal"}.get(f[0], "?")]
        if f[0] == "M":
            enc = sec.get("ENC", "-")
            n = 0 if enc == "-" else len(enc) // 2
            cut = int(f[-1])
            out.append("cut:" + ("whole-file" if cut >= n else "empty" if cut == 0 else "strict-prefix"))
            out.append("entries:%d" % min(int(f[1]), 4))
        if "LOAD" in sec:
            out.append("load:" + sec["LOAD"].split(" ")[0])
        if f[0] == "B":
            out.append("valid:" + sec.get("VALID", "?"))
        if f[0] == "Q":
            out.append("string:" + ("exact" if sec.get("BACK") == f[1] else "lossy (invalid UTF-8 replaced)"))
        return out

    def rule(self, prop):
        return ("json engine (byte level of .spok/cache.json, against lean/Spok/Json): (M) for fixed maps of every shape and seeded "
                "random maps (keys: ASCII and non-ASCII identifiers, empty, quotes, backslashes, controls, <>&, U+2028/9, invalid "
                "UTF-8; values: empty, digests, JSON-looking text) EVERY cut 0…len+1 of what the real Cache.Dump wrote is put on "
                "disk and read by the real cache.Load — compared with the model's bytes and the model's load, and judged: a strict "
                "prefix must be an error, the whole file must give back the map; (Q) every byte alone and in three contexts, pool and "
                "random strings through json.Marshal/Unmarshal vs encStr/unquote; (B) every string over a 21-symbol JSON alphabet up "
                "to length 4 (thorough 5), generated objects/values with white space, duplicates, nulls, escapes, surrogates, "
                "nesting, and mutations of well-formed cache files, depth-limit documents: json.Valid and cache.Load vs valid/load; "
                "non-trivial = non-empty map, valid or longer raw document, any string")


ENGINE = Json()
PROPS = {}
