"""find engine plug-in: spokfile discovery, file.Find (C17)"""
from engine_base import Engine, _sections

HEX = "0123456789abcdef"


def _parse(case):
    f = case.split()
    if len(f) < 6 or f[0] != "L" or f[2] != "S" or f[4] != "T":
        return None
    return f[1], int(f[3]), f[5]


def _opts(case):
    f = case.split()
    return " ".join(f[6:])


class Find(Engine):
    name = "find"

    def compare_sections(self, prop):
        return ["RES"]

    def shrink_candidates(self, case):
        """shorter chains first (drop a level), then simpler levels (fewer entries)"""
        p = _parse(case)
        if p is None:
            return []
        ks, s, stop = p
        n = len(ks)
        out = []
        if _opts(case):
            return []  # link / relative-start variants are small already (3 levels)

        def emit(ks2, s2, stop2):
            if not ks2 or s2 < 0 or s2 >= len(ks2):
                return
            if stop2 != "ROOT":
                j = int(stop2[1:])
                if j < 0 or j >= len(ks2):
                    return
            c = f"L {ks2} S {s2} T {stop2}"
            if c != case and c not in out:
                out.append(c)

        for i in range(n):  # drop level i
            ks2 = ks[:i] + ks[i + 1:]
            s2 = s - 1 if i < s or (i == s and s == n - 1) else s
            if stop in ("ROOT", "EXT"):
                emit(ks2, s2, stop)
            else:
                j = int(stop[1:])
                j2 = j - 1 if i < j or (i == j and j == n - 1) else j
                emit(ks2, s2, stop[0] + str(j2))
        for i in range(n):  # simplify level i
            k = HEX.index(ks[i])
            for k2 in (k & ~1, k & ~2, k & 3, 0):
                if k2 != k:
                    emit(ks[:i] + HEX[k2] + ks[i + 1:], s, stop)
        return out

    def nontrivial_key(self, prop, rec):
        return rec[0]

    def histogram(self, prop, rec):
        p = _parse(rec[0])
        if p is None:
            return ["bad-case"]
        ks, s, stop = p
        sec = _sections(rec[1])
        res = sec.get("RES", rec[1].strip() or "?").split(" ")[0]
        out = ["depth:%d" % len(ks), "result:" + res]
        if stop == "ROOT":
            out.append("stop:root")
        elif stop == "EXT":
            out.append("stop:target-of-linked-level")
        elif stop[0] == "U":
            out.append("stop:unrelated")
        else:
            j = int(stop[1:])
            out.append("stop:" + ("at-start" if j == s else "above-start" if j < s else "below-start"))
            if j < len(ks) and ks[j] == "0" and j == len(ks) - 1:
                out.append("stop-directory-empty")
        if any(HEX.index(c) // 4 == 2 for c in ks):
            out.append("has-directory-named-spokfile")
        if any(HEX.index(c) // 4 == 1 and HEX.index(c) % 2 == 1 for c in ks):
            out.append("entry-sorting-before-spokfile")
        o = _opts(rec[0])
        if "LN" in o:
            out.append("level-is-symbolic-link")
        if "REL" in o:
            out.append("relative-start")
        return out

    def rule(self, prop):
        return ("exhaustive (both tiers): every chain of 1-3 levels over 12 level kinds ({no spokfile, regular spokfile, directory "
                "named spokfile} x {no other entry, one sorting before, one after, both}) and every chain of 4 levels over the 8 "
                "reconnaissance kinds (thorough: over all 12), x every start level x stop in {each level, an unrelated directory next to each level, /}, "
                "each built as a real temp tree, file.Find called with an iteration budget and under the supervisor's timeout; "
                "every chain of 3 levels over the 8 kinds again with each level in turn a symbolic link to a directory elsewhere, and with "
                "every working directory at or above start and start given relative to it; "
                "corpus (D11 witnesses) first; non-trivial = distinct configuration")


ENGINE = Find()

FIND_MODELLED = [
    "modelled, not verified: os.ReadDir and filepath.Rel/Dir/Abs semantics on clean absolute paths (a directory = its component list, "
    "a listing = names with an is-directory bit); symlinked or unreadable levels and relative or unclean start/stop paths are not modelled; "
    "the temp directory the chains are built in is taken as one component below / (its real ancestors hold no spokfile)",
]

PROPS = {
    "C17": {"engine": "find", "extra_engines": ["cli"], "extra_props": ["FactsFind"], "modelled": FIND_MODELLED,
            "assumptions": ["start and stop are absolute, clean paths of existing readable directories (cli/app passes $CWD and $HOME); "
                            "reading fixed for a RELATIVE start (Find.findRel, Find.relSpec, theorem C17_rel_spec): the call terminates and finds the nearest "
                            "spokfile between start and the working directory, where the climb of a relative path ends"]},
}
