"""Per-engine knowledge the generic driver (bin/check) needs: which sections of the line protocol are
compared for which property, how a case is shrunk, what counts as a non-trivial case."""
import hashlib


class Engine:
    name = ""

    def compare_sections(self, prop):
        return []

    def canon(self, section, value):
        return value

    def shrink_candidates(self, case):
        return []

    def finding_key(self, prop, rec):
        return hashlib.sha1(rec[0].encode()).hexdigest()[:16]

    def nontrivial_key(self, prop, rec):
        return rec[0]

    def histogram(self, prop, rec):
        return []

    def rule(self, prop):
        return ""


def _sections(s):
    d = {}
    for part in s.split(" ; "):
        part = part.strip()
        if part:
            k, _, v = part.partition(" ")
            d[k] = v.strip()
    return d


