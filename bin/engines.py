"""Loads every engine plug-in bin/engine_<name>.py: each defines ENGINE (an engine_base.Engine) and
PROPS (property id -> {"engine": name, "modelled": [...], "assumptions": [...]})."""
import glob
import importlib
import os
import sys

_here = os.path.dirname(os.path.abspath(__file__))
sys.path.insert(0, _here)
ENGINES, PROPS = {}, {}
for _p in sorted(glob.glob(os.path.join(_here, "engine_*.py"))):
    _name = os.path.basename(_p)[:-3]
    if _name == "engine_base":
        continue
    try:
        _m = importlib.import_module(_name)
        ENGINES[_m.ENGINE.name] = _m.ENGINE
        PROPS.update(_m.PROPS)
    except Exception as _e:  # a broken plug-in must not take the other engines down
        print(f"engines: cannot load {_name}: {_e}", file=sys.stderr)
