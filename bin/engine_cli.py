"""cli engine plug-in: dispatch, process outcome, frame condition, reports (C09 C19 C20).

Binary level: every case is a sandbox tree + a short sequence of invocations of the real `spok` binary; the
observation has one value per invocation in every section (` / `-separated)."""
from engine_base import Engine, _sections


def _split_case(case):
    """-> (words before the S section, list of steps as word lists) or None"""
    w = case.split()
    try:
        i = 0
        assert w[i] == "T"
        n = int(w[i + 1])
        i += 2 + 4 * n
        assert w[i] == "P"
        i += 2
        assert w[i] == "W"
        i += 4
        assert w[i] == "V"
        n = int(w[i + 1])
        i += 2
        for _ in range(n):
            if w[i + 1] == "S":
                i += 3
            else:
                i += 3 + int(w[i + 2])
        assert w[i] == "K"
        n = int(w[i + 1])
        i += 2
        for _ in range(n):
            i += 2
            k = int(w[i])
            i += 1 + k
            k = int(w[i])
            i += 1 + k
            k = int(w[i])
            i += 1 + 5 * k
        assert w[i] == "S"
        n = int(w[i + 1])
        head = w[:i]
        i += 2
        steps = []
        for _ in range(n):
            j = i + 2
            k = int(w[j])
            j += 1 + k
            k = int(w[j])
            j += 1 + 2 * k
            steps.append(w[i:j])
            i = j
        assert i == len(w)
        return head, steps
    except (AssertionError, IndexError, ValueError):
        return None


def _join(head, steps):
    out = list(head) + ["S", str(len(steps))]
    for s in steps:
        out += s
    return " ".join(out)


def _per_step(value):
    return [v.strip() for v in (value or "").split(" / ")]


class Cli(Engine):
    name = "cli"
    SECT = {
        "C09": ["EXIT", "NAMED"],
        "C14": ["EXIT", "JS"],
        "C03": ["EXIT"],
        "C17": ["EXIT"],
        "C19": ["WR", "PROBE"],
        "C20": ["OUT", "JS", "OM", "TR", "VR", "EM", "CANON"],
    }

    def compare_sections(self, prop):
        return self.SECT[prop]

    def shrink_candidates(self, case):
        sp = _split_case(case)
        if sp is None:
            return []
        head, steps = sp
        out = []
        if len(steps) > 1:
            out.append(_join(head, steps[:-1]))          # drop the last invocation
            for i in range(len(steps) - 1):
                out.append(_join(head, steps[:i] + steps[i + 1:]))  # drop an earlier one
            for s in steps:
                out.append(_join(head, [s]))             # a single invocation
        for i, s in enumerate(steps):                    # drop the edits / the task names of one invocation
            k = int(s[2])
            if int(s[3 + k]) > 0:
                out.append(_join(head, steps[:i] + [s[:3 + k] + ["0"]] + steps[i + 1:]))
        seen, res = set(), []
        for c in out:
            if c != case and c not in seen:
                seen.add(c)
                res.append(c)
        return res

    def nontrivial_key(self, prop, rec):
        sec = _sections(rec[1])
        if prop == "C09":
            # some invocation in which a command really failed (the log is the witness)
            return rec[0] if any(v not in ("-", "") for v in _per_step(sec.get("NAMED"))) else None
        if prop == "C03":
            return rec[0] if any(v != "-" for v in _per_step(sec.get("LOG"))) else None
        if prop == "C17":
            return rec[0] if "home=" in rec[0] else None
        if prop == "C14":
            # a forced invocation that really executed something
            return rec[0] if ("force" in rec[0] or " f," in rec[0] or " f " in rec[0]) and any(v != "-" for v in _per_step(sec.get("LOG"))) else None
        if prop == "C19":
            # some invocation that got as far as touching the disk, or that completed its action
            ok = any(v != "-" for v in _per_step(sec.get("DIFF"))) or any(v == "0" for v in _per_step(sec.get("EXIT")))
            return rec[0] if ok else None
        # C20: some invocation produced a report / listing, or ran something
        ok = any(v not in ("empty", "") for v in _per_step(sec.get("OUT"))) or any(v != "-" for v in _per_step(sec.get("LOG")))
        return rec[0] if ok else None

    def histogram(self, prop, rec):
        sec = _sections(rec[1])
        out = []
        sp = _split_case(rec[0])
        if sp is not None:
            head, steps = sp
            out.append("invocations:%d" % len(steps))
            w = head[head.index("W") + 1: head.index("W") + 4] if "W" in head else []
            if len(w) == 3:
                out.append("spokfile:" + ("valid" if w[0] == "1" and w[1] == "1" else "syntax-error" if w[0] == "0" else "load-error"))
            for s in steps:
                flags = s[1]
                out.append("flags:" + ("plain" if flags == "-" else "+".join(sorted(f.split("=")[0] for f in flags.split(",")))))
                out.append("cwd:" + ("root" if s[0] == "proj" else "nested" if s[0].startswith("proj/") else "outside"))
                out.append("args:" + ("none" if s[2] == "0" else "tasks"))
        for v in _per_step(sec.get("EXIT")):
            out.append("exit:" + v)
        for v in _per_step(sec.get("OUT")):
            out.append("stdout:" + v)
        for v in _per_step(sec.get("WR")):
            if v != "-":
                for e in v.split(","):
                    out.append("write:" + e.rsplit("/", 1)[-1])
        for v in _per_step(sec.get("NAMED")):
            if v != "-":
                out.append("command-failed")
        for v in _per_step(sec.get("JS")):
            if v != "-" and " S - " not in v:
                out.append("json-with-skipped-task")
        return out

    def rule(self, prop):
        return {
            "C09": "seeded random spokfiles (1-4 tasks x 1-4 commands, commands failing with status 1..255 in requested tasks and in dependencies) x {plain, --quiet, --json, --force, ...} x cwd in {root, nested}, each case a sequence of 2-3 invocations of the real binary in a sandbox HOME; non-trivial = distinct case in which the side-effect log shows a failing command",
            "C03": "cli engine (the real binary) as extra engine of C03: seeded random spokfiles of 1-5 tasks with task dependencies, half of them with a user-defined `clean` task that depends on others, as sequences `run several names (closures overlap); --clean [names]; run [--force] names or the default task [; --clean --force names]`; judged from the side-effect log: every task at most once per invocation, nothing outside the closure of what the action asks for, dependencies first, nothing of the closure missing when all went well; non-trivial = distinct case in which commands ran",
            "C17": "cli engine (the real binary) as extra engine of C17: a valid spokfile in `proj`, every working directory of the sandbox x $HOME in {the sandbox root, proj, proj/sub, proj/sub/deep, an unrelated directory} x a listing action (--show / --vars): the invocation succeeds exactly when the model of Find (working directory upwards, not above $HOME) finds the spokfile; non-trivial = case with a $HOME inside the sandbox",
            "C14": "cli engine (the real binary): seeded random spokfiles (1-4 tasks with file dependencies, always a default task, nothing failing) as sequences `plain run; --force|-f (± --json/--quiet/--debug) with the same task names or none (the default task); plain run [; forced run]`, cwd in {root, nested}; judged from the side-effect log: every task of the forced closure executed, none reported skipped; non-trivial = distinct case whose forced invocation executed commands",
            "C19": "exhaustive: every subset of the nine boolean flags x {valid, syntax error, duplicate task, ...} spokfiles, one invocation each; plus seeded random trees x valid/invalid spokfiles x action flags x cwd in {root, nested, outside} as sequences of 1-3 invocations (fmt twice, init twice, run twice); non-trivial = distinct case in which an invocation completed its action or changed the sandbox",
            "C20": "seeded random spokfiles (1-5 tasks, 0-4 commands printing distinct markers to stdout/stderr, 0-5 variables incl. join(), docstrings, with/without a default task) x report flags, sequences of 1-3 invocations so that skipped tasks appear; non-trivial = distinct case with a report / listing on stdout or an executed command",
        }[prop]


ENGINE = Cli()

CLI_MODELLED = [
    "modelled, not verified: the mvdan/sh interpreter (commands are scripted: their stdout, stderr and exit status are known by construction and only builtins echo/printf/exit/true/false and redirections are used), text/template expansion of {{.NAME}}, encoding/json text (the harness parses stdout as exactly one JSON document and hands the judge a flattened form), tabwriter/colour output (ANSI stripped, rows re-split on blanks), godotenv, the FollowTheProcess/cli flag library, zap debug lines (dropped by timestamp), the OS process exit path",
    "the theorems of Props/%s.lean are decision tables over the model lean/Spok/App.lean; the weight of the claim is on the tie: the real binary run in a sandbox HOME against that model, and the judges of lean/Spok/Judge/Cli.lean evaluated on the binary's behaviour with ground truth from the side-effect log and the before/after snapshots",
]

PROPS = {
    "C09": {"engine": "cli", "extra_engines": ["run"], "extra_props": ["C01", "FactsRun"], "modelled": [m.replace("%s", "C09") for m in CLI_MODELLED],
            "assumptions": ["the cache clause (a failed task records nothing) is the theorem C09_failure_not_recorded of the run engine (Props/C01.lean); here it is observed end to end: a task that failed is executed again by the next invocation",
                            "generated commands are deterministic and have no side effect other than appending to the log outside the sandbox"]},
    "C19": {"engine": "cli", "extra_engines": ["env"], "extra_props": ["FactsClean", "FactsApp"], "modelled": [m.replace("%s", "C19") for m in CLI_MODELLED],
            "assumptions": ["task commands have no side effects inside the sandbox (they only append to a log outside it)",
                            "--clean is exercised only on spokfiles without declared outputs (which outputs are removed is C12)"]},
    "C20": {"engine": "cli", "extra_engines": ["env"], "extra_props": ["C20Json", "FactsReport", "FactsApp"], "modelled": [m.replace("%s", "C20") for m in CLI_MODELLED],
            "assumptions": ["--quiet --json together, and listings under --json (stream replaced by a null stream), are compared with the model only, not judged",
                            "the default-task clause is judged when the default task has commands and no file dependencies (otherwise a skip is indistinguishable in the log)"]},
}
