"""env engine plug-in: `spok --clean` (C12) and variables reaching commands (C13), binary-level.

A case is the flat word stream written by harness/cmd/vh-env (encode/decode there): arbitrary text hex-encoded,
the sandbox root written /S.  `vh-env show '<case>'` prints the spokfile, .env, environment and tree of a case."""
from engine_base import Engine, _sections


def _hx(s):
    return s.encode("latin-1").hex() if s else "-"


def _unhx(h):
    return "" if h == "-" else bytes.fromhex(h).decode("latin-1")


class _R:
    def __init__(self, words):
        self.w, self.i = words, 0

    def word(self):
        v = self.w[self.i]
        self.i += 1
        return v

    def num(self):
        return int(self.word())

    def lit(self, s):
        if self.word() != s:
            raise ValueError(s)


def parse_case(line):
    """-> dict with the raw (still hex) words grouped so that parts can be dropped and the case re-encoded"""
    r = _R(line.split())
    c = {"prop": r.word(), "judge": r.word()}
    r.lit("CWD")
    c["cwd"] = r.word()
    r.lit("AMB")
    c["amb"] = [(r.word(), r.word()) for _ in range(r.num())]
    r.lit("DOT")
    c["dot"] = [(r.word(), r.word()) for _ in range(r.num())]
    r.lit("TREE")
    c["tree"] = [(r.word(), r.word(), r.word()) for _ in range(r.num())]
    r.lit("STMTS")
    stmts = []
    for _ in range(r.num()):
        k = r.word()
        if k == "V":
            name, kind = r.word(), r.word()
            if kind == "S":
                body = [r.word()]
            elif kind == "J":
                n = r.num()
                body = [str(n)] + [r.word() for _ in range(n)]
            elif kind == "X":
                n = r.num()
                body = [str(n)] + [r.word() for _ in range(n)] + [r.word(), r.word()]
            else:
                raise ValueError(kind)
            stmts.append({"k": "V", "name": name, "kind": kind, "body": body})
        elif k == "T":
            t = {"k": "T", "name": r.word()}
            t["files"] = [r.word() for _ in range(r.num())]
            t["named"] = [r.word() for _ in range(r.num())]
            t["globs"] = []
            for _ in range(r.num()):
                pat = r.word()
                t["globs"].append((pat, [r.word() for _ in range(r.num())]))
            t["cmds"] = []
            for _ in range(r.num()):
                ck = r.word()
                if ck == "RAWC":
                    t["cmds"].append(["RAWC", r.word(), r.word(), r.word()])
                elif ck == "W":
                    words = []
                    for _ in range(r.num()):
                        pieces = []
                        for _ in range(r.num()):
                            pk = r.word()
                            if pk == "Q":
                                n = r.num()
                                pieces.append(["Q", str(n)] + [x for _ in range(n) for x in (r.word(), r.word())])
                            else:
                                pieces.append([pk, r.word()])
                        words.append(pieces)
                    t["cmds"].append(["W", words])
                else:
                    raise ValueError(ck)
            stmts.append(t)
        else:
            raise ValueError(k)
    if r.i != len(r.w):
        raise ValueError("trailing")
    c["stmts"] = stmts
    return c


def encode_case(c):
    w = [c["prop"], c["judge"], "CWD", c["cwd"], "AMB", str(len(c["amb"]))]
    for a, b in c["amb"]:
        w += [a, b]
    w += ["DOT", str(len(c["dot"]))]
    for a, b in c["dot"]:
        w += [a, b]
    w += ["TREE", str(len(c["tree"]))]
    for e in c["tree"]:
        w += list(e)
    w += ["STMTS", str(len(c["stmts"]))]
    for s in c["stmts"]:
        if s["k"] == "V":
            w += ["V", s["name"], s["kind"]] + s["body"]
            continue
        w += ["T", s["name"], str(len(s["files"]))] + s["files"] + [str(len(s["named"]))] + s["named"]
        w += [str(len(s["globs"]))]
        for pat, hits in s["globs"]:
            w += [pat, str(len(hits))] + hits
        w += [str(len(s["cmds"]))]
        for cmd in s["cmds"]:
            if cmd[0] == "RAWC":
                w += cmd
            else:
                w += ["W", str(len(cmd[1]))]
                for pieces in cmd[1]:
                    w += [str(len(pieces))]
                    for p in pieces:
                        w += p
    return " ".join(w)


class Env(Engine):
    name = "env"
    SECT = {
        "C12": ["ERR", "RAN", "CACHE", "AFTER"],
        "C13": ["LOAD", "VARS", "RUN", "CMDS"],
        "C05": ["ERR", "RAN", "CACHE", "AFTER"],
        "C20": ["LOAD", "VARS"],
        "C19": ["ERR", "RAN", "CACHE", "AFTER"],
    }

    def compare_sections(self, prop):
        return self.SECT[prop]

    def shrink_candidates(self, case):
        try:
            c = parse_case(case)
        except Exception:
            return []
        import copy
        out = []

        def emit(d):
            out.append(encode_case(d))

        protected_amb = {_hx("HOME"), _hx("PATH")}
        # a variable used by a bare {{.N}} / $N must keep its (shell-safe) definition, or the shrunk case leaves
        # the generated subset (an undefined bare reference prints "<no value>", which is not shell syntax)
        bare = set()
        for s in c["stmts"]:
            if s["k"] == "T":
                for cmd in s["cmds"]:
                    if cmd[0] == "W":
                        for pieces in cmd[1]:
                            for pc in pieces:
                                if pc[0] in ("R", "E"):
                                    bare.add(pc[1])
        for i in range(len(c["stmts"])):
            if c["stmts"][i]["k"] == "V" and c["stmts"][i]["name"] in bare:
                continue
            d = copy.deepcopy(c)
            del d["stmts"][i]
            if any(s["k"] == "T" for s in d["stmts"]):
                emit(d)
        for i, s in enumerate(c["stmts"]):
            if s["k"] != "T":
                continue
            for key in ("files", "named", "globs", "cmds"):
                for j in range(len(s[key])):
                    if key == "cmds" and len(s[key]) == 1:
                        continue
                    d = copy.deepcopy(c)
                    del d["stmts"][i][key][j]
                    emit(d)
        for key in ("tree", "dot", "amb"):
            for j in range(len(c[key])):
                if key == "amb" and c[key][j][0] in protected_amb:
                    continue
                d = copy.deepcopy(c)
                del d[key][j]
                emit(d)
        seen, res = set(), []
        for x in out:
            if x not in seen and x != case:
                seen.add(x)
                res.append(x)
        return res[:1500]

    def nontrivial_key(self, prop, rec):
        sec = _sections(rec[1])
        if prop in ("C12", "C05", "C19"):
            if sec.get("ERR") != "none" or sec.get("BEFORE") != sec.get("AFTER") or sec.get("CACHE0") != sec.get("CACHE"):
                return rec[0]
            return None
        if sec.get("LOAD") == "err":
            return rec[0]
        return rec[0] if sec.get("CMDS", "0") != "0" else None

    def histogram(self, prop, rec):
        sec = _sections(rec[1])
        out = []
        try:
            c = parse_case(rec[0])
        except Exception:
            return ["unparsable-case"]
        out.append("judged" if c["judge"] == "J" else "model-only")
        tasks = [s for s in c["stmts"] if s["k"] == "T"]
        if prop in ("C12", "C05", "C19"):
            out.append("outcome:" + sec.get("ERR", "?"))
            if any(_unhx(t["name"]) == "clean" for t in tasks):
                out.append("has-clean-task")
            if _unhx(c["cwd"]) != "a/home/proj":
                out.append("nested-cwd")
            nf = sum(len(t["files"]) for t in tasks)
            nn = sum(len(t["named"]) for t in tasks)
            ng = sum(len(t["globs"]) for t in tasks)
            out.append("outputs:" + ("0" if nf + nn + ng == 0 else "1-3" if nf + nn + ng <= 3 else "4-8" if nf + nn + ng <= 8 else "9+"))
            if nf:
                out.append("has-literal-output")
            if nn:
                out.append("has-named-output")
            if ng:
                out.append("has-glob-output")
                hits = sum(len(h) for t in tasks for _, h in t["globs"])
                out.append("glob-hits:" + ("0" if hits == 0 else "some"))
            lits = {_unhx(f) for t in tasks for f in t["files"]}
            if lits & {"", ".", "..", "sub/..", "./", "/"}:
                out.append("literal-designates-project-or-above")
            vals = [_unhx(s["body"][0]) for s in c["stmts"] if s["k"] == "V" and s["kind"] == "S"]
            if "" in vals:
                out.append("empty-variable")
            if sec.get("ERR") == "none" and sec.get("BEFORE") != sec.get("AFTER"):
                out.append("removed-something")
            if sec.get("ERR") == "none" and sec.get("BEFORE") == sec.get("AFTER"):
                out.append("removed-nothing-outside-cache")
        else:
            out.append("load:" + sec.get("LOAD", "?"))
            names = {s["name"] for s in c["stmts"] if s["k"] == "V"}
            if names & {a for a, _ in c["amb"]}:
                out.append("name-also-in-ambient")
            if names & {a for a, _ in c["dot"]}:
                out.append("name-also-in-dotenv")
            kinds = {s["kind"] for s in c["stmts"] if s["k"] == "V"}
            for k, lab in (("S", "string-var"), ("J", "join-var"), ("X", "exec-var")):
                if k in kinds:
                    out.append(lab)
            vals = [_unhx(s["body"][0]) for s in c["stmts"] if s["k"] == "V" and s["kind"] == "S"]
            if "" in vals:
                out.append("empty-variable")
            if any(any(ch in v for ch in "${}") for v in vals):
                out.append("value-with-dollar-or-brace")
            if any(v != v.strip() or "  " in v for v in vals):
                out.append("value-with-outer-or-double-blanks")
            seen_task = False
            for s in c["stmts"]:
                if s["k"] == "T":
                    seen_task = True
                elif seen_task:
                    out.append("variable-defined-after-a-task")
                    break
            ncmd = sum(len(t["cmds"]) for t in tasks)
            out.append("commands:" + ("1-4" if ncmd <= 4 else "5-9" if ncmd <= 9 else "10+"))
        return out

    def rule(self, prop):
        if prop == "C05":
            return ("env engine as extra engine of C05: `spok --clean` of the real binary on generated projects with OUTPUT globs (the C12 cases that have one, "
                    "incl. hidden entries, meta-characters in the sandbox path and in file names, a spokfile that is a symbolic link into another directory): "
                    "the tree afterwards is the tree before minus exactly the matching non-hidden entries (and the other designated outputs)")
        if prop == "C20":
            return ("env engine as extra engine of C20: `--vars` of the real binary on generated spokfiles with string, join(…) and exec(…) variables "
                    "(incl. the same exec text twice, 70 kB outputs, pipelines): the listing shows every variable with the model's evaluated value")
        if prop == "C19":
            return ("env engine as extra engine of C19: `spok --clean` of the real binary on the C12 cases (literal, named and glob outputs, outputs that are "
                    "symbolic links, protected targets, a user-defined clean task): the snapshot diff is exactly what the action allows")
        if prop == "C12":
            return ("corpus (D8 witnesses) + every pool element on its own against the full tree (literal, variable, join(...), glob outputs; "
                    "± clean task) + seeded random projects (random trees with files inside/outside outputs, nested, missing outputs, a sibling "
                    "directory and files above the project; 0-5 outputs of each kind incl. '', '.', '..', 'sub/..', directories, globs matching "
                    "nothing/something/everything, variables and join(...); ± a clean task; nested cwd, undefined names and outputs below a "
                    "regular file are compared with the model only); non-trivial = distinct case in which the run failed or the tree changed")
        return ("corpus (D9 witness) + seeded random spokfiles: 1-5 variables (string / join / exec, some redefined, names colliding with "
                "ambient and .env names), 1-2 tasks at random positions with echo commands mixing bare text, {{.N}}, '...{{.N}}...', \"$N\" and $N, "
                "one environment probe per variable, failing exec; non-trivial = distinct case that failed to load or ran at least one command")


ENGINE = Env()

ENV_MODELLED = [
    "modelled, not verified: text/template outside the subset text + {{.NAME}} (rejected by the model, never generated); mvdan/sh word "
    "expansion (only: bare safe text, '...' literal, \"$N\" / $N lookup with the last duplicate winning, an empty unquoted word vanishes, echo); "
    "godotenv parsing (only NAME=value lines without quoting) and its no-override rule; os.RemoveAll / os.Stat as operations on a finite map "
    "(no symlinks, no permissions); Go's filepath Clean/Join/Abs/Rel re-implemented lexically in Lean and compared through the binary "
    "(join(...) via --vars, --clean targets via the snapshot); doublestar's walk is an input of the model (the reference expansion "
    "computed by the harness's own matcher), tabwriter/ANSI output canonicalised away",
]

PROPS = {
    "C12": {"engine": "env", "extra_props": ["FactsClean"], "modelled": ENV_MODELLED, "assumptions": [
        "spok --clean is invoked from the directory of the spokfile (from nested directories a relative variable output is resolved "
        "against the working directory: compared with the model, not judged)",
        "the user's clean task only prints (the judge attributes every removal to spok itself)",
        "an output below a regular file (os.Stat / os.RemoveAll: ENOTDIR) designates nothing and is skipped (repair 85950c0); judged like any other case",
        "no symlinks, no permission failures, a valid or absent cache file",
    ]},
    "C13": {"engine": "env", "modelled": ENV_MODELLED, "assumptions": [
        "variable names are ASCII letters and '_' ; values printable ASCII without quotes and newlines",
        "commands are `echo` lines over the modelled shell subset, all builtins of mvdan/sh (nothing is exec'ed from PATH)",
        "exec(...) commands come from a pool whose raw output is re-observed by running the same command as a task command",
    ]},
}
