"""run engine plug-in: the cache/skip state machine of SpokFile.run (C01 C02 C10 C14)"""
from engine_base import Engine, _sections


def _events(case):
    w = case.split()
    return w[0], w[1:]


def _binary(case):
    """T<k>b …: the history is run against the real binary (one process per invocation, kills are SIGKILLs)"""
    return case.split(" ", 1)[0].endswith("b")


class Run(Engine):
    name = "run"
    # the observables of every invocation of the history: reported results, Runner calls, error class, cache file
    SECT = ["RES", "EXEC", "ERR", "CACHE"]

    def __init__(self):
        super().__init__()
        # counted in histogram() (called once per case of the main run), reported by rule()
        self.n_binary = 0
        self.n_binary_killed = 0
        self.n_binary_invocations = 0

    def compare_sections(self, prop):
        return self.SECT

    def shrink_candidates(self, case):
        tpl, evs = _events(case)
        out = []
        # drop events (chunks first, then single events)
        n = len(evs)
        size = max(1, n // 2)
        while size >= 1:
            for i in range(0, n, size):
                c = evs[:i] + evs[i + size:]
                if any(e.startswith("r.") for e in c):
                    out.append(c)
            size //= 2
        # simplify single run events: drop a task, drop the crash, drop --force
        for i, e in enumerate(evs):
            if not e.startswith("r."):
                continue
            _, tasks, force, crash = e.split(".", 3)
            if len(tasks) > 1:
                for j in range(len(tasks)):
                    out.append(evs[:i] + [f"r.{tasks[:j] + tasks[j + 1:]}.{force}.{crash}"] + evs[i + 1:])
            if crash != "-":
                out.append(evs[:i] + [f"r.{tasks}.{force}.-"] + evs[i + 1:])
            if force == "1":
                out.append(evs[:i] + [f"r.{tasks}.0.{crash}"] + evs[i + 1:])
        seen, res = set(), []
        for c in out:
            s = " ".join([tpl] + c)
            if s not in seen and s != case:
                seen.add(s)
                res.append(s)
        return res[:1500]

    def nontrivial_key(self, prop, rec):
        sec = _sections(rec[1])
        res, cr = sec.get("RES", ""), sec.get("CR", "")
        _, evs = _events(rec[0])
        edits = any(e[0] in "wd" for e in evs)
        forced = any(e.startswith("r.") and e.split(".")[2] == "1" for e in evs)
        crashed = any(x.strip() not in ("-", "") for x in cr.split("/"))
        if prop in ("C01", "C02"):
            return rec[0] if (":S" in res and edits) else None
        if prop == "C10":
            return rec[0] if crashed else None
        if prop == "C14":
            return rec[0] if (forced and ":S" in res) else None
        if prop == "C09":
            return rec[0] if ":0" in sec.get("EXEC", "") else None
        return rec[0]

    def histogram(self, prop, rec):
        sec = _sections(rec[1])
        tpl, evs = _events(rec[0])
        out = ["template:" + tpl.rstrip("b")]
        runs = [e for e in evs if e.startswith("r.")]
        binary = _binary(rec[0])
        out.append("mode:binary" if binary else "mode:in-process")
        if binary:
            kills = [x.strip() for x in sec.get("CR", "").split("/") if x.strip() not in ("-", "")]
            self.n_binary += 1
            self.n_binary_invocations += len(runs)
            if kills:
                self.n_binary_killed += 1
                out.append("binary-history-with-SIGKILL")
            for x in kills:
                out.append("binary-kill:" + {"K": "during-command", "B": "before-write", "T": "torn-write", "A": "after-write", "E": "write-error(no kill)"}.get(x[0], "?"))
        out.append("events:" + ("1-4" if len(evs) <= 4 else "5-8" if len(evs) <= 8 else "9+"))
        out.append("invocations:" + (str(len(runs)) if len(runs) <= 4 else "5+"))
        res = sec.get("RES", "")
        for lab, pat in (("has-skip", ":S"), ("has-failed-task", ":F")):
            if pat in res:
                out.append(lab)
        if any(e.split(".")[2] == "1" for e in runs):
            out.append("has-force")
        if any(len(e.split(".")[1]) > 1 for e in runs):
            out.append("has-multi-task-run")
        if "c" in evs:
            out.append("has-cache-removal")
        for x in sec.get("CR", "").split("/"):
            x = x.strip()
            if x and x != "-":
                out.append("kill:" + {"K": "during-command", "B": "before-write", "T": "torn-write", "A": "after-write", "E": "write-error(no kill)"}.get(x[0], "?"))
        for x in sec.get("ERR", "").split("/"):
            x = x.strip()
            if x in ("cache", "other", "panic", "bad"):
                out.append("err:" + x)
        if "corrupt" in sec.get("CACHE", ""):
            out.append("cache-corrupt-seen")
        return sorted(set(out))

    def rule(self, prop):
        base = ("histories over {write v1/v2, delete, remove .spok, toggle a task's failure, run a subset of tasks ± --force, "
                "kill at a crash point, make the j-th write of the cache file fail with an error (file untouched), toggle a command's side effect (it overwrites a file when it runs)} on 10 spokfile templates (1-3 tasks; literal, glob, task dependencies, a dependency-less "
                "task, shared files, a file matched twice, a directory among the glob matches, a missing literal); corpus "
                "(D1 witnesses) + ALL histories of depth 4 ending in a run on two or three templates (depth 5 in thorough) + "
                "kill-point enumeration (every VerifPoint before/after every cache write, torn writes, Runner panics) + seeded "
                "random histories of depth ≤ 12; ")
        if prop in ("C10", "C01"):
            base += ("BINARY MODE (cases `T<k>b`, same line protocol, same judges and comparison): the same kind of history with "
                     "every invocation a process of the real binary $VERIF_BUILD/spok (--debug --json, sandbox HOME, PATH holding "
                     "only kill, NO_COLOR=1), kills being real SIGKILLs (`kill -9 $$` from inside the j-th command; "
                     "SPOK_VERIF_CRASH=k ± SPOK_VERIF_TEAR=n at the dump:before/dump:after points), task failure by a flag file "
                     "outside the project, EXEC from a side-effect log, ERR from the exit status (+ the 'Could not load spok cache' "
                     "prefix), the cache file read back: on templates 1 and 2 `[run] edit [run killed at K1 K2 / every point k "
                     "± torn 0, 9, half, full] revert [run]` ± --force and ± only one task requested, the same killed run after "
                     "cache removal and in a fresh project (C10 thorough: all of them; otherwise a seed-dependent stride), plus "
                     "seeded random binary histories of ≤ 8 events over all templates; "
                     f"in this check {self.n_binary} binary-mode histories ran ({self.n_binary_invocations} processes), "
                     f"{self.n_binary_killed} of them with ≥ 1 real SIGKILL; ")
        return base + {
            "C01": "non-trivial = distinct history with ≥ 1 reported skip and ≥ 1 edit",
            "C02": "non-trivial = distinct history with ≥ 1 reported skip and ≥ 1 edit (crash-free histories are judged, others are na)",
            "C10": "non-trivial = distinct history in which a kill actually happened (the crash point was reached)",
            "C14": "non-trivial = distinct history with a forced invocation and ≥ 1 reported skip elsewhere",
            "C09": "run engine as extra engine of C09: failing tasks with and without write errors of the cache file and kills, all histories of depth 4 on two templates; judged: the results never contradict what ran, a failed task is never skipped later; non-trivial = distinct history in which a command failed",
        }.get(prop, "")


ENGINE = Run()

RUN_MODELLED = [
    "side effects of commands: a command may overwrite files (x events, in-process mode); every task is judged on the inputs it SAW when its turn came (reference snapshots after every Runner call), and for a task whose own command rewrites its own dependencies the inputs of its 'last success' are by convention those it saw before running; not modelled: files created or removed by commands during a run (glob expansions are taken once, before the first task), concurrent spok processes on one project",
    "modelled: write(2)/os.WriteFile atomicity as 'any prefix of the new contents may be what is on disk' (truncate, then write, as two micro-steps); directory creation and the .gitignore/CACHEDIR.TAG writes of cache.Init are not crash points; a write ERROR of the cache file (injected through the verif hook: the file cannot be opened for writing and stays as it was) is, for the file and for everything later, an invocation that ends just before that write, reported as an error instead of a kill",
    "SHA-256 / hash.Concurrent is a parameter `digest` of the model (never assumed injective: conclusions are '… or an explicit collision'); the oracle instantiates it with an injective code of the item list and the harness maps the real digests it computes with hash.New() to the same codes",
    "modelled: run order (dag.Sort) is observed and handed to the model as an oracle argument; glob expansion is compared against reference code of the harness through the digests found in .spok/cache.json",
]
RUN_BINARY = [
    "binary mode (C10, sample for C01): SIGKILL of the real process; what differs from the in-process runs is observed, not modelled: an invocation with a failing command prints no JSON document (exit status 1, 'Command … exited with status n'), so for those invocations the skipped tasks are inferred (in the closure, not in the side-effect log) and judged like reported skips; the run order of a killed invocation is read from the --debug log on stderr; torn writes are the n-byte prefixes written by the verif hook of the binary itself (SPOK_VERIF_TEAR), not a write(2) interrupted by the kernel",
]
RUN_JSON = [
    "byte level of the cache file (lean/Spok/Json, engine json): encoding/json's scanner, string encoder, unquote and the map[string]string decoding are transliterated by hand and compared with the real cache.Dump/cache.Load; UTF-8 re-encoding of a valid rune is taken to give back its bytes",
]
RUN_ASSUME = [
    "one spok process per project at a time; commands may overwrite existing files but do not create or remove dependency files during a run; the spokfile is not edited within a history",
    "a Runner error (as opposed to a non-zero exit status) is not part of the modelled universe",
]

PROPS = {
    "C01": {"engine": "run", "modelled": RUN_MODELLED + RUN_BINARY, "assumptions": RUN_ASSUME, "extra_props": ["C01Sha", "FactsRun"]},
    "C02": {"engine": "run", "modelled": RUN_MODELLED, "assumptions": RUN_ASSUME, "extra_props": ["FactsRun"]},
    "C10": {"engine": "run", "modelled": RUN_MODELLED + RUN_BINARY + RUN_JSON, "assumptions": RUN_ASSUME, "extra_engines": ["json"], "extra_props": ["C10Json", "FactsRun"]},
    "C14": {"engine": "run", "modelled": RUN_MODELLED + ["binary level (engine cli): flag parsing and dispatch of cli/app (which invocations are forced: --force/-f with task names, with the default task) are observed on the real binary and judged from the side-effect log; the decision table is the cli model of C19/C20"], "assumptions": RUN_ASSUME, "extra_engines": ["cli"], "extra_props": ["FactsRun"]},
}
