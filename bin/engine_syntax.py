"""syntax engine plug-in: lexer, parser, printer (C06 C07 C08 C11 C15 C16)"""
from engine_base import Engine, _sections


class Syntax(Engine):
    name = "syntax"
    SECT = {
        "C16": ["LEX"],
        "C08": ["LEX", "PARSE", "BPARSE"],
        "C07": ["PARSE", "PRINT", "REPARSE"],
        "C11": ["PARSE", "PRINT", "REPARSE", "REPRINT"],
        "C15": ["PARSE", "PRINT", "REPARSE"],
        "C06": ["PARSE", "PRINT"],
    }

    def compare_sections(self, prop):
        return self.SECT[prop]

    def shrink_candidates(self, case):
        fields = case.split(" ", 1)
        if len(fields) > 1:
            return []  # a Spec × Layout case carries its expected tree; not shrunk
        h = fields[0]
        if h == "-":
            return []
        b = bytes.fromhex(h)
        out = []
        n = len(b)
        size = max(1, n // 2)
        # (bounded: a 70 kB input must not make 140 000 candidates of 140 kB each)
        while size >= 1 and len(out) < 2000:
            for i in range(0, n, size):
                c = b[:i] + b[i + size:]
                out.append(c.hex() if c else "-")
                if len(out) >= 2000:
                    break
            size //= 2
        seen, res = set(), []
        for c in out:
            if c not in seen and c != h:
                seen.add(c)
                res.append(c)
        return res[:2000]

    def nontrivial_key(self, prop, rec):
        sec = _sections(rec[1])
        lex = sec.get("LEX", "")
        parse = sec.get("PARSE", "")
        if prop == "C16":
            return rec[0] if lex.count(" ") >= 2 else None
        if prop == "C08":
            return rec[0] if (parse.startswith("err") or lex.count(" ") >= 2) else None
        if prop in ("C07", "C11", "C15", "C06"):
            return rec[0] if (parse.startswith("ok ") and not parse.startswith("ok 0")) else None
        return rec[0]

    def histogram(self, prop, rec):
        sec = _sections(rec[1])
        parse = sec.get("PARSE", "?")
        kind = parse.split(" ", 1)[0]
        out = ["parse:" + kind]
        if kind == "ok":
            n = parse.split(" ")[1] if " " in parse else "0"
            out.append("nodes:" + (n if n in ("0", "1", "2", "3") else "4+"))
            for w, lab in ((" T ", "has-task"), (" C ", "has-comment"), (" F ", "has-call")):
                if w in parse:
                    out.append(lab)
        ntok = sec.get("LEX", "").count(" ") + 1
        out.append("tokens:" + ("1" if ntok <= 1 else "2-5" if ntok <= 5 else "6-20" if ntok <= 20 else "21+"))
        h = rec[0].split(" ")[0]
        if "0d0a" in h:
            out.append("has-crlf")
        if any(x in h for x in ("c3", "e4", "ff", "e2")):
            out.append("has-non-ascii")
        return out

    def rule(self, prop):
        return {
            "C16": "exhaustive class-alphabet strings (25 symbols, length ≤ 4 quick / ≤ 5 thorough) + seeded random symbol strings, generated programs, their mutations and all prefixes of a sample; non-trivial = distinct input whose token stream has ≥ 3 tokens",
            "C08": "same malformed-dominated stream as C16; non-trivial = distinct input that ends in a syntax error or lexes to ≥ 3 tokens",
            "C06": "seeded Spec × Layout generator restricted to the admissible-layout table (DESIGN §7.5), each case carries the generating structure; non-trivial = distinct input that parses to ≥ 1 node",
        }.get(prop, "class-alphabet strings (length ≤ 3), Spec × Layout programs inside and slightly outside the admissible layouts, mutated programs, random symbol strings; non-trivial = distinct input that parses to ≥ 1 node (so that print / re-parse are exercised)")


ENGINE = Syntax()

SYNTAX_MODELLED = [
    "modelled, not verified: the two-goroutine hand-off between lexer and parser (a lazily read token list), Go's utf8 decoder and unicode tables (re-implemented / regenerated), error message wording (only the cited line and the quoted context are compared)",
]

PROPS = {
    "C06": {"engine": "syntax", "modelled": SYNTAX_MODELLED},
    "C07": {"engine": "syntax", "modelled": SYNTAX_MODELLED},
    "C08": {"engine": "syntax", "modelled": SYNTAX_MODELLED},
    "C11": {"engine": "syntax", "modelled": SYNTAX_MODELLED},
    "C15": {"engine": "syntax", "modelled": SYNTAX_MODELLED},
    "C16": {"engine": "syntax", "modelled": SYNTAX_MODELLED},
}
