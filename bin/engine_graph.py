"""graph engine plug-in: task selection and ordering of one run (C03)"""
from engine_base import Engine, _sections


_memo = {}


def _parse_case(case):
    hit = _memo.get(case)
    if hit is not None:
        return hit
    if len(_memo) > 4:
        _memo.clear()
    res = _parse_case_uncached(case)
    _memo[case] = res
    return res


def _parse_case_uncached(case):
    sec = _sections(case)
    defs = []
    for w in sec.get("TASKS", "").split():
        if w == "-":
            continue
        name, _, ds = w.partition(":")
        defs.append((name, [d for d in ds.split(",") if d]))
    lst = lambda k: [w for w in sec.get(k, "").split() if w != "-"]  # noqa: E731
    rep = sec.get("REP", "0")
    if lst("VARS"):
        rep += " ; VARS " + " ".join(lst("VARS"))   # carried through shrinking unchanged
    return defs, lst("REQ"), lst("FAIL"), rep


def _show(defs, req, fail, rep):
    sl = lambda l: " ".join(l) if l else "-"  # noqa: E731
    return "TASKS %s ; REQ %s ; FAIL %s ; REP %s" % (sl([n + ":" + ",".join(d) for n, d in defs]), sl(req), sl(fail), rep)


class Graph(Engine):
    name = "graph"

    def compare_sections(self, prop):
        # exact: the model is run with the observed order as its iteration-order oracle and must reproduce it
        return ["OUTCOME", "ORDER", "RESULTS"]

    def shrink_candidates(self, case):
        defs, req, fail, rep = _parse_case(case)
        out = []
        for i in range(len(defs)):  # drop a definition
            out.append(_show(defs[:i] + defs[i + 1:], req, fail, rep))
        for i, (n, ds) in enumerate(defs):  # drop one dependency
            for j in range(len(ds)):
                nd = defs[:i] + [(n, ds[:j] + ds[j + 1:])] + defs[i + 1:]
                out.append(_show(nd, req, fail, rep))
        for i in range(len(req)):
            if len(req) > 1:
                out.append(_show(defs, req[:i] + req[i + 1:], fail, rep))
        for i in range(len(fail)):
            out.append(_show(defs, req, fail[:i] + fail[i + 1:], rep))
        seen, res = set(), []
        for c in out:
            if c not in seen and c != case:
                seen.add(c)
                res.append(c)
        return res

    def finding_key(self, prop, rec):
        import hashlib
        defs, req, fail, _ = _parse_case(rec[0])
        return hashlib.sha1(_show(defs, req, fail, "0").encode()).hexdigest()[:16]

    def nontrivial_key(self, prop, rec):
        # distinct (dependency graph, request, failing set): the repetition counter and the order in which definitions
        # and dependencies are written do not make a case distinct. non-trivial = ≥ 2 tasks defined, non-empty request
        defs, req, fail, _ = _parse_case(rec[0])
        if len(defs) < 2 or not req:
            return None
        canon = sorted((n, sorted(d)) for n, d in defs)
        return _show(canon, req, sorted(fail), "0")

    def histogram(self, prop, rec):
        defs, req, fail, _ = _parse_case(rec[0])
        sec = _sections(rec[1])
        out = ["outcome:" + sec.get("OUTCOME", "?")]
        out.append("tasks:%d" % len(defs) if len(defs) <= 4 else "tasks:5-8")
        edges = sum(len(d) for _, d in defs)
        out.append("edges:" + ("0" if edges == 0 else "1-2" if edges <= 2 else "3-5" if edges <= 5 else "6-9" if edges <= 9 else "10+"))
        out.append("requested:%d" % len(req))
        ran = [w for w in sec.get("ORDER", "").split() if w != "-"]
        out.append("ran:" + ("0" if not ran else "1" if len(ran) == 1 else "2-3" if len(ran) <= 3 else "4+"))
        if any(n in d for n, d in defs):
            out.append("has-self-loop")
        if fail:
            out.append("has-failing-task")
        names = [n for n, _ in defs]
        if len(set(names)) != len(names):
            out.append("has-duplicate-definition")
        if any(x not in names for _, d in defs for x in d) or any(r not in names for r in req):
            out.append("mentions-undefined-name")
        if len(ran) > len(set(req)):
            out.append("ran-transitive-dependencies")
        return out

    def rule(self, prop):
        return ("corpus (D2 witnesses), then exhaustive: every dependency graph over ≤ 3 tasks and every graph over 4 tasks with ≤ 5 edges "
                "(self-loops included; thorough: all 2^16 graphs over 4 tasks) × request lists of length ≤ 2 (thorough ≤ 3) over the defined "
                "names and an undefined one, each run 3× (thorough up to 20×) with the definition / dependency order varied so that the "
                "depth-first closure and Go's map iteration order vary; plus undefined-dependency, duplicate-definition and failing-command "
                "variants and seeded random graphs over 3–8 tasks; non-trivial = distinct (table, request, failing set) with ≥ 2 tasks")


ENGINE = Graph()

GRAPH_MODELLED = [
    "modelled, not verified: github.com/FollowTheProcess/collections dag/set/queue (AddVertex, AddEdge, Kahn's algorithm in Sort are "
    "re-implemented in lean/Spok/Graph.lean from the vendored source), Go map/set iteration order (an oracle argument; theorems hold "
    "for every oracle; the correspondence run feeds the observed order back as the oracle and requires the model to reproduce it exactly)",
    "modelled: the recursive closure visit() of buildGraph as its explicit call stack; error message wording (only the error class is compared)",
]

PROPS = {
    "C03": {
        "extra_engines": ["cli"],
        "engine": "graph",
        "modelled": GRAPH_MODELLED,
        "assumptions": [
            "forced runs of tasks with one command and no file dependencies (skipping is the subject of C01/C02/C14, not of C03)",
            "a failing command is a non-zero exit status reported by the shell.Runner, not an error returned by the Runner itself",
            "SpokFile.Run is never called with an empty request by the CLI (it substitutes the default action); on an empty request "
            "Run reports dag.Sort's error for the empty graph and runs nothing, which the judge accepts",
        ],
    },
}
