"""hash engine plug-in: the digest function and the worker pool of hash/hash.go (C04 C18)"""
import re

from engine_base import Engine, _sections


def _parse(case):
    """-> (head fields, [(label, [entry tokens])]) for a grp case, else None"""
    w = case.split()
    if len(w) < 6 or w[0] != "grp":
        return None
    head, rest, vs = w[:6], w[6:], []
    while rest:
        label, _, n = rest[0].rpartition(":")
        try:
            n = int(n)
        except ValueError:
            return None
        vs.append((label, rest[1:1 + n]))
        rest = rest[1 + n:]
    return head, vs


def _unparse(head, vs):
    out = list(head)
    for label, es in vs:
        out.append(f"{label}:{len(es)}")
        out.extend(es)
    return " ".join(out)


class Hash(Engine):
    name = "hash"

    def compare_sections(self, prop):
        # OUT: per variant the set of outcomes (digest byte for byte / error); SHA: the SHA-256 self-test
        return ["OUT", "SHA"]

    def shrink_candidates(self, case):
        p = _parse(case)
        if p is None:
            return []
        head, vs = p
        out = []
        if len(vs) > 2:
            for i in range(1, len(vs)):
                out.append(_unparse(head, [vs[0], vs[i]]))
        if len(vs) > 1:
            out.append(_unparse(head, [vs[0]]))
            for i in range(1, len(vs)):
                out.append(_unparse(head, [("base", vs[i][1])]))
        # drop one entry from every variant that has it (keeps the variants related)
        if len(vs) <= 2:
            seen = []
            for _, es in vs:
                for e in es:
                    if e not in seen:
                        seen.append(e)
            if len(seen) <= 40:
                for e in seen:
                    out.append(_unparse(head, [(lab, [x for x in es if x != e]) for lab, es in vs]))
        # halve every variant's list (long lists)
        if any(len(es) > 8 for _, es in vs):
            out.append(_unparse(head, [(lab, es[:len(es) // 2]) for lab, es in vs]))
            out.append(_unparse(head, [(lab, es[len(es) // 2:]) for lab, es in vs]))
        # fewer repetitions
        m = re.match(r"r=(\d+)$", head[3])
        if m and int(m.group(1)) > 4:
            out.append(_unparse(head[:3] + ["r=%d" % (int(m.group(1)) // 2)] + head[4:], vs))
        # plain run: no sub-process, no race build
        plain = [re.sub(r"^c=\d+$", "c=0", re.sub(r"^x=\d+$", "x=0", h)) for h in head]
        if plain != head:
            out.append(_unparse(plain, vs))
        res, s = [], set()
        for c in out:
            if c != case and c not in s:
                s.add(c)
                res.append(c)
        return res[:400]

    def nontrivial_key(self, prop, rec):
        p = _parse(rec[0])
        if p is None:
            return None
        head, vs = p
        if not vs or (len(vs) == 1 and not vs[0][1]):
            return None
        # the shape without the schedule seed
        return _unparse([h for h in head if not h.startswith("y=")], vs)

    def histogram(self, prop, rec):
        p = _parse(rec[0])
        if p is None:
            return ["kind:sha-selftest"]
        head, vs = p
        hd = dict(h.split("=", 1) for h in head[1:])
        n = len(vs[0][1]) if vs else 0
        out = ["kind:group", "gomaxprocs:" + hd.get("g", "?"), "cpus:" + ("all" if hd.get("c") == "0" else hd.get("c", "?")),
               "race-build:" + hd.get("x", "0"),
               "base-size:" + ("0" if n == 0 else "1" if n == 1 else "2-7" if n <= 7 else "8-64" if n <= 64 else "65+")]
        kinds = {e[0] for _, es in vs for e in es}
        for k, lab in (("d", "has-directory"), ("m", "has-missing"), ("l", "has-dangling-link"), ("n", "has-parent-is-file"), ("v", "has-vanishing"), ("r", "has-read-error")):
            if k in kinds:
                out.append(lab)
        for lab in sorted({lab for lab, _ in vs[1:]}):
            out.append("variant:" + lab)
        if vs and len(set(vs[0][1])) < len(vs[0][1]):
            out.append("has-duplicate-path")
        o = _sections(rec[1]).get("OUT", "")
        if "E" in o.replace(",", " ").split():
            out.append("outcome:error")
        if "D:" in o:
            out.append("outcome:digest")
        return out

    def rule(self, prop):
        if prop == "C04":
            return ("groups = base list + variants, each variant hashed r times by the real hash.New().Hash on a fresh temp tree under "
                    "seeded schedule perturbation; space: every permutation of 17 hand-built base lists (prefix/concatenation names, empty "
                    "files, equal contents, nested dirs, directories and duplicates; ≤5 entries quick, ≤7 thorough), all one-edit "
                    "neighbours (content, rename, add, remove, content swap, directory insertion), sizes 0…4·NumCPU, NumCPU∈{1,2,3} by "
                    "CPU affinity, a long list, seeded random collections; non-trivial = distinct group shape (seed ignored) with a non-empty list or ≥2 variants")
        return ("groups as for C04; space: a missing / dangling-link / parent-is-a-file / vanishing entry at every position of lists ≤6 × "
                "GOMAXPROCS∈{1,2,4,16}, multiple and duplicate faults, sizes 0…4·NumCPU with and without a fault, one path many times, "
                "directories only, restricted CPU sets, thousands of entries, seeded random lists with faults; crashes/hangs observed "
                "through child processes, goroutine count before/after every call; thorough repeats the shapes in a -race build; "
                "non-trivial = distinct group shape (seed ignored)")


ENGINE = Hash()

HASH_MODELLED = [
    "modelled, not verified: Go runtime scheduling and the Go memory model (the pool is a transition system over rendezvous steps; data-race "
    "freedom is not expressible — supported by -race runs in the thorough tier, goroutine accounting and schedule perturbation through hash.VerifYield)",
    "modelled, not verified: kernel file reads (a path is a regular file with fixed content, a directory, or unreadable; a file vanishing "
    "while hashed is observed as one of the two)",
    "SHA-256 is a parameter of every theorem (collision-explicit statements); the oracle instantiates it with an executable Lean "
    "re-implementation checked against the FIPS 180-4 vectors by kernel evaluation and byte-exactly against crypto/sha256 on every run "
    "(SHA self-test cases and every digest comparison)",
    "which of several unreadable files is named in the returned error, and error wording, are not compared (one error class)",
]

PROPS = {
    "C04": {"engine": "hash", "extra_props": ["FactsHash"], "modelled": HASH_MODELLED,
            "assumptions": ["files are not modified by third parties while one Hash call runs",
                            "\"collection of (path, content) pairs\" is read with multiplicity: a path listed twice is hashed twice"]},
    "C18": {"engine": "hash", "extra_props": ["FactsHash"], "modelled": HASH_MODELLED,
            "assumptions": ["PARTIAL BY NATURE: the channel protocol is proved for every schedule and CPU count ≥ 1; data races and the real scheduler are only tested",
                            "runtime.NumCPU() ≥ 1"]},
}
