namespace TreeProto
inductive Node where
  | file : Node
  | dir (children : List (String × Node)) : Node

def paths : Node → List (List String)
  | .file => [[]]
  | .dir cs => [] :: (cs.attach.map fun ⟨(n, c), _⟩ => (paths c).map (n :: ·)).flatten
termination_by t => sizeOf t
decreasing_by
  simp_wf
  rename_i h
  have := List.sizeOf_lt_of_mem h
  simp at this
  omega

#eval paths (.dir [("a", .file), ("b", .dir [("c", .file)])])

-- flat alternative: a tree is a list of (path, isDir), parent-closed
structure Flat where
  entries : List (List String × Bool)

def Flat.readDir (t : Flat) (d : List String) : List (String × Bool) :=
  t.entries.filterMap fun (p, isDir) =>
    match p.getLast?, p.dropLast == d with
    | some n, true => some (n, isDir)
    | _, _ => none
end TreeProto
