import Lt.FullLexer
open FullLexer

def hexVal (c : Char) : Nat :=
  if '0' ≤ c && c ≤ '9' then c.toNat - 48 else if 'a' ≤ c && c ≤ 'f' then c.toNat - 87 else 0

def unhex (s : String) : List UInt8 :=
  let rec go : List Char → List UInt8
    | a :: b :: rest => UInt8.ofNat (hexVal a * 16 + hexVal b) :: go rest
    | _ => []
  go s.toList

def encodeRune (r : Rune) : List Nat :=
  -- re-encode: invalid bytes were mapped to U+FFFD w=1; we only need a stable text form, so print cp.w
  [r.cp, r.w]

def showTok (t : Tok) : String :=
  if t.ty == .error then s!"ERROR:{t.errLine}:{t.pos}:{t.line}"
  else
    let v := String.intercalate "," (t.val.map fun r => s!"{r.cp}.{r.w}")
    s!"{t.ty.name}:{v}:{t.pos}:{t.line}"

partial def loop (h : IO.FS.Stream) (out : IO.FS.Stream) (repaired : Bool) : IO Unit := do
  let line ← h.getLine
  if line.isEmpty then return ()
  let toks := lex repaired (unhex line.trimAscii.toString)
  out.putStrLn (String.intercalate " | " (toks.toList.map showTok))
  loop h out repaired

def main (args : List String) : IO Unit := do
  loop (← IO.getStdin) (← IO.getStdout) (args.contains "repaired")
