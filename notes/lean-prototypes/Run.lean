/-! scratch prototype 2: pc-style small-step machine for the (fixed) runner -/
namespace RunProto

abbrev Name := Nat
abbrev Inputs := Nat
abbrev Digest := Nat
abbrev Map := Name → Option Digest

structure Env where
  digest : Inputs → Digest
  inj : ∀ a b, digest a = digest b → a = b

inductive Disk where
  | missing | corrupt | valid (m : Map)

structure TaskIn where
  name : Name
  n : Nat
  inp : Inputs
  ok : Bool

inductive Pc where
  | decide            -- about to look at the head task
  | invalidated (old : Option Digest)  -- entry cleared on disk, commands not yet run
  | executed (old : Option Digest)     -- commands have run (ok = head.ok), final dump pending
deriving DecidableEq

inductive Out where | skipped | ranOk | ranFail
deriving DecidableEq

structure St where
  force : Bool
  todo : List TaskIn
  pc : Pc
  mem : Map
  disk : Disk
  last : Name → Option Inputs
  out : List (Name × Out)

def upd (m : Map) (t : Name) (v : Option Digest) : Map := fun u => if u = t then v else m u
def updL (m : Name → Option Inputs) (t : Name) (v : Option Inputs) : Name → Option Inputs := fun u => if u = t then v else m u

def step (E : Env) (s : St) : St :=
  match s.todo with
  | [] => s
  | t :: rest =>
    match s.pc with
    | .decide =>
      if !s.force && decide (t.n > 0) && s.mem t.name == some (E.digest t.inp) then
        { s with todo := rest, out := s.out ++ [(t.name, .skipped)] }
      else
        let m := upd s.mem t.name none
        { s with pc := .invalidated (s.mem t.name), mem := m, disk := .valid m }
    | .invalidated old =>
      { s with pc := .executed old, last := if t.ok then updL s.last t.name (some t.inp) else s.last }
    | .executed old =>
      let v : Option Digest := if t.ok then (if t.n > 0 then some (E.digest t.inp) else none) else old
      let m := upd s.mem t.name v
      { s with todo := rest, pc := .decide, mem := m, disk := .valid m,
               out := s.out ++ [(t.name, if t.ok then .ranOk else .ranFail)] }

def InvMap (E : Env) (last : Name → Option Inputs) (m : Map) : Prop :=
  ∀ t d, m t = some d → ∃ i, last t = some i ∧ E.digest i = d

def InvDisk (E : Env) (last : Name → Option Inputs) : Disk → Prop
  | .valid m => InvMap E last m
  | .missing => ∀ t, last t = none
  | .corrupt => True

/-- `old` carried in the pc is justified by the ghost unless the head task has just succeeded -/
def InvPc (E : Env) (s : St) : Prop :=
  match s.todo, s.pc with
  | _, .decide => True
  | [], _ => True
  | t :: _, .invalidated old => s.mem t.name = none ∧ ∀ d, old = some d → ∃ i, s.last t.name = some i ∧ E.digest i = d
  | t :: _, .executed old => s.mem t.name = none ∧ (t.ok = true → s.last t.name = some t.inp) ∧
        (t.ok = false → ∀ d, old = some d → ∃ i, s.last t.name = some i ∧ E.digest i = d)

def Inv (E : Env) (s : St) : Prop :=
  InvMap E s.last s.mem ∧ InvDisk E s.last s.disk ∧ InvPc E s

theorem step_inv (E : Env) (s : St) (h : Inv E s) : Inv E (step E s) := by
  obtain ⟨hm, hd, hp⟩ := h
  unfold step
  split
  · exact ⟨hm, hd, hp⟩
  · rename_i t rest hto
    split
    · -- decide
      split
      · refine ⟨hm, hd, ?_⟩
        simp [InvPc]
      · have hm' : InvMap E s.last (upd s.mem t.name none) := by
          intro u d hu
          unfold upd at hu
          split at hu
          · cases hu
          · exact hm u d hu
        refine ⟨hm', hm', ?_⟩
        simp only [InvPc, hto]
        refine ⟨by simp [upd], ?_⟩
        intro d hd'
        exact hm _ _ hd'
    · -- invalidated
      rename_i old hpc
      simp only [InvPc, hto, hpc] at hp
      obtain ⟨hnone, hold⟩ := hp
      by_cases hok : t.ok = true
      · simp only [hok, if_true]
        have hm' : InvMap E (updL s.last t.name (some t.inp)) s.mem := by
          intro u d hu
          by_cases hut : u = t.name
          · subst hut; rw [hnone] at hu; cases hu
          · obtain ⟨i, hi, hdi⟩ := hm u d hu
            exact ⟨i, by simp [updL, hut, hi], hdi⟩
        refine ⟨hm', ?_, ?_⟩
        · cases hdk : s.disk with
          | missing => sorry
          | corrupt => simp [InvDisk]
          | valid m => sorry
        · simp [InvPc, hto, hnone, updL, hok]
      · simp only [hok]
        refine ⟨hm, hd, ?_⟩
        simp only [InvPc, hto]
        simp at hok
        refine ⟨hnone, by simp [hok], fun _ => hold⟩
    · -- executed
      sorry

end RunProto
