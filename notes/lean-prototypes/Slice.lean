/-! scratch vertical slice: comments + string declarations through lexer, parser, printer -/
namespace Slice

abbrev Rune := Nat
notation "NL" => (10 : Nat)
notation "CR" => (13 : Nat)
notation "SP" => (32 : Nat)
notation "TAB" => (9 : Nat)
notation "QUOTE" => (34 : Nat)
notation "HASH" => (35 : Nat)
notation "COLON" => (58 : Nat)
notation "EQ" => (61 : Nat)
notation "USCORE" => (95 : Nat)

structure Cls where
  isSpace : Rune → Bool
  isLetter : Rune → Bool
  sp_nl : isSpace NL = true
  sp_sp : isSpace SP = true
  sp_cr : isSpace CR = true
  letter_not_space : ∀ c, isLetter c = true → isSpace c = false
  us_not_space : isSpace USCORE = false
  quote_ns : isSpace QUOTE = false
  hash_ns : isSpace HASH = false
  colon_ns : isSpace COLON = false
  hash_nl : isLetter HASH = false
  quote_nl : isLetter QUOTE = false
  colon_nl : isLetter COLON = false
  sp_nl' : isLetter SP = false
  nl_nl : isLetter NL = false

variable (C : Cls)

def isIdent (c : Rune) : Bool := C.isLetter c || c == USCORE

inductive TT where | eof | error | comment | hash | ident | declare | string
deriving DecidableEq, Repr

structure Tok where
  ty : TT
  val : List Rune
deriving DecidableEq, Repr

structure L where
  right : List Rune
  tokRev : List Rune
  toks : List Tok
deriving Repr

def L.next (l : L) : L × Option Rune :=
  match l.right with
  | [] => (l, none)
  | r :: rs => ({ l with right := rs, tokRev := r :: l.tokRev }, some r)

def L.peek (l : L) : Option Rune := l.right.head?
def L.atEOF (l : L) : Bool := l.right.isEmpty
def L.atEOL (l : L) : Bool :=
  match l.right with
  | 10 :: _ => true
  | 13 :: 10 :: _ => true
  | _ => false
def L.emit (l : L) (ty : TT) : L := { l with toks := l.toks ++ [⟨ty, l.tokRev.reverse⟩], tokRev := [] }
def L.discard (l : L) : L := { l with tokRev := [] }
def L.absorb (l : L) (n : Nat) : L := { l with right := l.right.drop n, tokRev := (l.right.take n).reverse ++ l.tokRev }

def skipWs (l : L) : L :=
  match h : l.right with
  | [] => l.discard
  | r :: rs => if C.isSpace r then skipWs { l with right := rs, tokRev := r :: l.tokRev } else l.discard
termination_by l.right.length
decreasing_by simp [h]

inductive Tag where | start | hash | comment | ident | declare | declString | done
deriving DecidableEq, Repr

def errorTok (l : L) : L × Tag := ({ l with toks := l.toks ++ [⟨.error, []⟩] }, .done)

def lexStart (l : L) : L × Tag :=
  let l := skipWs C l
  match l.right with
  | [] => (l.emit .eof, .done)
  | r :: _ =>
    if r == HASH then (l, .hash)
    else if isIdent C r then (l, .ident)
    else errorTok l

def lexHash (l : L) : L × Tag := ((l.absorb 1).emit .hash, .comment)

def scanComment (l : L) : L :=
  match h : l.right with
  | [] => l
  | r :: rs => if l.atEOL then l else scanComment { l with right := rs, tokRev := r :: l.tokRev }
termination_by l.right.length
decreasing_by simp [h]

def lexComment (l : L) : L × Tag := ((scanComment l).emit .comment, .start)

def scanIdent (l : L) : L :=
  match h : l.right with
  | [] => l
  | r :: rs => if isIdent C r then scanIdent { l with right := rs, tokRev := r :: l.tokRev } else l
termination_by l.right.length
decreasing_by simp [h]

def lexIdent (l : L) : L × Tag :=
  let l := skipWs C ((scanIdent C l).emit .ident)
  match l.right with
  | 58 :: 61 :: _ => (l, .declare)
  | _ => if l.atEOL || l.atEOF then (l, .start) else errorTok l

def lexDeclare (l : L) : L × Tag :=
  let l := skipWs C ((skipWs C l |>.absorb 2).emit .declare)
  match l.right with
  | 34 :: rs => ({ l with right := rs, tokRev := 34 :: l.tokRev }, .declString)
  | _ => errorTok l

/-- the scanning loop of lexString; none = unterminated -/
def scanString (l : L) : Option L :=
  match h : l.right with
  | [] => none
  | r :: rs =>
    let l' : L := { l with right := rs, tokRev := r :: l.tokRev }
    if r == QUOTE then some l'
    else if l'.atEOF || l'.atEOL then none
    else scanString l'
termination_by l.right.length
decreasing_by simp [h]

def skipBlanks (l : L) : L :=
  match h : l.right with
  | [] => l
  | r :: rs => if r == SP || r == TAB then skipBlanks { l with right := rs, tokRev := r :: l.tokRev } else l
termination_by l.right.length
decreasing_by simp [h]

def lexDeclString (l : L) : L × Tag :=
  match scanString l with
  | none => errorTok l
  | some l =>
    let l := (skipBlanks (l.emit .string)).discard
    if l.atEOF || l.atEOL then (l, .start) else errorTok l

def stepTag (l : L) : Tag → L × Tag
  | .start => lexStart C l
  | .hash => lexHash l
  | .comment => lexComment l
  | .ident => lexIdent C l
  | .declare => lexDeclare C l
  | .declString => lexDeclString l
  | .done => (l, .done)

def run : Nat → L → Tag → L
  | 0, l, _ => l
  | _, l, .done => l
  | n+1, l, t => let (l', t') := stepTag C l t; run n l' t'

def lex (fuel : Nat) (input : List Rune) : List Tok := (run C fuel ⟨input, [], []⟩ .start).toks

/-! parser + printer -/
inductive Node where
  | comment (text : List Rune)
  | assign (name : List Rune) (value : List Rune)
deriving DecidableEq, Repr

def parse : List Tok → Option (List Node)
  | [] => none
  | ⟨.eof, _⟩ :: _ => some []
  | ⟨.hash, _⟩ :: ⟨.comment, t⟩ :: rest => (parse rest).map (Node.comment t :: ·)
  | ⟨.ident, n⟩ :: ⟨.declare, _⟩ :: ⟨.string, v⟩ :: rest => (parse rest).map (Node.assign n (v.filter (· != QUOTE)) :: ·)
  | _ => none

def trimLeft (s : List Rune) : List Rune := s.dropWhile C.isSpace
def trim (s : List Rune) : List Rune := (trimLeft C (trimLeft C s).reverse).reverse

def printNode : Node → List Rune
  | .comment t => if t = [] then [] else [HASH, SP] ++ trim C t ++ [NL]
  | .assign n v => n ++ [SP, COLON, EQ, SP, QUOTE] ++ v ++ [QUOTE, NL]

def print (t : List Node) : List Rune := (t.map (printNode C)).flatten

end Slice
