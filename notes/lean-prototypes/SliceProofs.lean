import Lt.Slice
namespace Slice
variable (C : Cls)

theorem skipWs_spec (ws rest tr : List Rune) (toks : List Tok)
    (hws : ∀ r ∈ ws, C.isSpace r = true) (hrest : ∀ r, rest.head? = some r → C.isSpace r = false) :
    skipWs C ⟨ws ++ rest, tr, toks⟩ = ⟨rest, [], toks⟩ := by
  induction ws generalizing tr with
  | nil =>
    unfold skipWs
    cases rest with
    | nil => simp [L.discard]
    | cons r rs => simp [hrest r (by simp), L.discard]
  | cons a ws ih =>
    unfold skipWs
    simp [hws a (by simp)]
    exact ih _ (fun r hr => hws r (by simp [hr]))

theorem scanIdent_spec (name rest tr : List Rune) (toks : List Tok)
    (hn : ∀ r ∈ name, isIdent C r = true) (hrest : ∀ r, rest.head? = some r → isIdent C r = false) :
    scanIdent C ⟨name ++ rest, tr, toks⟩ = ⟨rest, name.reverse ++ tr, toks⟩ := by
  induction name generalizing tr with
  | nil =>
    unfold scanIdent
    cases rest with
    | nil => simp
    | cons r rs => simp [hrest r (by simp)]
  | cons a name ih =>
    unfold scanIdent
    simp [hn a (by simp)]
    rw [ih _ (fun r hr => hn r (by simp [hr]))]

/-- text that lexComment reads up to the newline that follows it -/
def CommentBody (t : List Rune) : Prop := NL ∉ t ∧ t.getLast? ≠ some CR

theorem scanComment_spec (t rest tr : List Rune) (toks : List Tok) (h : CommentBody t) :
    scanComment ⟨t ++ NL :: rest, tr, toks⟩ = ⟨NL :: rest, t.reverse ++ tr, toks⟩ := by
  induction t generalizing tr with
  | nil =>
    unfold scanComment
    simp [L.atEOL]
  | cons a t ih =>
    obtain ⟨hnl, hcr⟩ := h
    have ha : a ≠ NL := by intro e; apply hnl; simp [e]
    have hb : CommentBody t := by
      refine ⟨fun hm => hnl (by simp [hm]), ?_⟩
      cases t with
      | nil => simp
      | cons b t => simpa using hcr
    unfold scanComment
    have hne : L.atEOL ⟨a :: (t ++ NL :: rest), tr, toks⟩ = false := by
      unfold L.atEOL
      split
      · rename_i heq; simp at heq; exact absurd heq.1 ha
      · rename_i heq
        simp at heq
        obtain ⟨h1, h2⟩ := heq
        cases t with
        | nil => simp [h1] at hcr
        | cons b t => simp at h2; exact absurd h2.1 (by intro e; apply hnl; simp [e])
      · rfl
    simp only [List.cons_append, hne]
    simp
    rw [ih _ hb]


def StrBody (v : List Rune) : Prop := NL ∉ v ∧ QUOTE ∉ v

theorem scanString_spec (v rest tr : List Rune) (toks : List Tok) (h : StrBody v) :
    scanString ⟨v ++ QUOTE :: rest, tr, toks⟩ = some ⟨rest, QUOTE :: (v.reverse ++ tr), toks⟩ := by
  induction v generalizing tr with
  | nil => unfold scanString; simp
  | cons a v ih =>
    obtain ⟨hnl, hq⟩ := h
    have ha : a ≠ QUOTE := by intro e; apply hq; simp [e]
    have hb : StrBody v := ⟨fun hm => hnl (by simp [hm]), fun hm => hq (by simp [hm])⟩
    unfold scanString
    have hne : L.atEOL ⟨v ++ QUOTE :: rest, a :: tr, toks⟩ = false := by
      unfold L.atEOL
      split
      · rename_i heq
        cases v with
        | nil => simp at heq
        | cons b v => simp at heq; exact absurd heq.1 (by intro e; apply hnl; simp [e])
      · rename_i heq
        cases v with
        | nil => simp at heq
        | cons b v =>
          simp at heq
          cases v with
          | nil => simp at heq
          | cons c v => simp at heq; exact absurd heq.2.1 (by intro e; apply hnl; simp [e])
      · rfl
    have hnf : L.atEOF ⟨v ++ QUOTE :: rest, a :: tr, toks⟩ = false := by simp [L.atEOF]
    simp [ha, hne, hnf]
    rw [ih _ hb]

theorem skipBlanks_nl (rest tr : List Rune) (toks : List Tok) :
    skipBlanks ⟨NL :: rest, tr, toks⟩ = ⟨NL :: rest, tr, toks⟩ := by
  unfold skipBlanks; simp

/-! ### run: one statement at a time -/

theorem run_succ (n : Nat) (l : L) (t : Tag) (h : t ≠ .done) :
    run C (n+1) l t = run C n (stepTag C l t).1 (stepTag C l t).2 := by
  cases t <;> simp_all [run]

def IdentName (n : List Rune) : Prop := n ≠ [] ∧ ∀ r ∈ n, isIdent C r = true

inductive WFNode : Node → Prop where
  | comment (t : List Rune) : t ≠ [] → NL ∉ t → WFNode (.comment t)
  | assign (n v : List Rune) : IdentName C n → StrBody v → WFNode (.assign n v)

def toksOf : Node → List Tok
  | .comment t => if t = [] then [] else [⟨.hash, [HASH]⟩, ⟨.comment, SP :: trim C t⟩]
  | .assign n v => [⟨.ident, n⟩, ⟨.declare, [COLON, EQ]⟩, ⟨.string, QUOTE :: v ++ [QUOTE]⟩]



/-! per-state lemmas on shaped input -/

theorem lexStart_hash (ws rest tr : List Rune) (toks : List Tok) (hws : ∀ r ∈ ws, C.isSpace r = true) :
    lexStart C ⟨ws ++ HASH :: rest, tr, toks⟩ = (⟨HASH :: rest, [], toks⟩, .hash) := by
  unfold lexStart
  rw [skipWs_spec C ws (HASH :: rest) tr toks hws (by intro r hr; simp at hr; subst hr; exact C.hash_ns)]
  simp

theorem lexStart_ident (ws rest tr : List Rune) (a : Rune) (toks : List Tok) (hws : ∀ r ∈ ws, C.isSpace r = true)
    (ha : isIdent C a = true) (hah : a ≠ HASH) :
    lexStart C ⟨ws ++ a :: rest, tr, toks⟩ = (⟨a :: rest, [], toks⟩, .ident) := by
  unfold lexStart
  have hns : C.isSpace a = false := by
    unfold isIdent at ha
    simp at ha
    rcases ha with h | h
    · exact C.letter_not_space a h
    · subst h; exact C.us_not_space
  rw [skipWs_spec C ws (a :: rest) tr toks hws (by intro r hr; simp at hr; subst hr; exact hns)]
  simp [hah, ha]

theorem lexStart_eof (ws tr : List Rune) (toks : List Tok) (hws : ∀ r ∈ ws, C.isSpace r = true) :
    lexStart C ⟨ws, tr, toks⟩ = (⟨[], [], toks ++ [⟨.eof, []⟩]⟩, .done) := by
  unfold lexStart
  have := skipWs_spec C ws [] tr toks hws (by simp)
  simp at this
  rw [this]
  simp [L.emit]

theorem lexHash_eq (rest : List Rune) (toks : List Tok) :
    lexHash ⟨HASH :: rest, [], toks⟩ = (⟨rest, [], toks ++ [⟨.hash, [HASH]⟩]⟩, .comment) := by
  simp [lexHash, L.absorb, L.emit]

theorem lexComment_eq (t rest : List Rune) (toks : List Tok) (h : CommentBody t) :
    lexComment ⟨t ++ NL :: rest, [], toks⟩ = (⟨NL :: rest, [], toks ++ [⟨.comment, t⟩]⟩, .start) := by
  simp [lexComment, scanComment_spec t rest [] toks h, L.emit]

theorem lexIdent_decl (name rest : List Rune) (toks : List Tok) (hn : ∀ r ∈ name, isIdent C r = true) :
    lexIdent C ⟨name ++ SP :: COLON :: EQ :: rest, [], toks⟩
      = (⟨COLON :: EQ :: rest, [], toks ++ [⟨.ident, name⟩]⟩, .declare) := by
  unfold lexIdent
  rw [scanIdent_spec C name (SP :: COLON :: EQ :: rest) [] toks hn
        (by intro r hr; simp at hr; subst hr; simp [isIdent, C.sp_nl'])]
  simp only [L.emit, List.append_nil, List.reverse_reverse]
  have := skipWs_spec C [SP] (COLON :: EQ :: rest) [] (toks ++ [⟨.ident, name⟩])
            (by intro r hr; simp at hr; subst hr; exact C.sp_sp)
            (by intro r hr; simp at hr; subst hr; exact C.colon_ns)
  simp at this
  rw [this]
  simp

theorem lexDeclare_str (rest : List Rune) (toks : List Tok) :
    lexDeclare C ⟨COLON :: EQ :: SP :: QUOTE :: rest, [], toks⟩
      = (⟨rest, [QUOTE], toks ++ [⟨.declare, [COLON, EQ]⟩]⟩, .declString) := by
  unfold lexDeclare
  have h1 := skipWs_spec C [] (COLON :: EQ :: SP :: QUOTE :: rest) [] toks (by simp)
            (by intro r hr; simp at hr; subst hr; exact C.colon_ns)
  simp at h1
  rw [h1]
  simp only [L.absorb, L.emit]
  have h2 := skipWs_spec C [SP] (QUOTE :: rest) [] (toks ++ [⟨.declare, [COLON, EQ]⟩])
            (by intro r hr; simp at hr; subst hr; exact C.sp_sp)
            (by intro r hr; simp at hr; subst hr; exact C.quote_ns)
  simp at h2
  simp [h2]

theorem lexDeclString_eq (v rest : List Rune) (toks : List Tok) (h : StrBody v) :
    lexDeclString ⟨v ++ QUOTE :: NL :: rest, [QUOTE], toks⟩
      = (⟨NL :: rest, [], toks ++ [⟨.string, QUOTE :: v ++ [QUOTE]⟩]⟩, .start) := by
  unfold lexDeclString
  rw [scanString_spec v (NL :: rest) [QUOTE] toks h]
  simp [L.emit, skipBlanks_nl, L.discard, L.atEOL]

/-- trimmed text is a comment body, also with the blank the printer puts in front -/
theorem commentBody_sp_trim (t : List Rune) (hnl : NL ∉ t) : CommentBody (SP :: trim C t) := by
  sorry

theorem stmt_comment (n : Nat) (ws t rest : List Rune) (tr : List Rune) (toks : List Tok)
    (hws : ∀ r ∈ ws, C.isSpace r = true) (ht : t ≠ []) (hnl : NL ∉ t) :
    run C (n+3) ⟨ws ++ printNode C (.comment t) ++ rest, tr, toks⟩ .start
      = run C n ⟨NL :: rest, [], toks ++ toksOf C (.comment t)⟩ .start := by
  have hp : ws ++ printNode C (.comment t) ++ rest = ws ++ HASH :: ((SP :: trim C t) ++ NL :: rest) := by
    simp [printNode, ht]
  rw [hp, run_succ _ _ _ _ (by simp)]
  simp only [stepTag, lexStart_hash C ws _ tr toks hws]
  rw [run_succ _ _ _ _ (by simp)]
  simp only [stepTag, lexHash_eq]
  rw [run_succ _ _ _ _ (by simp)]
  simp only [stepTag, lexComment_eq _ _ _ (commentBody_sp_trim C t hnl)]
  simp [toksOf, ht]

theorem stmt_assign (n : Nat) (ws nm v rest : List Rune) (tr : List Rune) (toks : List Tok)
    (hws : ∀ r ∈ ws, C.isSpace r = true) (hn : IdentName C nm) (hv : StrBody v) :
    run C (n+4) ⟨ws ++ printNode C (.assign nm v) ++ rest, tr, toks⟩ .start
      = run C n ⟨NL :: rest, [], toks ++ toksOf C (.assign nm v)⟩ .start := by
  obtain ⟨hne, hid⟩ := hn
  obtain ⟨a, nm', rfl⟩ := List.exists_cons_of_ne_nil hne
  have hah : a ≠ HASH := by
    intro e; have := hid a (by simp); subst e; simp [isIdent, C.hash_nl] at this
  have hp : ws ++ printNode C (.assign (a :: nm') v) ++ rest
      = ws ++ a :: (nm' ++ SP :: COLON :: EQ :: SP :: QUOTE :: (v ++ QUOTE :: NL :: rest)) := by
    simp [printNode]
  rw [hp, run_succ _ _ _ _ (by simp)]
  simp only [stepTag, lexStart_ident C ws _ tr a toks hws (hid a (by simp)) hah]
  rw [run_succ _ _ _ _ (by simp)]
  have := lexIdent_decl C (a :: nm') (SP :: QUOTE :: (v ++ QUOTE :: NL :: rest)) toks hid
  simp only [List.cons_append] at this
  simp only [stepTag, this]
  rw [run_succ _ _ _ _ (by simp)]
  simp only [stepTag, lexDeclare_str]
  rw [run_succ _ _ _ _ (by simp)]
  simp only [stepTag, lexDeclString_eq _ _ _ hv]
  simp [toksOf]


def WFTree (t : List Node) : Prop := ∀ n ∈ t, WFNode C n

def fuelOf : Node → Nat
  | .comment _ => 3
  | .assign _ _ => 4

/-- lexing the printed form of a well-formed tree, statement by statement -/
theorem lex_print_aux (t : List Node) (h : WFTree C t) (n : Nat) (ws tr : List Rune) (toks : List Tok)
    (hws : ∀ r ∈ ws, C.isSpace r = true) :
    run C (n + (t.map fuelOf).sum + 1) ⟨ws ++ print C t, tr, toks⟩ .start
      = ⟨[], [], toks ++ (t.map (toksOf C)).flatten ++ [⟨.eof, []⟩]⟩ := by
  induction t generalizing n ws tr toks with
  | nil =>
    simp only [print, List.map_nil, List.flatten_nil, List.append_nil, List.sum_nil, Nat.add_zero]
    rw [run_succ _ _ _ _ (by simp)]
    simp only [stepTag, lexStart_eof C ws tr toks hws]
    cases n <;> simp [run]
  | cons a t ih =>
    have ha : WFNode C a := h a (by simp)
    have ht : WFTree C t := fun x hx => h x (by simp [hx])
    have hnl : ∀ r ∈ [NL], C.isSpace r = true := by intro r hr; simp at hr; subst hr; exact C.sp_nl
    cases ha with
    | comment tx hne hnl' =>
      have e : n + ((Node.comment tx :: t).map fuelOf).sum + 1 = (n + (t.map fuelOf).sum + 1) + 3 := by
        simp [fuelOf]; omega
      have e2 : ws ++ print C (Node.comment tx :: t) = ws ++ printNode C (.comment tx) ++ print C t := by
        simp [print]
      rw [e, e2, stmt_comment C _ ws tx (print C t) tr toks hws hne hnl']
      have := ih ht n [NL] [] (toks ++ toksOf C (.comment tx)) hnl
      simp only [List.singleton_append] at this
      rw [this]
      simp
    | assign nm v hn hv =>
      have e : n + ((Node.assign nm v :: t).map fuelOf).sum + 1 = (n + (t.map fuelOf).sum + 1) + 4 := by
        simp [fuelOf]; omega
      have e2 : ws ++ print C (Node.assign nm v :: t) = ws ++ printNode C (.assign nm v) ++ print C t := by
        simp [print]
      rw [e, e2, stmt_assign C _ ws nm v (print C t) tr toks hws hn hv]
      have := ih ht n [NL] [] (toks ++ toksOf C (.assign nm v)) hnl
      simp only [List.singleton_append] at this
      rw [this]
      simp

/-- what the parser makes of those tokens: the same tree up to comment-text normalisation -/
def normNode : Node → Node
  | .comment t => .comment (SP :: trim C t)
  | n => n

theorem parse_toks (t : List Node) (h : WFTree C t) :
    parse ((t.map (toksOf C)).flatten ++ [⟨.eof, []⟩]) = some (t.map (normNode C)) := by
  induction t with
  | nil => simp [parse]
  | cons a t ih =>
    have ha : WFNode C a := h a (by simp)
    have ht : WFTree C t := fun x hx => h x (by simp [hx])
    cases ha with
    | comment tx hne _ => simp [toksOf, hne, parse, ih ht, normNode]
    | assign nm v _ hv =>
      have : (QUOTE :: (v ++ [QUOTE])).filter (· != QUOTE) = v := by
        simp only [List.filter_cons, List.filter_append]
        simp
        intro a ha
        intro e; exact hv.2 (e ▸ ha)
      simp [toksOf, parse, ih ht, normNode, this]

theorem roundtrip (t : List Node) (h : WFTree C t) :
    ∃ fuel, parse (lex C fuel (print C t)) = some (t.map (normNode C)) := by
  refine ⟨0 + (t.map fuelOf).sum + 1, ?_⟩
  unfold lex
  have := lex_print_aux C t h 0 [] [] [] (by simp)
  simp only [List.nil_append] at this
  rw [this]
  simpa using parse_toks C t h

end Slice
