/-! scratch prototype: zipper lexer primitives, skipWhitespace, ident scanning -/
namespace LexProto

/-- a decoded rune: code point and encoded width (1 for an invalid byte, cp = 0xFFFD) -/
structure Rune where
  cp : Nat
  w : Nat
deriving DecidableEq, Repr

structure Cls where
  isSpace : Nat → Bool
  isLetter : Nat → Bool
  space_nl : isSpace 10 = true
  letter_not_space : ∀ c, isLetter c = true → isSpace c = false
  us_not_space : isSpace 95 = false

variable (C : Cls)

def isIdent (c : Nat) : Bool := C.isLetter c || c == 95

inductive TT where | eof | error | ident | other
deriving DecidableEq, Repr

structure Tok where
  ty : TT
  val : List Rune
  pos : Nat
  line : Nat
deriving Repr

structure L where
  left : List Rune     -- consumed, reversed
  right : List Rune    -- remaining
  tokRev : List Rune   -- runes of the current token, reversed (= input[start:pos])
  pos : Nat
  start : Nat
  line : Nat
  startLine : Nat
  width : Nat
  toks : List Tok

def eofRune : Rune := ⟨0xFFFD, 0⟩

def next (l : L) : L × Rune :=
  match l.right with
  | [] => ({ l with width := 0 }, eofRune)
  | r :: rs => ({ l with left := r :: l.left, right := rs, tokRev := r :: l.tokRev, pos := l.pos + r.w,
                         width := r.w, line := if r.cp = 10 then l.line + 1 else l.line }, r)

def backup (l : L) : L :=
  if l.width = 0 then l else
  match l.left, l.tokRev with
  | r :: ls, _ :: ts =>
    let ln := if r.w = 1 ∧ r.cp = 10 then l.line - 1 else l.line
    { l with left := ls, right := r :: l.right, tokRev := ts, pos := l.pos - r.w, line := ln }
  | _, _ => l   -- unreachable under the invariant

def discard (l : L) : L := { l with start := l.pos, startLine := l.line, tokRev := [] }

def emit (l : L) (ty : TT) : L :=
  { l with toks := l.toks ++ [⟨ty, l.tokRev.reverse, l.start, l.startLine⟩], start := l.pos, startLine := l.line, tokRev := [] }

/-- for { r := next(); if !IsSpace(r) { backup(); discard(); break } } -/
def skipWs (l : L) : L :=
  match h : l.right with
  | [] => discard (backup (next l).1)
  | r :: rs =>
    if C.isSpace r.cp then
      skipWs (next l).1
    else discard (backup (next l).1)
termination_by l.right.length
decreasing_by simp [next, h]

def bytes (rs : List Rune) : Nat := (rs.map (·.w)).sum
def nls (rs : List Rune) : Nat := (rs.filter (·.cp = 10)).length

/-- the bookkeeping invariant behind C16 -/
structure Wf (l : L) : Prop where
  pos_eq : l.pos = bytes l.left
  line_eq : l.line = 1 + nls l.left
  wpos : ∀ r ∈ l.left ++ l.right, r.w ≥ 1
  nlw : ∀ r ∈ l.left ++ l.right, r.cp = 10 → r.w = 1

theorem skipWs_spec (l : L) (ws rest : List Rune) (hr : l.right = ws ++ rest)
    (hws : ∀ r ∈ ws, C.isSpace r.cp = true) (hrest : ∀ r, rest.head? = some r → C.isSpace r.cp = false)
    (hw : ∀ r ∈ l.right, r.w ≥ 1) :
    (skipWs C l).right = rest ∧ (skipWs C l).left = ws.reverse ++ l.left ∧ (skipWs C l).toks = l.toks ∧ (skipWs C l).tokRev = [] := by
  induction ws generalizing l with
  | nil =>
    simp at hr
    unfold skipWs
    split
    · rename_i h; simp [next, backup, discard, h] ; simp [h] at hr; exact hr.symm ▸ rfl
    · rename_i r rs h
      have : C.isSpace r.cp = false := hrest r (by simp [← hr, h])
      have hw1 : r.w ≥ 1 := hw r (by simp [h])
      simp [this, next, backup, discard, h]
      have : r.w ≠ 0 := by omega
      simp [this, hr.symm, h]
  | cons a ws ih =>
    unfold skipWs
    split
    · rename_i h; simp [h] at hr
    · rename_i r rs h
      simp [h] at hr
      obtain ⟨rfl, hrs⟩ := hr
      have : C.isSpace r.cp = true := hws r (by simp)
      simp only [this, if_true]
      have := ih (next l).1 (by simp [next, h, hrs]) (fun r hr => hws r (by simp [hr])) (by intro r hr; apply hw; simp [next, h] at hr; simp [h, hr])
      simp [next, h] at this ⊢
      simpa using this

end LexProto
