import Lt.FullLexer
/-! scratch prototype: parser + printer models over the lexer model's token stream (pinned / repaired variants) -/
namespace FullParser
open FullLexer

inductive Arg where
  | str (s : List Rune)
  | ident (n : List Rune)
deriving Repr, Inhabited

inductive Val where
  | str (s : List Rune)
  | ident (n : List Rune)
  | call (f : List Rune) (args : List Arg)
deriving Repr, Inhabited

inductive Node where
  | comment (t : List Rune)
  | assign (name : List Rune) (v : Val)
  | task (name : List Rune) (doc : List Rune) (deps outs : List Arg) (cmds : List (List Rune))
deriving Repr, Inhabited

/-- what an error cites: `cited` = the N of "(Line N)" (none when the message has none), `ctx` = index of the quoted line -/
structure PErr where
  cited : Option Nat
  ctx : Option Nat
deriving Repr, Inhabited

structure P where
  toks : Array Tok
  i : Nat
  repaired : Bool

def zeroTok : Tok := ⟨.eof, [], 0, 0, 0⟩
def P.next (p : P) : P × Tok := ({ p with i := p.i + 1 }, p.toks.getD p.i zeroTok)
def P.backup (p : P) : P := { p with i := p.i - 1 }

def lexErr (t : Tok) : PErr := ⟨some t.errLine, some t.errLine⟩
/-- illegalToken{encountered, line: getLine(ctxTok)} ; getLine uses lines[Line-1], or lines[0] when Line = 0 -/
def illegal (enc ctxTok : Tok) : PErr := ⟨some enc.line, some (if ctxTok.line == 0 then 1 else ctxTok.line)⟩

def stripQuotes (v : List Rune) : List Rune := v.filter (·.cp != 34)

def expect (p : P) (ty : TT) : Except PErr P :=
  let (p, t) := p.next
  if t.ty == .error then .error (lexErr t)
  else if t.ty != ty then .error (illegal t t)
  else .ok p

/-- the `for next := p.next(); !next.Is(RPAREN)` loops of parseFunction / parseTaskDependencies -/
partial def parseArgList (p : P) (acc : Array Arg) : Except PErr (P × List Arg) :=
  let (p, t) := p.next
  match t.ty with
  | .rparen => .ok (p, acc.toList)
  | .string => parseArgList p (acc.push (.str (stripQuotes t.val)))
  | .ident => parseArgList p (acc.push (.ident t.val))
  | .comma => parseArgList p acc
  | .error => .error (lexErr t)
  | _ => .error (illegal t t)

/-- the inner loop of parseTaskOutputs after `(`; `lp` is the LPAREN token (the pinned code cites it by mistake) -/
partial def parseOutList (p : P) (lp : Tok) (acc : Array Arg) : Except PErr (P × List Arg) :=
  let (p, t) := p.next
  match t.ty with
  | .rparen => .ok (p, acc.toList)
  | .string => parseOutList p lp (acc.push (.str (stripQuotes t.val)))
  | .ident => parseOutList p lp (acc.push (.ident t.val))
  | .comma => parseOutList p lp acc
  | .error => if p.repaired then .error (lexErr t) else .error ⟨none, none⟩      -- errors.New(next.Value) = "("
  | _ => if p.repaired then .error (illegal t t) else .error (illegal t lp)

def parseOutputs (p : P) : Except PErr (P × List Arg) :=
  let (p1, t) := p.next
  if t.ty != .output then .ok (p1.backup, []) else
  let (p2, n) := p1.next
  match n.ty with
  | .string => .ok (p2, [.str (stripQuotes n.val)])
  | .ident => .ok (p2, [.ident n.val])
  | .comma => .ok (p2, [])
  | .lparen => parseOutList p2 n #[]
  | .error => .error (lexErr n)
  | _ => .error (illegal n n)

partial def parseCommands (p : P) (acc : Array (List Rune)) (fuel : Nat) : Except PErr (P × List (List Rune)) :=
  if fuel == 0 then .error ⟨some 999999, none⟩ else     -- would spin forever in Go
  let (p, t) := p.next
  match t.ty with
  | .error => .error (lexErr t)
  | .rbrace => .ok (p, acc.toList)
  | .command => parseCommands p (acc.push t.val) (fuel - 1)
  | _ => parseCommands p acc (fuel - 1)

def parseTask (p : P) (doc : List Rune) : Except PErr (P × Node) := do
  let (p, nameTok) := p.next
  let p ← expect p .lparen
  let (p, deps) ← parseArgList p #[]
  let (p, outs) ← parseOutputs p
  let p ← expect p .lbrace
  let (p, cmds) ← parseCommands p #[] (p.toks.size + 8)
  return (p, .task nameTok.val doc deps outs cmds)

def parseAssign (p : P) (ident : Tok) : Except PErr (P × Node) := do
  let p ← expect p .declare
  let (p, n) := p.next
  match n.ty with
  | .string => return (p, .assign ident.val (.str (stripQuotes n.val)))
  | .ident =>
    let (p2, n2) := p.next
    if n2.ty == .lparen then
      let p3 := p2.backup
      let p3 ← expect p3 .lparen
      let (p4, args) ← parseArgList p3 #[]
      return (p4, .assign ident.val (.call n.val args))
    else return (p2.backup, .assign ident.val (.ident n.val))
  | .error => throw (lexErr n)
  | _ => throw (illegal n n)

partial def parseLoop (p : P) (t : Tok) (acc : Array Node) : Array Node × Option PErr :=
  match t.ty with
  | .eof => (acc, none)
  | .error => (acc, some (lexErr t))
  | .hash =>
    let (p, c) := p.next
    let (p2, n) := p.next
    if n.ty == .task && (!p.repaired || !c.val.isEmpty) then
      match parseTask p2 c.val with
      | .error e => (acc, some e)
      | .ok (p3, node) => let (p4, t') := p3.next; parseLoop p4 t' (acc.push node)
    else
      let p3 := p2.backup
      let (p4, t') := p3.next
      parseLoop p4 t' (acc.push (.comment c.val))
  | .ident =>
    match parseAssign p t with
    | .error e => (acc, some e)
    | .ok (p2, node) => let (p3, t') := p2.next; parseLoop p3 t' (acc.push node)
  | .task =>
    match parseTask p [] with
    | .error e => (acc, some e)
    | .ok (p2, node) => let (p3, t') := p2.next; parseLoop p3 t' (acc.push node)
  | _ => (acc, some (illegal t t))

def parse (repaired : Bool) (bytes : List UInt8) : Array Node × Option PErr :=
  let toks := lex repaired bytes
  let p : P := ⟨toks, 0, repaired⟩
  let (p, t) := p.next
  parseLoop p t #[]

/-! ## printer -/
def str (s : String) : List Rune := s.toList.map fun c => ⟨c.toNat, 1⟩
def trimSpace (s : List Rune) : List Rune := ((s.dropWhile isSpace).reverse.dropWhile isSpace).reverse
def join (sep : List Rune) : List (List Rune) → List Rune
  | [] => [] | [x] => x | x :: xs => x ++ sep ++ join sep xs

def printArg : Arg → List Rune
  | .str s => str "\"" ++ s ++ str "\""
  | .ident n => n
def printComment (t : List Rune) : List Rune := if t.isEmpty then [] else str "# " ++ trimSpace t ++ str "\n"
def printVal : Val → List Rune
  | .str s => str "\"" ++ s ++ str "\""
  | .ident n => n
  | .call f args => f ++ str "(" ++ join (str ", ") (args.map printArg) ++ str ")"

def printNode (repaired top : Bool) : Node → List Rune
  | .comment t => if repaired && top && t.isEmpty then str "#\n" else printComment t
  | .assign n v => n ++ str " := " ++ printVal v ++ str "\n"
  | .task name doc deps outs cmds =>
    printComment doc ++ str "task " ++ name ++ str "(" ++ join (str ", ") (deps.map printArg) ++ str ")" ++
    (match outs with
     | [] => []
     | [o] => str " -> " ++ printArg o
     | os => str " -> (" ++ join (str ", ") (os.map printArg) ++ str ")") ++
    str " {\n" ++ (cmds.map fun c => str "    " ++ c ++ str "\n").flatten ++ str "}\n\n"

def print (repaired : Bool) (t : Array Node) : List Rune := (t.toList.map (printNode repaired true)).flatten

end FullParser
