import Lt.Slice
namespace Slice
variable (C : Cls)

theorem trimLeft_sublist (s : List Rune) : (trimLeft C s).Sublist s := by
  unfold trimLeft; exact List.dropWhile_sublist _

theorem trim_sublist (s : List Rune) : (trim C s).Sublist s := by
  unfold trim
  have h1 := trimLeft_sublist C (trimLeft C s).reverse
  have h2 := trimLeft_sublist C s
  have := (List.reverse_sublist.mpr h1)
  simp at this
  exact this.trans h2

theorem trimLeft_head (s : List Rune) : ∀ r, (trimLeft C s).head? = some r → C.isSpace r = false := by
  intro r hr
  unfold trimLeft at hr
  induction s with
  | nil => simp at hr
  | cons a s ih =>
    simp only [List.dropWhile_cons] at hr
    split at hr
    · exact ih hr
    · simp at hr; subst hr; simpa using ‹¬C.isSpace a = true›

theorem trim_last (s : List Rune) : ∀ r, (trim C s).getLast? = some r → C.isSpace r = false := by
  intro r hr
  unfold trim at hr
  rw [List.getLast?_reverse] at hr
  exact trimLeft_head C _ r hr

theorem commentBody_sp_trim' (t : List Rune) (hnl : NL ∉ t) :
    NL ∉ (SP :: trim C t) ∧ (SP :: trim C t).getLast? ≠ some CR := by
  constructor
  · intro h
    simp at h
    exact hnl ((trim_sublist C t).subset h)
  · intro h
    cases hq : trim C t with
    | nil => simp [hq] at h
    | cons a l =>
      rw [hq] at h
      have : (trim C t).getLast? = some CR := by rw [hq]; simpa [List.getLast?_cons_cons] using h
      have := trim_last C t _ this
      rw [C.sp_cr] at this
      cases this
end Slice
