import Lt.UnicodeTables
/-! scratch prototype: the complete spok lexer as a zipper machine with Go's counter arithmetic.
    `repaired = false` is the pinned lexer, `true` adds the D5/D6 repairs. For differential validation. -/
namespace FullLexer

structure Rune where
  cp : Nat
  w : Nat
deriving DecidableEq, Repr, Inhabited

/-! ## UTF-8 decoding with Go's semantics -/
def cont (b : UInt8) : Bool := 0x80 ≤ b.toNat && b.toNat ≤ 0xBF

def decode1 : List UInt8 → Rune × List UInt8
  | [] => (⟨0xFFFD, 0⟩, [])
  | b0 :: rest =>
    let n0 := b0.toNat
    let bad : Rune × List UInt8 := (⟨0xFFFD, 1⟩, rest)
    if n0 < 0x80 then (⟨n0, 1⟩, rest)
    else if n0 < 0xC2 then bad
    else if n0 < 0xE0 then
      match rest with
      | b1 :: r1 => if cont b1 then (⟨(n0 % 32) * 64 + b1.toNat % 64, 2⟩, r1) else bad
      | _ => bad
    else if n0 < 0xF0 then
      match rest with
      | b1 :: b2 :: r2 =>
        let lo := if n0 == 0xE0 then 0xA0 else 0x80
        let hi := if n0 == 0xED then 0x9F else 0xBF
        if lo ≤ b1.toNat && b1.toNat ≤ hi && cont b2 then
          (⟨(n0 % 16) * 4096 + (b1.toNat % 64) * 64 + b2.toNat % 64, 3⟩, r2) else bad
      | _ => bad
    else if n0 < 0xF5 then
      match rest with
      | b1 :: b2 :: b3 :: r3 =>
        let lo := if n0 == 0xF0 then 0x90 else 0x80
        let hi := if n0 == 0xF4 then 0x8F else 0xBF
        if lo ≤ b1.toNat && b1.toNat ≤ hi && cont b2 && cont b3 then
          (⟨(n0 % 8) * 262144 + (b1.toNat % 64) * 4096 + (b2.toNat % 64) * 64 + b3.toNat % 64, 4⟩, r3) else bad
      | _ => bad
    else bad

partial def decodeAll (bs : List UInt8) (acc : Array Rune := #[]) : List Rune :=
  match bs with
  | [] => acc.toList
  | _ => let (r, rest) := decode1 bs; decodeAll rest (acc.push r)

/-! ## Unicode classes from Go's tables -/
def inTable (t : Array (Nat × Nat × Nat)) (c : Nat) : Bool :=
  t.any fun (lo, hi, stride) => lo ≤ c && c ≤ hi && (c - lo) % stride == 0

def isSpace (r : Rune) : Bool :=
  let c := r.cp
  if c ≤ 0xFF then c == 9 || c == 10 || c == 11 || c == 12 || c == 13 || c == 32 || c == 0x85 || c == 0xA0
  else inTable UnicodeTables.space c
def isLetter (r : Rune) : Bool := inTable UnicodeTables.letter r.cp
def isPunct (r : Rune) : Bool := inTable UnicodeTables.punct r.cp
def isIdent (r : Rune) : Bool := isLetter r || r.cp == 95
def isASCII (r : Rune) : Bool := r.cp ≤ 127

inductive TT where
  | eof | error | comment | hash | lparen | rparen | lbrace | rbrace | quote | comma | task | string
  | command | output | ident | declare | linterp | rinterp
deriving DecidableEq, Repr, Inhabited

def TT.name : TT → String
  | .eof => "EOF" | .error => "ERROR" | .comment => "COMMENT" | .hash => "#" | .lparen => "(" | .rparen => ")"
  | .lbrace => "{" | .rbrace => "}" | .quote => "\"" | .comma => "," | .task => "task" | .string => "STRING"
  | .command => "COMMAND" | .output => "->" | .ident => "IDENT" | .declare => ":=" | .linterp => "{{" | .rinterp => "}}"

structure Tok where
  ty : TT
  val : List Rune
  pos : Nat
  line : Nat
  errLine : Nat := 0      -- for ERROR: the line the message cites (l.line)
deriving Repr

structure L where
  left : List Rune
  right : List Rune
  tokRev : List Rune
  pos : Nat
  start : Nat
  line : Nat
  startLine : Nat
  width : Nat
  toks : Array Tok
  repaired : Bool
deriving Repr

inductive Tag where
  | start | hash | comment | taskKeyword | leftParen | rightParen | outputOp | leftBrace | rightBrace
  | taskBody | taskCommands | taskName | ident | args | comma | declare | string | declString | done
deriving DecidableEq, Repr, Inhabited

def eofRune : Rune := ⟨0xFFFD, 0⟩

def L.next (l : L) : L × Rune :=
  match l.right with
  | [] => ({ l with width := 0 }, eofRune)
  | r :: rs =>
    ({ l with left := r :: l.left, right := rs, tokRev := r :: l.tokRev, pos := l.pos + r.w, width := r.w,
              line := if r.cp == 10 then l.line + 1 else l.line }, r)

def L.backup (l : L) : L :=
  if l.width == 0 then l else
  match l.left, l.tokRev with
  | r :: ls, _ :: ts =>
    let ln := if l.width == 1 && r.cp == 10 then l.line - 1 else l.line
    { l with left := ls, right := r :: l.right, tokRev := ts, pos := l.pos - l.width, line := ln }
  | r :: ls, [] =>   -- backing up over something already discarded (does not happen under the invariant)
    let ln := if l.width == 1 && r.cp == 10 then l.line - 1 else l.line
    { l with left := ls, right := r :: l.right, pos := l.pos - l.width, line := ln }
  | [], _ => l

def L.peek (l : L) : L × Rune := let (l', r) := l.next; (l'.backup, r)
def L.atEOF (l : L) : Bool := l.right.isEmpty
def L.hasPrefix (l : L) (s : List Nat) : Bool := (l.right.take s.length).map (·.cp) == s && s.length ≤ l.right.length
/-- atEOL mutates width through peek, like the Go code -/
def L.atEOL (l : L) : L × Bool :=
  let (l', r) := l.peek
  (l', r.cp == 10 || l'.hasPrefix [13, 10])

def L.absorb (l : L) (n : Nat) : L :=
  let taken := l.right.take n
  { l with left := taken.reverse ++ l.left, right := l.right.drop n, tokRev := taken.reverse ++ l.tokRev,
           pos := l.pos + (taken.map (·.w)).sum }

def L.emit (l : L) (ty : TT) : L :=
  { l with toks := l.toks.push ⟨ty, l.tokRev.reverse, l.start, l.startLine, 0⟩,
           start := l.pos, startLine := l.line, tokRev := [] }
def L.discard (l : L) : L := { l with start := l.pos, startLine := l.line, tokRev := [] }
def L.error (l : L) : L × Tag :=
  ({ l with toks := l.toks.push ⟨.error, [], l.start, l.startLine, l.line⟩ }, .done)
/-- the one-character step back `l.pos--` (over a blank or a CR) -/
def L.stepBack (l : L) : L :=
  match l.left, l.tokRev with
  | r :: ls, _ :: ts => { l with left := ls, right := r :: l.right, tokRev := ts, pos := l.pos - 1 }
  | _, _ => l

def skipWs (l : L) : L :=
  match h : l.right with
  | [] => ((l.next).1.backup).discard
  | r :: _ =>
    if isSpace r then skipWs (l.next).1 else ((l.next).1.backup).discard
termination_by l.right.length
decreasing_by simp [L.next, h]

def scanIdent (l : L) : L :=
  match h : l.right with
  | [] => (l.next).1.backup
  | r :: _ => if isIdent r then scanIdent (l.next).1 else (l.next).1.backup
termination_by l.right.length
decreasing_by simp [L.next, h]

def lexStart (l : L) : L × Tag :=
  let l := skipWs l
  if l.hasPrefix [35] then (l, .hash)
  else if l.hasPrefix [116, 97, 115, 107] then (l, .taskKeyword)
  else
    let (l, r) := l.peek
    if isIdent r then (l, .ident)
    else if l.atEOF then (l.emit .eof, .done)
    else l.error

def lexHash (l : L) : L × Tag := ((l.absorb 1).emit .hash, .comment)

partial def scanComment (l : L) : L :=
  let (l, eol) := l.atEOL
  if eol || l.atEOF then l else scanComment (l.next).1

def lexComment (l : L) : L × Tag := ((scanComment l).emit .comment, .start)

def lexTaskKeyword (l : L) : L × Tag := (skipWs ((l.absorb 4).emit .task), .taskName)
def lexLeftParen (l : L) : L × Tag := (skipWs ((l.absorb 1).emit .lparen), .args)

def lexRightParen (l : L) : L × Tag :=
  let l := skipWs ((l.absorb 1).emit .rparen)
  let (l, r) := l.peek
  if r.cp == 123 then (l, .leftBrace)
  else if l.hasPrefix [45, 62] then (l, .outputOp)
  else
    let (l, eol) := l.atEOL
    if eol || l.atEOF || isIdent r then (l, .start)
    else if r.cp == 35 then (l, .hash)
    else l.error

def lexOutputOp (l : L) : L × Tag :=
  let l := skipWs ((l.absorb 2).emit .output)
  let (l, r) := l.next
  if r.cp == 34 then (l, .string)
  else if r.cp == 40 then (l.backup, .leftParen)
  else if isIdent r then (l, .ident)
  else if r.cp == 123 then l.backup.error
  else if isPunct r then l.error
  else l.backup.error

def lexLeftBrace (l : L) : L × Tag := (skipWs ((l.absorb 1).emit .lbrace), .taskBody)
def lexRightBrace (l : L) : L × Tag := ((l.absorb 1).emit .rbrace, .start)

def lexTaskBody (l : L) : L × Tag :=
  if l.atEOF then l.error else
  let l := skipWs l
  let (l, r) := l.next
  if r.cp == 125 then (l.backup, .rightBrace)
  else if isLetter r then (l, .taskCommands)
  else l.error

def endsWith (tokRev : List Rune) (c : Nat) : Bool := match tokRev with | r :: _ => r.cp == c | [] => false

partial def lexTaskCommands (l : L) : L × Tag :=
  let (l, r) := l.next
  if r.cp == 10 then
    let l := l.backup
    let l := if l.repaired && endsWith l.tokRev 13 then l.stepBack else l
    lexTaskCommands (skipWs (l.emit .command))
  else if l.hasPrefix [123, 123] then lexTaskCommands (l.absorb 2)
  else if l.hasPrefix [125, 125] then lexTaskCommands (l.absorb 2)
  else if r.cp == 125 then
    let l := l.backup
    let l := if endsWith l.tokRev 32 then l.stepBack else l
    let l := if !l.tokRev.isEmpty then l.emit .command else l
    (skipWs l, .rightBrace)
  else if l.atEOF || r.cp == 35 then l.error
  else if isASCII r then lexTaskCommands l
  else l.backup.error

def lexTaskName (l : L) : L × Tag :=
  let l := skipWs ((scanIdent l).emit .ident)
  let (l, r) := l.peek
  if r.cp != 40 then l.error else (l, .leftParen)

def lexIdent (l : L) : L × Tag :=
  let l := skipWs ((scanIdent l).emit .ident)
  let (l, r) := l.peek
  if r.cp == 40 then (l, .leftParen)
  else if l.hasPrefix [58, 61] then (l, .declare)
  else
    let (l, eol) := l.atEOL
    if eol || l.atEOF then (l, .start)
    else
      let (l, r) := l.peek
      if r.cp == 41 then (l, .rightParen)
      else if r.cp == 44 then (l, .comma)
      else if r.cp == 123 then (l, .leftBrace)
      else l.error

def lexArgs (l : L) : L × Tag :=
  let l := skipWs l
  let (l, r) := l.next
  if r.cp == 41 then (l.backup, .rightParen)
  else if r.cp == 34 then (l, .string)
  else if isIdent r then (l, .ident)
  else if r.cp == 44 then (l.backup, .comma)
  else if r.cp == 123 then (l.backup, .leftBrace)
  else l.error

def lexComma (l : L) : L × Tag :=
  let l := skipWs ((l.absorb 1).emit .comma)
  let (l, r) := l.next
  if r.cp == 34 then (l, .string)
  else if isIdent r then (l, .ident)
  else if r.cp == 41 then (l.backup, .rightParen)
  else l.backup.error

def lexDeclare (l : L) : L × Tag :=
  let l := skipWs (((skipWs l).absorb 2).emit .declare)
  let (l, r) := l.next
  if r.cp == 34 then (l, if l.repaired then .declString else .string)
  else if isIdent r then (l, .ident)
  else l.backup.error

/-- the scanning loop of lexString: `.error l` = unterminated, with the state the Go code is in when it
    builds the message (after its `backup()`, whose width may come from the peek inside atEOL) -/
partial def scanString (l : L) : Except L L :=
  let (l, r) := l.next
  if r.cp == 34 then .ok l
  else if l.atEOF then .error l.backup
  else
    let (l', eol) := l.atEOL
    if eol then .error l'.backup else scanString l'

def lexString (l : L) : L × Tag :=
  match scanString l with
  | .error l => l.error
  | .ok l =>
    let l := l.emit .string
    if l.atEOF then (l, .start) else
    let (l, eol) := l.atEOL
    if eol then (l, .start) else (l, .args)

partial def skipBlanks (l : L) : L :=
  let (l', r) := l.peek
  if r.cp == 32 || r.cp == 9 then skipBlanks (l'.next).1 else l'

def lexDeclString (l : L) : L × Tag :=
  match scanString l with
  | .error l => l.error
  | .ok l =>
    let l := (skipBlanks (l.emit .string)).discard
    let (l, eol) := l.atEOL
    if l.atEOF || eol then (l, .start) else l.error

def stepTag (l : L) : Tag → L × Tag
  | .start => lexStart l | .hash => lexHash l | .comment => lexComment l | .taskKeyword => lexTaskKeyword l
  | .leftParen => lexLeftParen l | .rightParen => lexRightParen l | .outputOp => lexOutputOp l
  | .leftBrace => lexLeftBrace l | .rightBrace => lexRightBrace l | .taskBody => lexTaskBody l
  | .taskCommands => lexTaskCommands l | .taskName => lexTaskName l | .ident => lexIdent l | .args => lexArgs l
  | .comma => lexComma l | .declare => lexDeclare l | .string => lexString l | .declString => lexDeclString l
  | .done => (l, .done)

partial def run (l : L) (t : Tag) : L :=
  if t == .done then l else let (l', t') := stepTag l t; run l' t'

def lex (repaired : Bool) (bytes : List UInt8) : Array Tok :=
  (run ⟨[], decodeAll bytes, [], 0, 0, 1, 1, 0, #[], repaired⟩ .start).toks

end FullLexer
