/-! scratch prototype 3: the (repaired) runner as a pc-style machine with crash points, ghost `last`,
    invariant, skip soundness (C01/C10/C14) -/
namespace RunM

abbrev Name := Nat
abbrev Digest := Nat

structure Inputs where
  n : Nat
  items : List (Nat × Nat)
deriving DecidableEq

abbrev Map := Name → Option Digest
def upd {β} (m : Name → β) (t : Name) (v : β) : Name → β := fun u => if u = t then v else m u

inductive Disk where
  | missing | corrupt | valid (m : Map)

structure TaskIn where
  name : Name
  inp : Inputs
  ok : Bool

inductive Pc where
  | boot | initializing | decide
  | invalidating (old : Option Digest) | invalidated (old : Option Digest)
  | executed (old : Option Digest) | committing
  | finished | cacheError

inductive Out where | skipped | ranOk | ranFail

structure St where
  force : Bool
  todo : List TaskIn
  pc : Pc
  mem : Map
  disk : Disk
  last : Name → Option Inputs
  out : List (Name × Out)

variable (digest : Inputs → Digest)

def res (t : TaskIn) : Out := if t.ok then .ranOk else .ranFail

def step (s : St) : St :=
  match s.pc with
  | .boot =>
    match s.disk with
    | .missing => { s with pc := .initializing, disk := .corrupt }
    | .corrupt => { s with pc := .cacheError }
    | .valid m => { s with pc := .decide, mem := m }
  | .initializing => { s with pc := .decide, mem := fun _ => none, disk := .valid fun _ => none }
  | .decide =>
    match s.todo with
    | [] => { s with pc := .finished }
    | t :: rest =>
      if !s.force && decide (t.inp.n > 0) && s.mem t.name == some (digest t.inp) then
        { s with todo := rest, out := s.out ++ [(t.name, .skipped)] }
      else if (s.mem t.name).isSome then
        { s with pc := .invalidating (s.mem t.name), mem := upd s.mem t.name none, disk := .corrupt }
      else { s with pc := .invalidated none }
  | .invalidating old => { s with pc := .invalidated old, disk := .valid s.mem }
  | .invalidated old =>
    match s.todo with
    | [] => s
    | t :: _ => { s with pc := .executed old, last := if t.ok then upd s.last t.name (some t.inp) else s.last }
  | .executed old =>
    match s.todo with
    | [] => s
    | t :: rest =>
      let v : Option Digest := if t.ok then (if t.inp.n > 0 then some (digest t.inp) else none) else old
      if v.isSome then { s with pc := .committing, mem := upd s.mem t.name v, disk := .corrupt }
      else { s with pc := .decide, todo := rest, out := s.out ++ [(t.name, res t)] }
  | .committing =>
    match s.todo with
    | [] => s
    | t :: rest => { s with pc := .decide, todo := rest, disk := .valid s.mem, out := s.out ++ [(t.name, res t)] }
  | .finished => s
  | .cacheError => s

/-- a recorded digest is the digest of the inputs of the last successful completion -/
def Just (last : Name → Option Inputs) (t : Name) (o : Option Digest) : Prop :=
  ∀ d, o = some d → ∃ i, last t = some i ∧ digest i = d

def InvMap (last : Name → Option Inputs) (m : Map) : Prop := ∀ t, Just digest last t (m t)

def InvDisk (last : Name → Option Inputs) : Disk → Prop
  | .valid m => InvMap digest last m
  | .missing => ∀ t, last t = none
  | .corrupt => True

def InvPc (s : St) : Prop :=
  match s.pc, s.todo with
  | .boot, _ => InvDisk digest s.last s.disk
  | .initializing, _ => s.disk = .corrupt
  | .decide, _ => s.disk = .valid s.mem
  | .finished, _ => s.disk = .valid s.mem
  | .cacheError, _ => s.disk = .corrupt
  | .committing, _ => s.disk = .corrupt
  | .invalidating old, t :: _ => s.disk = .corrupt ∧ s.mem t.name = none ∧ Just digest s.last t.name old
  | .invalidated old, t :: _ => s.disk = .valid s.mem ∧ s.mem t.name = none ∧ Just digest s.last t.name old
  | .executed old, t :: _ => s.disk = .valid s.mem ∧ s.mem t.name = none ∧
        (t.ok = true → s.last t.name = some t.inp) ∧ (t.ok = false → Just digest s.last t.name old)
  | .invalidating _, [] => False
  | .invalidated _, [] => False
  | .executed _, [] => False

def Inv (s : St) : Prop := InvMap digest s.last s.mem ∧ InvPc digest s

theorem invMap_upd {last : Name → Option Inputs} {m : Map} (t : Name) (v : Option Digest)
    (h : InvMap digest last m) (hv : Just digest last t v) : InvMap digest last (upd m t v) := by
  intro u d hu
  unfold upd at hu
  split at hu
  · rename_i e; subst e; exact hv d hu
  · exact h u d hu

theorem just_none (last : Name → Option Inputs) (t : Name) : Just digest last t none := by
  intro d hx; cases hx

/-- a successful completion of `t` keeps every map justified, provided `t`'s own entry is empty -/
theorem invMap_last_upd {last : Name → Option Inputs} {m : Map} (t : Name) (i : Inputs)
    (h : InvMap digest last m) (hnone : m t = none) : InvMap digest (upd last t (some i)) m := by
  intro u d hu
  by_cases e : u = t
  · subst e; rw [hnone] at hu; cases hu
  · obtain ⟨j, hj, hdj⟩ := h u d hu
    exact ⟨j, by simp [upd, e, hj], hdj⟩

theorem step_inv (s : St) (h : Inv digest s) : Inv digest (step digest s) := by
  obtain ⟨hm, hp⟩ := h
  unfold step
  split
  · -- boot
    rename_i hpc
    simp only [InvPc, hpc] at hp
    split
    · exact ⟨hm, by simp [InvPc]⟩
    · rename_i hdk; exact ⟨hm, by simp [InvPc, hdk]⟩
    · rename_i m hdk
      rw [hdk] at hp
      exact ⟨hp, by simp [InvPc, hdk]⟩
  · -- initializing
    exact ⟨fun t => just_none digest _ _, by simp [InvPc]⟩
  · -- decide
    rename_i hpc
    simp only [InvPc, hpc] at hp
    split
    · exact ⟨hm, by simp [InvPc, hp]⟩
    · rename_i t rest hto
      split
      · exact ⟨hm, by simp [InvPc, hpc, hp]⟩
      · split
        · refine ⟨invMap_upd digest _ _ hm (just_none digest _ _), ?_⟩
          simp only [InvPc, hto]
          exact ⟨trivial, by simp [upd], hm t.name⟩
        · rename_i hnone
          refine ⟨hm, ?_⟩
          simp only [InvPc, hto]
          exact ⟨hp, by simpa using hnone, just_none digest _ _⟩
  · -- invalidating
    rename_i old hpc
    cases hto : s.todo with
    | nil => simp [InvPc, hpc, hto] at hp
    | cons t rest =>
      simp only [InvPc, hpc, hto] at hp
      exact ⟨hm, by simp only [InvPc, hto]; exact ⟨trivial, hp.2⟩⟩
  · -- invalidated
    rename_i old hpc
    split
    · rename_i hto; simp [InvPc, hpc, hto] at hp
    · rename_i t rest hto
      simp only [InvPc, hpc, hto] at hp
      obtain ⟨hdk, hnone, hold⟩ := hp
      by_cases hok : t.ok = true
      · simp only [hok, if_true]
        refine ⟨invMap_last_upd digest _ _ hm hnone, ?_⟩
        simp only [InvPc, hto]
        exact ⟨hdk, hnone, fun _ => by simp [upd], fun h => by simp [hok] at h⟩
      · simp only [hok]
        refine ⟨hm, ?_⟩
        simp only [InvPc, hto]
        exact ⟨hdk, hnone, fun h => absurd h hok, fun _ => hold⟩
  · -- executed
    rename_i old hpc
    split
    · rename_i hto; simp [InvPc, hpc, hto] at hp
    · rename_i t rest hto
      simp only [InvPc, hpc, hto] at hp
      obtain ⟨hdk, hnone, hokc, hfail⟩ := hp
      have hv : Just digest s.last t.name
          (if t.ok then (if t.inp.n > 0 then some (digest t.inp) else none) else old) := by
        by_cases hok : t.ok = true
        · simp only [hok, if_true]
          split
          · intro d hx; cases hx; exact ⟨t.inp, hokc hok, rfl⟩
          · exact just_none digest _ _
        · have hf : t.ok = false := by simpa using hok
          simp only [hf]
          exact hfail hf
      simp only []
      generalize (if t.ok then (if t.inp.n > 0 then some (digest t.inp) else none) else old) = v at hv ⊢
      by_cases hs : v.isSome = true
      · simp only [hs, if_true]
        exact ⟨invMap_upd digest _ _ hm hv, by simp [InvPc]⟩
      · simp only [hs]
        exact ⟨hm, by simp [InvPc, hdk]⟩
  · -- committing
    split
    · exact ⟨hm, hp⟩
    · exact ⟨hm, by simp [InvPc]⟩
  · exact ⟨hm, hp⟩
  · exact ⟨hm, hp⟩

/-- C01/C10/C14 core: whenever the machine skips, the ghost agrees — or the digest collided -/
theorem skip_sound (s : St) (h : Inv digest s) (t : TaskIn) (rest : List TaskIn)
    (hpc : s.pc = .decide) (hto : s.todo = t :: rest)
    (hskip : (!s.force && decide (t.inp.n > 0) && s.mem t.name == some (digest t.inp)) = true) :
    s.last t.name = some t.inp ∨ ∃ i, i ≠ t.inp ∧ digest i = digest t.inp := by
  simp at hskip
  obtain ⟨i, hi, hdi⟩ := h.1 t.name _ hskip.2
  by_cases e : i = t.inp
  · left; rw [← e]; exact hi
  · right; exact ⟨i, e, hdi⟩

/-- C14: a forced run never skips -/
theorem force_never_skips (s : St) (t : TaskIn) (hf : s.force = true) :
    (!s.force && decide (t.inp.n > 0) && s.mem t.name == some (digest t.inp)) = false := by
  simp [hf]

/-- the on-disk state is always corrupt, or justified: what a crash at this point leaves behind -/
theorem inv_disk (s : St) (h : Inv digest s) : InvDisk digest s.last s.disk := by
  obtain ⟨hm, hp⟩ := h
  unfold InvPc at hp
  split at hp <;> first
    | exact hp
    | (rw [hp]; first | exact hm | trivial)
    | (rw [hp.1]; first | exact hm | trivial)
    | exact hp.elim

end RunM

#print axioms RunM.step_inv
#print axioms RunM.skip_sound
#print axioms RunM.inv_disk
