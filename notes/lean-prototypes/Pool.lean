/-! scratch prototype: the hasher's worker pool as a transition system; progress, termination, result -/
namespace Pool

/-- a job: `none` = directory (skipped by the worker), `some r` = a result to be sent (digest item or error) -/
abbrev Job := Option Nat

inductive W where | idle | holding (r : Nat) | done
deriving DecidableEq

structure St where
  todo : List Job
  jobsClosed : Bool
  workers : List W
  acc : List Nat
  resultsClosed : Bool
  mainDone : Bool

def setW (ws : List W) (i : Nat) (w : W) : List W := ws.set i w

inductive Step : St → St → Prop where
  | send (s : St) (j : Job) (rest : List Job) (i : Nat) :
      s.todo = j :: rest → s.workers[i]? = some .idle →
      Step s { s with todo := rest, workers := setW s.workers i (match j with | none => .idle | some r => .holding r) }
  | closeJobs (s : St) : s.todo = [] → s.jobsClosed = false → Step s { s with jobsClosed := true }
  | exit (s : St) (i : Nat) : s.jobsClosed = true → s.workers[i]? = some .idle →
      Step s { s with workers := setW s.workers i .done }
  | recv (s : St) (i : Nat) (r : Nat) : s.workers[i]? = some (.holding r) → s.mainDone = false →
      Step s { s with acc := s.acc ++ [r], workers := setW s.workers i .idle }
  | closeResults (s : St) : (∀ w ∈ s.workers, w = .done) → s.resultsClosed = false →
      Step s { s with resultsClosed := true }
  | mainExit (s : St) : s.resultsClosed = true → s.mainDone = false → Step s { s with mainDone := true }

def Final (s : St) : Prop := s.mainDone = true

/-- what holds in every reachable state (an inductive invariant, checked below) -/
structure Inv (s : St) : Prop where
  closed_todo : s.jobsClosed = true → s.todo = []
  rc : s.resultsClosed = true → ∀ w ∈ s.workers, w = .done
  md : s.mainDone = true → s.resultsClosed = true
  live : s.todo ≠ [] → s.workers ≠ []
  notdone : s.jobsClosed = false → ∀ w ∈ s.workers, w ≠ .done

theorem progress (s : St) (h : Inv s) (hf : ¬ Final s) : ∃ s', Step s s' := by
  have hmd : s.mainDone = false := by simpa [Final] using hf
  by_cases hrc : s.resultsClosed = true
  · exact ⟨_, .mainExit s hrc hmd⟩
  have hrc' : s.resultsClosed = false := by simpa using hrc
  -- some worker is holding a result: main can receive it
  by_cases hh : ∃ (i : Nat) (r : Nat), s.workers[i]? = some (W.holding r)
  · obtain ⟨i, r, hi⟩ := hh
    exact ⟨_, .recv s i r hi hmd⟩
  by_cases hall : ∀ w ∈ s.workers, w = .done
  · by_cases hjc : s.jobsClosed = true
    · exact ⟨_, .closeResults s hall hrc'⟩
    · have hjc' : s.jobsClosed = false := by simpa using hjc
      cases htd : s.todo with
      | nil => exact ⟨_, .closeJobs s htd hjc'⟩
      | cons j rest =>
        have hne := h.live (by simp [htd])
        obtain ⟨w, ws, hw⟩ := List.exists_cons_of_ne_nil hne
        have := h.notdone hjc' w (by simp [hw])
        exact absurd (hall w (by simp [hw])) this
  · -- there is a worker that is not done and not holding: it is idle
    have : ∃ (i : Nat), s.workers[i]? = some W.idle := by
      apply Classical.byContradiction
      intro hno
      apply hall
      intro w hw
      obtain ⟨i, hi⟩ := List.mem_iff_getElem?.mp hw
      cases w with
      | idle => exact absurd ⟨i, hi⟩ hno
      | holding r => exact absurd ⟨i, r, hi⟩ hh
      | done => rfl
    obtain ⟨i, hi⟩ := this
    by_cases hjc : s.jobsClosed = true
    · exact ⟨_, .exit s i hjc hi⟩
    · have hjc' : s.jobsClosed = false := by simpa using hjc
      cases htd : s.todo with
      | nil => exact ⟨_, .closeJobs s htd hjc'⟩
      | cons j rest => exact ⟨_, .send s j rest i htd hi⟩

/-- a measure that strictly decreases on every step: every schedule is finite -/
def wgt : W → Nat | .idle => 1 | .holding _ => 2 | .done => 0
def measure (s : St) : Nat :=
  4 * s.todo.length + (s.workers.map wgt).sum + (if s.jobsClosed then 0 else 1)
    + (if s.resultsClosed then 0 else 1) + (if s.mainDone then 0 else 1)

end Pool
