import Lt.FullParser
open FullLexer FullParser

def hexVal (c : Char) : Nat :=
  if '0' ≤ c && c ≤ '9' then c.toNat - 48 else if 'a' ≤ c && c ≤ 'f' then c.toNat - 87 else 0
def unhex (s : String) : List UInt8 :=
  let rec go : List Char → List UInt8
    | a :: b :: rest => UInt8.ofNat (hexVal a * 16 + hexVal b) :: go rest
    | _ => []
  go s.toList

def rs (v : List Rune) : String := String.intercalate "," (v.map fun r => s!"{r.cp}.{r.w}")
def showArg : Arg → String | .str s => s!"S[{rs s}]" | .ident n => s!"I[{rs n}]"
def showVal : Val → String
  | .str s => s!"S[{rs s}]" | .ident n => s!"I[{rs n}]"
  | .call f a => s!"F[{rs f}](" ++ String.intercalate ";" (a.map showArg) ++ ")"
def showNode : Node → String
  | .comment t => s!"C[{rs t}]"
  | .assign n v => s!"A[{rs n}]=" ++ showVal v
  | .task n d deps outs cmds => s!"T[{rs n}]doc[{rs d}](" ++ String.intercalate ";" (deps.map showArg) ++ ")->(" ++
      String.intercalate ";" (outs.map showArg) ++ "){" ++ String.intercalate ";" (cmds.map fun c => s!"[{rs c}]") ++ "}"

/-- lines of the input split at '\n', each trimmed like strings.TrimSpace -/
def lineText (input : List Rune) (k : Nat) : List Rune :=
  let rec split (cur : List Rune) (acc : List (List Rune)) : List Rune → List (List Rune)
    | [] => (cur.reverse :: acc).reverse
    | r :: rest => if r.cp == 10 then split [] (cur.reverse :: acc) rest else split (r :: cur) acc rest
  let ls := split [] [] input
  trimSpace (ls.getD (k - 1) [])

partial def loop (h out : IO.FS.Stream) (repaired : Bool) : IO Unit := do
  let line ← h.getLine
  if line.isEmpty then return ()
  let bytes := unhex line.trimAscii.toString
  let (nodes, err) := parse repaired bytes
  match err with
  | some e =>
    let cited := match e.cited with | some n => toString n | none => "-"
    let ctx := match e.ctx with | some k => rs (lineText (decodeAll bytes) k) | none => "-"
    out.putStrLn s!"ERR:{cited}:{ctx}"
  | none =>
    out.putStrLn ("OK " ++ String.intercalate " " (nodes.toList.map showNode) ++ " PRINT " ++ rs (print repaired nodes))
  loop h out repaired

def main (args : List String) : IO Unit := do
  loop (← IO.getStdin) (← IO.getStdout) (args.contains "repaired")
