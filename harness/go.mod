module verif/harness

go 1.23

require (
	github.com/FollowTheProcess/spok v0.0.0
	github.com/bmatcuk/doublestar/v4 v4.7.1
)

require (
	github.com/FollowTheProcess/collections v0.10.0 // indirect
	github.com/fatih/color v1.18.0 // indirect
	github.com/lithammer/fuzzysearch v1.1.8 // indirect
	github.com/mattn/go-colorable v0.1.13 // indirect
	github.com/mattn/go-isatty v0.0.20 // indirect
	github.com/muesli/cancelreader v0.2.2 // indirect
	go.uber.org/multierr v1.11.0 // indirect
	go.uber.org/zap v1.27.0 // indirect
	golang.org/x/exp v0.0.0-20241009180824-f66d83c29e7c // indirect
	golang.org/x/sync v0.8.0 // indirect
	golang.org/x/sys v0.26.0 // indirect
	golang.org/x/term v0.25.0 // indirect
	golang.org/x/text v0.19.0 // indirect
	mvdan.cc/sh/v3 v3.10.0 // indirect
)

replace github.com/FollowTheProcess/spok => /repo
