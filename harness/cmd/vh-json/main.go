// vh-json: implementation side of the correspondence check for the byte level of the cache file (C10):
// cache.Dump / cache.Load, i.e. encoding/json's Marshal of a map[string]string, its validity scanner and
// Unmarshal into a map[string]string, against lean/Spok/Json/*.lean.
//
// cases (see lean/Spok/Oracle/Json.lean)
//
//	M <n> <k1> <v1> … T <cut>   Set the entries into cache.New(), Dump, cut the file to <cut> bytes, Load
//	B <hex>                     raw bytes as the cache file: json.Valid and cache.Load
//	Q <hex>                     one string through json.Marshal and json.Unmarshal
package main

import (
	"bufio"
	"encoding/json"
	"errors"
	"fmt"
	"math/rand"
	"os"
	"path/filepath"
	"sort"
	"strconv"
	"strings"
	"time"

	"github.com/FollowTheProcess/spok/cache"

	"verif/harness/sup"
)

var base string

func scratchRoot() string {
	if os.Getenv("VERIF_TMP") != "" {
		return os.Getenv("VERIF_TMP")
	}
	if st, err := os.Stat("/dev/shm"); err == nil && st.IsDir() {
		if f, err := os.CreateTemp("/dev/shm", "vhprobe"); err == nil {
			f.Close()
			os.Remove(f.Name())
			return "/dev/shm"
		}
	}
	return os.TempDir()
}

func ensureBase() string {
	if base == "" {
		b, err := os.MkdirTemp(scratchRoot(), fmt.Sprintf("vhjson-%d-", os.Getppid()))
		if err != nil {
			panic(err)
		}
		base = b
	}
	return base
}

func hx(b []byte) string {
	if len(b) == 0 {
		return "-"
	}
	return fmt.Sprintf("%x", b)
}

func unhx(s string) ([]byte, bool) {
	if s == "-" {
		return nil, true
	}
	t, ok := sup.Unhx(s)
	return []byte(t), ok
}

// loadObs: what cache.Load makes of the file at path
func loadObs(path string) (out string) {
	defer func() {
		if r := recover(); r != nil {
			out = "crash"
		}
	}()
	c, err := cache.Load(path)
	if err != nil {
		var se *json.SyntaxError
		var te *json.UnmarshalTypeError
		switch {
		case errors.As(err, &se):
			return "syntax"
		case errors.As(err, &te):
			return "type"
		}
		return "other"
	}
	// the package offers no iteration: what it holds is read back through its own Dump
	back := path + ".back"
	if err := c.Dump(back); err != nil {
		return "other"
	}
	raw, err := os.ReadFile(back)
	if err != nil {
		return "other"
	}
	if string(raw) == "null" {
		return "null"
	}
	var m map[string]string
	if err := json.Unmarshal(raw, &m); err != nil {
		return "crash"
	}
	keys := make([]string, 0, len(m))
	for k := range m {
		keys = append(keys, k)
	}
	sort.Strings(keys)
	var sb strings.Builder
	fmt.Fprintf(&sb, "ok %d", len(keys))
	for _, k := range keys {
		// every key is asked for through Get as well: Dump and Get must agree
		v, ok := c.Get(k)
		if !ok || v != m[k] {
			return "crash"
		}
		fmt.Fprintf(&sb, " %s %s", hx([]byte(k)), hx([]byte(v)))
	}
	return sb.String()
}

func work(cs string) string {
	f := strings.Fields(cs)
	if len(f) < 2 {
		return "BAD-CASE"
	}
	dir := ensureBase()
	path := filepath.Join(dir, "cache.json")
	switch f[0] {
	case "M":
		n, err := strconv.Atoi(f[1])
		if err != nil || len(f) != 2+2*n+2 || f[2+2*n] != "T" {
			return "BAD-CASE"
		}
		cut, err := strconv.Atoi(f[3+2*n])
		if err != nil {
			return "BAD-CASE"
		}
		c := cache.New()
		for i := 0; i < n; i++ {
			k, ok1 := unhx(f[2+2*i])
			v, ok2 := unhx(f[3+2*i])
			if !ok1 || !ok2 {
				return "BAD-CASE"
			}
			c.Set(string(k), string(v))
		}
		if err := c.Dump(path); err != nil {
			return "ENC - ; LOAD other"
		}
		enc, err := os.ReadFile(path)
		if err != nil {
			return "ENC - ; LOAD other"
		}
		if cut < len(enc) {
			if err := os.WriteFile(path, enc[:cut], 0o666); err != nil {
				return "ENC - ; LOAD other"
			}
		}
		return fmt.Sprintf("ENC %s ; LOAD %s", hx(enc), loadObs(path))
	case "B":
		b, ok := unhx(f[1])
		if !ok {
			return "BAD-CASE"
		}
		if err := os.WriteFile(path, b, 0o666); err != nil {
			return "VALID 0 ; LOAD other"
		}
		v := 0
		if json.Valid(b) {
			v = 1
		}
		return fmt.Sprintf("VALID %d ; LOAD %s", v, loadObs(path))
	case "Q":
		b, ok := unhx(f[1])
		if !ok {
			return "BAD-CASE"
		}
		enc, err := json.Marshal(string(b))
		if err != nil {
			return "ENC - ; BACK ERR"
		}
		var s string
		if err := json.Unmarshal(enc, &s); err != nil {
			return fmt.Sprintf("ENC %s ; BACK ERR", hx(enc))
		}
		return fmt.Sprintf("ENC %s ; BACK %s", hx(enc), hx([]byte(s)))
	}
	return "BAD-CASE"
}

// ---------------------------------------------------------------------------------------------
// generation

var keyPool = []string{
	"a", "b", "build", "test", "lint_all", "Z9", "_x", "über", "任务", "naïve_ä", "ab", "a/b", "",
	"q\"uote", "back\\slash", "lt<gt>", "amp&", "tab\there", "nl\nx", "ctl\x01", "del\x7f", "bs\bff\f", "cr\r",
	"sep\u2028x", "sep\u2029", "bad\xff", "bad\xc3", "\xe2\x82", "sur\xed\xa0\x80", "emoji😀", "\ufffd", "sl/ash", "ap'os",
}

var valPool = []string{
	"", "", "0123456789abcdef0123456789abcdef0123456789abcdef0123456789abcdef",
	"e3b0c44298fc1c149afbf4c8996fb92427ae41e4649b934ca495991b7852b855", "DIFFERENT", "x", "{}", "\"", "\\", "a,b", "}",
	"\x00", "<&>", "\u2028", "\xfe", "nu\"ll", "[1]", ":", "é", "\\u0041", "\\", "\\\"",
}

func mapCase(kv [][2]string, cut int) string {
	var sb strings.Builder
	fmt.Fprintf(&sb, "M %d", len(kv))
	for _, e := range kv {
		fmt.Fprintf(&sb, " %s %s", hx([]byte(e[0])), hx([]byte(e[1])))
	}
	fmt.Fprintf(&sb, " T %d", cut)
	return sb.String()
}

func encLen(kv [][2]string) int {
	m := map[string]string{}
	for _, e := range kv {
		m[e[0]] = e[1]
	}
	b, _ := json.Marshal(m)
	return len(b)
}

func randMap(rng *rand.Rand, maxN int, plain bool) [][2]string {
	n := rng.Intn(maxN + 1)
	seen := map[string]bool{}
	var kv [][2]string
	for len(kv) < n {
		var k string
		if plain {
			k = keyPool[rng.Intn(12)]
		} else {
			k = keyPool[rng.Intn(len(keyPool))]
		}
		if rng.Intn(5) == 0 {
			k += strconv.Itoa(rng.Intn(30))
		}
		if seen[k] {
			continue
		}
		seen[k] = true
		var v string
		if plain {
			v = valPool[rng.Intn(5)]
		} else {
			v = valPool[rng.Intn(len(valPool))]
		}
		kv = append(kv, [2]string{k, v})
	}
	return kv
}

// every prefix of what Dump writes for the map (and two cuts beyond its end)
func allCuts(w *bufio.Writer, kv [][2]string) {
	n := encLen(kv)
	for cut := 0; cut <= n+1; cut++ {
		fmt.Fprintln(w, mapCase(kv, cut))
	}
}

var alphabet = []string{"{", "}", "\"", ":", ",", "a", "\\", "u", "0", "n", "l", "[", "]", "1", " ", "t", "e", "-", ".", "\n", "\x80"}

func smallStrings(w *bufio.Writer, maxLen int, alpha []string) {
	var rec func(prefix string, left int)
	rec = func(prefix string, left int) {
		fmt.Fprintf(w, "B %s\n", hx([]byte(prefix)))
		if left == 0 {
			return
		}
		for _, a := range alpha {
			rec(prefix+a, left-1)
		}
	}
	rec("", maxLen)
}

var jsonAtoms = []string{"null", "true", "false", "0", "-1", "1.5e3", "12", "\"\"", "\"x\"", "\"\\n\"", "\"\\u00e9\"", "\"\\ud83d\\ude00\"", "\"\\ud800\"", "\"\\udc00x\"", "\"\\ud800\\u0041\"", "\"é\"", "\"\xff\"", "[]", "{}", "[1,2]", "{\"a\":1}", "\"a\\/b\"", "\"\\\"\""}
var wsPool = []string{"", "", "", " ", "\n", "\t", "\r\n", "  "}

func randValue(rng *rand.Rand, depth int) string {
	if depth > 0 && rng.Intn(6) == 0 {
		n := rng.Intn(3)
		var parts []string
		for i := 0; i < n; i++ {
			parts = append(parts, randValue(rng, depth-1))
		}
		return "[" + strings.Join(parts, ",") + "]"
	}
	if depth > 0 && rng.Intn(6) == 0 {
		return randObject(rng, depth-1, 2, false)
	}
	return jsonAtoms[rng.Intn(len(jsonAtoms))]
}

func randKeyLit(rng *rand.Rand) string {
	k := keyPool[rng.Intn(len(keyPool))]
	b, _ := json.Marshal(k)
	if rng.Intn(8) == 0 {
		return jsonAtoms[7+rng.Intn(9)] // hand-written literals with escapes, surrogates, raw bad bytes
	}
	return string(b)
}

// an object document: mostly string values (what Load accepts), with white space, duplicates, nulls and strays
func randObject(rng *rand.Rand, depth, maxN int, mostlyStrings bool) string {
	n := rng.Intn(maxN + 1)
	ws := func() string { return wsPool[rng.Intn(len(wsPool))] }
	var sb strings.Builder
	sb.WriteString("{" + ws())
	var prev string
	for i := 0; i < n; i++ {
		if i > 0 {
			sb.WriteString(ws() + "," + ws())
		}
		k := randKeyLit(rng)
		if prev != "" && rng.Intn(6) == 0 {
			k = prev // a duplicate key
		}
		prev = k
		var v string
		switch {
		case mostlyStrings && rng.Intn(10) < 7:
			b, _ := json.Marshal(valPool[rng.Intn(len(valPool))])
			v = string(b)
		case mostlyStrings && rng.Intn(3) == 0:
			v = "null"
		default:
			v = randValue(rng, depth)
		}
		sb.WriteString(k + ws() + ":" + ws() + v)
	}
	sb.WriteString(ws() + "}")
	return sb.String()
}

func mutate(rng *rand.Rand, b []byte) []byte {
	out := append([]byte{}, b...)
	for k := rng.Intn(3) + 1; k > 0 && len(out) > 0; k-- {
		i := rng.Intn(len(out))
		switch rng.Intn(5) {
		case 0:
			out = append(out[:i], out[i+1:]...)
		case 1:
			{
				sp := "{}\":,\\u0n[] \n\x00\x7f\xff"
				out[i] = sp[rng.Intn(len(sp))]
			}
		case 2:
			{
				sp := "{}\":,\\ \n[]t"
				out = append(out[:i], append([]byte{sp[rng.Intn(len(sp))]}, out[i:]...)...)
			}
		case 3:
			j := rng.Intn(len(out))
			out[i], out[j] = out[j], out[i]
		case 4:
			out = out[:i]
		}
	}
	return out
}

func gen(w *bufio.Writer, args map[string]string) {
	sup.CorpusLines(w, "json")
	thorough := args["tier"] == "thorough"
	rng := rand.New(rand.NewSource(int64(sup.Atoi(args["seed"], 1))*7919 + 17))

	// (1) torn writes: every cut of what Dump writes, for fixed maps of every shape and for random maps
	fixed := [][][2]string{
		{},
		{{"a", ""}},
		{{"a", ""}, {"b", ""}},
		{{"build", valPool[2]}},
		{{"build", valPool[2]}, {"test", ""}, {"lint_all", valPool[3]}},
		{{"任务", valPool[3]}, {"über", ""}},
		{{"b", "x"}, {"a", "y"}, {"ab", "z"}, {"", "w"}},
		{{"q\"uote", "\\"}, {"ctl\x01", "<&>"}, {"bad\xff", "\xfe"}, {"sep\u2028x", "\u2028"}},
		{{"k", "}"}, {"k2", "\"}"}, {"k3", "{}"}},
	}
	for _, m := range fixed {
		allCuts(w, m)
	}
	nm := 60
	if thorough {
		nm = 1500
	}
	for i := 0; i < nm; i++ {
		allCuts(w, randMap(rng, 4, i%3 != 0))
	}

	// (2) single strings through Marshal / Unmarshal: every byte alone and in context, pool strings, random strings
	for b := 0; b < 256; b++ {
		fmt.Fprintf(w, "Q %s\n", hx([]byte{byte(b)}))
		fmt.Fprintf(w, "Q %s\n", hx([]byte{'a', byte(b), 'z'}))
		fmt.Fprintf(w, "Q %s\n", hx([]byte{0xe2, 0x80, byte(b)}))
		fmt.Fprintf(w, "Q %s\n", hx([]byte{0xf0, 0x9f, byte(b), 0x80}))
	}
	for _, s := range append(append([]string{}, keyPool...), valPool...) {
		fmt.Fprintf(w, "Q %s\n", hx([]byte(s)))
	}
	nq := 3000
	if thorough {
		nq = 60000
	}
	for i := 0; i < nq; i++ {
		n := rng.Intn(8)
		b := make([]byte, n)
		for j := range b {
			switch rng.Intn(4) {
			case 0:
				b[j] = byte(rng.Intn(256))
			case 1:
				{
					sp := "\"\\<>&\n\t\x00\x1f\x7f /u"
					b[j] = sp[rng.Intn(len(sp))]
				}
			case 2:
				b[j] = []byte{0xe2, 0x80, 0xa8, 0xa9, 0xef, 0xbf, 0xbd, 0xed, 0xa0, 0x80, 0xc3, 0xa9, 0xf0, 0x9f, 0x98, 0x80}[rng.Intn(16)]
			default:
				b[j] = byte('a' + rng.Intn(26))
			}
		}
		fmt.Fprintf(w, "Q %s\n", hx(b))
	}

	// (3) raw documents: every string over a JSON alphabet up to a small length, generated objects and values,
	//     mutations of well-formed cache files
	if thorough {
		smallStrings(w, 5, alphabet)
	} else {
		smallStrings(w, 4, alphabet)
	}
	for _, a := range jsonAtoms {
		fmt.Fprintf(w, "B %s\n", hx([]byte(a)))
		fmt.Fprintf(w, "B %s\n", hx([]byte(" "+a+"\n")))
		fmt.Fprintf(w, "B %s\n", hx([]byte("{\"k\":"+a+"}")))
		fmt.Fprintf(w, "B %s\n", hx([]byte("{\"k\":"+a+",\"k\":\"s\"}")))
		fmt.Fprintf(w, "B %s\n", hx([]byte("{"+a+":\"v\"}")))
		fmt.Fprintf(w, "B %s\n", hx([]byte(a+a)))
	}
	nb := 20000
	if thorough {
		nb = 400000
	}
	for i := 0; i < nb; i++ {
		var doc string
		switch i % 4 {
		case 0, 1:
			doc = randObject(rng, 2, 4, true)
		case 2:
			doc = wsPool[rng.Intn(len(wsPool))] + randValue(rng, 3) + wsPool[rng.Intn(len(wsPool))]
		case 3:
			m := map[string]string{}
			for _, e := range randMap(rng, 4, false) {
				m[e[0]] = e[1]
			}
			b, _ := json.Marshal(m)
			doc = string(b)
		}
		if i%2 == 1 {
			doc = string(mutate(rng, []byte(doc)))
		}
		fmt.Fprintf(w, "B %s\n", hx([]byte(doc)))
	}
	// deep nesting: the scanner gives up beyond 10000 levels
	for _, d := range []int{9999, 10000, 10001} {
		fmt.Fprintf(w, "B %s\n", hx([]byte(strings.Repeat("[", d)+strings.Repeat("]", d))))
	}
}

func main() {
	if len(os.Args) > 1 && os.Args[1] == "exec" {
		defer func() {
			old, _ := filepath.Glob(filepath.Join(scratchRoot(), fmt.Sprintf("vhjson-%d-*", os.Getpid())))
			for _, d := range old {
				_ = os.RemoveAll(d)
			}
		}()
	}
	defer func() {
		if base != "" {
			_ = os.RemoveAll(base)
		}
	}()
	sup.Main("json", &sup.Engine{Gen: gen, Work: work, Recycle: 0, Timeout: 20 * time.Second})
}
