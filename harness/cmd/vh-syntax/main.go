package main

import (
	"bufio"
	"context"
	"fmt"
	"math/rand"
	"os"
	"os/exec"
	"path/filepath"
	"regexp"
	"strconv"
	"strings"
	"text/template"
	"time"
	"unicode"

	"github.com/FollowTheProcess/spok/ast"
	"github.com/FollowTheProcess/spok/lexer"
	"github.com/FollowTheProcess/spok/parser"
	"github.com/FollowTheProcess/spok/token"

	"verif/harness/sup"
)

func main() {
	if len(os.Args) > 1 && os.Args[1] == "exec" {
		defer func() {
			// scratch directories of workers that were killed or crashed
			for _, root := range []string{"/dev/shm", os.TempDir()} {
				old, _ := filepath.Glob(filepath.Join(root, fmt.Sprintf("vhsyn-%d-*", os.Getpid())))
				for _, d := range old {
					_ = os.RemoveAll(d)
				}
			}
		}()
	}
	defer func() {
		if binBase != "" {
			_ = os.RemoveAll(binBase)
		}
	}()
	sup.Main("syntax", &sup.Engine{Gen: syntaxGen, Work: syntaxWork, Recycle: 20000, Timeout: 30 * time.Second,
		Poison: func(res string) bool { return strings.Contains(res, " hang") }})
}

var hx, unhx, withWatchdog, atoi = sup.Hx, sup.Unhx, sup.WithWatchdog, sup.Atoi

var ttCodes = map[token.Type]string{
	token.EOF: "EOF", token.ERROR: "ERR", token.COMMENT: "COMMENT", token.HASH: "HASH", token.LPAREN: "LPAREN",
	token.RPAREN: "RPAREN", token.LBRACE: "LBRACE", token.RBRACE: "RBRACE", token.QUOTE: "QUOTE", token.COMMA: "COMMA",
	token.TASK: "TASK", token.STRING: "STRING", token.COMMAND: "COMMAND", token.OUTPUT: "OUTPUT", token.IDENT: "IDENT",
	token.DECLARE: "DECLARE", token.LINTERP: "LINTERP", token.RINTERP: "RINTERP",
}

var citeRe = regexp.MustCompile(`^(\d+) \|\t`)

// errLoc extracts (cited line, quoted context) from a spok syntax error message
func errLoc(msg string) (int, string, bool) {
	i := strings.LastIndex(msg, "\n\n")
	if i < 0 {
		return 0, "", false
	}
	tail := msg[i+2:]
	m := citeRe.FindStringSubmatch(tail)
	if m == nil {
		return 0, "", false
	}
	n, _ := strconv.Atoi(m[1])
	if !strings.Contains(msg[:i], fmt.Sprintf("(Line %d)", n)) {
		return 0, "", false
	}
	return n, tail[len(m[0]):], true
}

func lexDump(in string) string {
	l := lexer.New(in)
	var out []string
	for i := 0; i < 4*len(in)+16; i++ {
		t := l.NextToken()
		if t.Type == token.ERROR {
			n, _, ok := errLoc(t.Value)
			if !ok {
				n = 0
			}
			out = append(out, fmt.Sprintf("ERR:-:%d:%d:%d", t.Pos, t.Line, n))
			return strings.Join(out, " ")
		}
		code, ok := ttCodes[t.Type]
		if !ok {
			code = fmt.Sprintf("T%d", int(t.Type))
		}
		out = append(out, fmt.Sprintf("%s:%s:%d:%d", code, hx(t.Value), t.Pos, t.Line))
		if t.Type == token.EOF {
			return strings.Join(out, " ")
		}
	}
	return "hang"
}

func argWords(n ast.Node) []string {
	switch v := n.(type) {
	case ast.String:
		return []string{"S", hx(v.Text)}
	case ast.Ident:
		return []string{"I", hx(v.Name)}
	}
	return []string{"?", "-"}
}

func treeWords(tree ast.Tree) string {
	w := []string{strconv.Itoa(len(tree.Nodes))}
	for _, nd := range tree.Nodes {
		switch v := nd.(type) {
		case ast.Comment:
			w = append(w, "C", hx(v.Text))
		case ast.Assign:
			w = append(w, "A", hx(v.Name.Name))
			switch val := v.Value.(type) {
			case ast.String:
				w = append(w, "S", hx(val.Text))
			case ast.Ident:
				w = append(w, "I", hx(val.Name))
			case ast.Function:
				w = append(w, "F", hx(val.Name.Name), strconv.Itoa(len(val.Arguments)))
				for _, a := range val.Arguments {
					w = append(w, argWords(a)...)
				}
			default:
				w = append(w, "?")
			}
		case ast.Task:
			w = append(w, "T", hx(v.Name.Name), hx(v.Docstring.Text), strconv.Itoa(len(v.Dependencies)))
			for _, a := range v.Dependencies {
				w = append(w, argWords(a)...)
			}
			w = append(w, strconv.Itoa(len(v.Outputs)))
			for _, a := range v.Outputs {
				w = append(w, argWords(a)...)
			}
			w = append(w, strconv.Itoa(len(v.Commands)))
			for _, c := range v.Commands {
				w = append(w, hx(c.Command))
			}
		default:
			w = append(w, "?")
		}
	}
	return strings.Join(w, " ")
}

// parseOutcome returns the canonical outcome and, when it parsed, the printed text
func parseOutcome(in string) (string, string, bool) {
	var printed string
	okParse := false
	one := func() string {
		tree, err := parser.New(in).Parse()
		if err != nil {
			n, ctx, ok := errLoc(err.Error())
			if !ok {
				return "err 0 " + hx(err.Error())
			}
			return fmt.Sprintf("err %d %s", n, hx(ctx))
		}
		printed = tree.String()
		okParse = true
		return "ok " + treeWords(tree)
	}
	a, fin := withWatchdog(5*time.Second, one)
	if !fin {
		return "hang", "", false
	}
	p1, ok1 := printed, okParse
	okParse = false
	b, fin := withWatchdog(5*time.Second, one)
	if !fin {
		return "hang", "", false
	}
	if a != b || p1 != printed || ok1 != okParse {
		return "nondet", "", false
	}
	return a, printed, okParse
}

func syntaxWork(c string) string {
	fields := strings.SplitN(c, " ", 2)
	in, ok := unhx(fields[0])
	if !ok {
		return "BAD-CASE"
	}
	expect := "none"
	if len(fields) == 2 && strings.HasPrefix(fields[1], "EXPECT ") {
		expect = strings.TrimPrefix(fields[1], "EXPECT ")
	}
	lx, _ := withWatchdog(5*time.Second, func() string { return lexDump(in) })
	out, printed, parsed := parseOutcome(in)
	pr, re, rp := "none", "none", "none"
	if len(fields) == 2 && fields[1] == "BINS" {
		// the usual sections, plus BPARSE: what the REAL BINARY says about an input that does not parse (`spok --show`):
		// the error it prints cites a line of the file and quotes it — through cli/app's reading of the file
		bp := "na"
		if !parsed && out != "hang" && out != "nondet" {
			bp = showBinary(in)
		}
		if parsed {
			pr = hx(printed)
			o2, p2, ok2 := parseOutcome(printed)
			re = o2
			if ok2 {
				rp = hx(p2)
			}
		}
		return fmt.Sprintf("LEX %s ; PARSE %s ; PRINT %s ; REPARSE %s ; REPRINT %s ; EXPECT %s ; BPARSE %s", lx, out, pr, re, rp, expect, bp)
	}
	if len(fields) == 2 && fields[1] == "BINF" {
		// a file that parses but does NOT load (a builtin called with an identifier): `--fmt` formats only what parses AND
		// loads, so the binary must refuse and leave the file as it is (PRINT fmtfail, REPRINT = the file afterwards)
		if parsed {
			after1, _ := fmtBinaryKeep(in)
			pr = "fmtfail"
			if after1.ok {
				pr = hx(after1.content)
			}
			rp = hx(after1.content)
			re, _, _ = parseOutcome(after1.content)
		}
		return fmt.Sprintf("LEX %s ; PARSE %s ; PRINT %s ; REPARSE %s ; REPRINT %s ; EXPECT %s", lx, out, pr, re, rp, expect)
	}
	if len(fields) == 2 && fields[1] == "BIN" {
		// the same sections, but PRINT / REPRINT are what the REAL BINARY leaves in the spokfile after `spok --fmt`
		// (once, twice): the whole path cli/app -> read -> parse -> load -> Tree.String -> write is under test
		if parsed {
			after1, after2 := fmtBinary(in)
			pr, rp = after1, after2
			if b, ok := unhx(after1); ok && after1 != "fmtfail" {
				re, _, _ = parseOutcome(b)
			}
		}
		return fmt.Sprintf("LEX %s ; PARSE %s ; PRINT %s ; REPARSE %s ; REPRINT %s ; EXPECT %s", lx, out, pr, re, rp, expect)
	}
	if parsed {
		pr = hx(printed)
		o2, p2, ok2 := parseOutcome(printed)
		re = o2
		if ok2 {
			rp = hx(p2)
		}
	}
	return fmt.Sprintf("LEX %s ; PARSE %s ; PRINT %s ; REPARSE %s ; REPRINT %s ; EXPECT %s", lx, out, pr, re, rp, expect)
}

// fmtBinary: a project directory holding only the spokfile, HOME = its parent; `spok --fmt` twice; returns the
// hex of the file after each (or "fmtfail" when the binary did not exit 0 or changed nothing it should have)
var binBase string

func fmtBinary(in string) (string, string) {
	if binBase == "" {
		root := os.TempDir()
		if st, err := os.Stat("/dev/shm"); err == nil && st.IsDir() {
			root = "/dev/shm"
		}
		b, err := os.MkdirTemp(root, fmt.Sprintf("vhsyn-%d-", os.Getppid()))
		if err != nil {
			return "fmtfail", "none"
		}
		binBase = b
	}
	home := filepath.Join(binBase, "h")
	proj := filepath.Join(home, "p")
	_ = os.RemoveAll(home)
	if err := os.MkdirAll(proj, 0o755); err != nil {
		return "fmtfail", "none"
	}
	defer os.RemoveAll(home)
	sf := filepath.Join(proj, "spokfile")
	if err := os.WriteFile(sf, []byte(in), 0o644); err != nil {
		return "fmtfail", "none"
	}
	run := func() bool {
		ctx, cancel := context.WithTimeout(context.Background(), 20*time.Second)
		defer cancel()
		cmd := exec.CommandContext(ctx, filepath.Join(os.Getenv("VERIF_BUILD"), "spok"), "--fmt")
		cmd.Dir = proj
		cmd.Env = []string{"HOME=" + home, "PATH=/usr/bin:/bin", "NO_COLOR=1"}
		if d := os.Getenv("GOCOVERDIR"); d != "" {
			cmd.Env = append(cmd.Env, "GOCOVERDIR="+d) // a -cover build of the binary (coverage report of the evidence)
		}
		return cmd.Run() == nil
	}
	if !run() {
		return "fmtfail", "none"
	}
	a1, err := os.ReadFile(sf)
	if err != nil {
		return "fmtfail", "none"
	}
	if !run() {
		return hx(string(a1)), "fmtfail"
	}
	a2, err := os.ReadFile(sf)
	if err != nil {
		return hx(string(a1)), "fmtfail"
	}
	return hx(string(a1)), hx(string(a2))
}

var ansiRe = regexp.MustCompile("\x1b\\[[0-9;]*[A-Za-z]")

// showBinary: `spok --show` on a project holding the input as its spokfile; "err <cited> <hex quoted>" when the binary fails
// with a located syntax error, "fail" when it fails otherwise, "ok" when it succeeds
func showBinary(in string) string {
	if binBase == "" {
		root := os.TempDir()
		if st, err := os.Stat("/dev/shm"); err == nil && st.IsDir() {
			root = "/dev/shm"
		}
		b, err := os.MkdirTemp(root, fmt.Sprintf("vhsyn-%d-", os.Getppid()))
		if err != nil {
			return "fail"
		}
		binBase = b
	}
	home := filepath.Join(binBase, "s")
	proj := filepath.Join(home, "p")
	_ = os.RemoveAll(home)
	if err := os.MkdirAll(proj, 0o755); err != nil {
		return "fail"
	}
	defer os.RemoveAll(home)
	if err := os.WriteFile(filepath.Join(proj, "spokfile"), []byte(in), 0o644); err != nil {
		return "fail"
	}
	ctx, cancel := context.WithTimeout(context.Background(), 20*time.Second)
	defer cancel()
	cmd := exec.CommandContext(ctx, filepath.Join(os.Getenv("VERIF_BUILD"), "spok"), "--show")
	cmd.Dir = proj
	cmd.Env = []string{"HOME=" + home, "PATH=/usr/bin:/bin", "NO_COLOR=1"}
	if d := os.Getenv("GOCOVERDIR"); d != "" {
		cmd.Env = append(cmd.Env, "GOCOVERDIR="+d)
	}
	var se strings.Builder
	cmd.Stderr = &se
	if cmd.Run() == nil {
		return "ok"
	}
	if ctx.Err() != nil {
		return "hang"
	}
	msg := strings.TrimRight(ansiRe.ReplaceAllString(se.String(), ""), "\n")
	if n, q, ok := errLoc(msg); ok {
		return fmt.Sprintf("err %d %s", n, hx(q))
	}
	return "fail"
}

type fmtResult struct {
	ok      bool   // the binary exited 0
	content string // the spokfile afterwards
}

// fmtBinaryKeep: one `spok --fmt`; whether it succeeded and what the file holds afterwards
func fmtBinaryKeep(in string) (fmtResult, bool) {
	if binBase == "" {
		root := os.TempDir()
		if st, err := os.Stat("/dev/shm"); err == nil && st.IsDir() {
			root = "/dev/shm"
		}
		b, err := os.MkdirTemp(root, fmt.Sprintf("vhsyn-%d-", os.Getppid()))
		if err != nil {
			return fmtResult{content: in}, false
		}
		binBase = b
	}
	home := filepath.Join(binBase, "k")
	proj := filepath.Join(home, "p")
	_ = os.RemoveAll(home)
	if err := os.MkdirAll(proj, 0o755); err != nil {
		return fmtResult{content: in}, false
	}
	defer os.RemoveAll(home)
	sf := filepath.Join(proj, "spokfile")
	if err := os.WriteFile(sf, []byte(in), 0o644); err != nil {
		return fmtResult{content: in}, false
	}
	ctx, cancel := context.WithTimeout(context.Background(), 20*time.Second)
	defer cancel()
	cmd := exec.CommandContext(ctx, filepath.Join(os.Getenv("VERIF_BUILD"), "spok"), "--fmt")
	cmd.Dir = proj
	cmd.Env = []string{"HOME=" + home, "PATH=/usr/bin:/bin", "NO_COLOR=1"}
	if d := os.Getenv("GOCOVERDIR"); d != "" {
		cmd.Env = append(cmd.Env, "GOCOVERDIR="+d)
	}
	ok := cmd.Run() == nil
	data, err := os.ReadFile(sf)
	if err != nil {
		return fmtResult{ok: ok, content: ""}, true
	}
	return fmtResult{ok: ok, content: string(data)}, true
}

// loadable: the spec is one `file.New` accepts (so that `--fmt`, which formats only what parses AND loads, goes
// through): distinct task names, no builtin but join on string arguments, commands that are valid templates
func loadable(spec []sNode) bool {
	seen := map[string]bool{}
	for _, n := range spec {
		switch n.kind {
		case "AF":
			if n.fn != "join" {
				return false
			}
			for _, a := range n.args {
				if !a.isStr {
					return false
				}
			}
		case "T":
			if seen[n.name] {
				return false
			}
			seen[n.name] = true
			for _, c := range n.cmds {
				if _, err := template.New("t").Parse(c); err != nil {
					return false
				}
			}
		}
	}
	return true
}

// genBinary: loadable programs in admissible layouts, formatted by the real binary; with the things only the path
// through cli/app meets: very long lines, CRLF files, no final newline
func genBinary(w *bufio.Writer, rng *rand.Rand, n int) {
	long := strings.Repeat("x", 70000)
	for i := 0; i < n; {
		g := &layoutGen{rng: rng, crlf: rng.Intn(3) == 0}
		spec := g.genSpec(5)
		if !specOK(spec) || !loadable(spec) {
			continue
		}
		i++
		src := g.render(spec)
		switch i % 40 {
		case 1:
			src = "# " + long + "\n" + src
		case 2:
			src = src + "# tail " + long
		case 3:
			src = "task big() {\n    echo " + long + "\n}\n" + src
		case 4:
			src = "LONG := \"" + long + "\"\n" + src
		case 5:
			src = strings.TrimRight(src, "\r\n")
		}
		fmt.Fprintf(w, "%s BIN\n", hx(src))
		if i%12 == 0 {
			// the same program with a builtin whose argument is a variable: it parses, it does not load
			fmt.Fprintf(w, "%s BINF\n", hx("OUTV := \"build\"\nBINV := join(OUTV, \"bin\")\n"+src))
		}
	}
}

// ---------------------------------------------------------------------------------------------
// generation

var alphabet = []string{"task", " ", "\n", "\r", "\t", "a", "B", "_", "\"", "#", "(", ")", "{", "}", ",", "->", ":=", "{{", "}}", ".", "*", "ü", "\xff", "-", "task ", "'"}

func genAlpha(w *bufio.Writer, maxLen int) {
	var rec func(cur string, n int)
	rec = func(cur string, n int) {
		fmt.Fprintln(w, hx(cur))
		if n == maxLen {
			return
		}
		for _, a := range alphabet {
			rec(cur+a, n+1)
		}
	}
	rec("", 0)
}

func genRandSymbols(w *bufio.Writer, rng *rand.Rand, n int) {
	extra := []string{"x := \"v\"\n", "task t(", "\"s\"", ") -> ", "{\n  echo hi\n}\n", "# c\n", "é", "\r\n", "join(", "echo {{.X}}", " }", "}}}", "#\n", "\"\n", " ", " ", "\xe2\x82", "世", "x := y\n", "-> (", "\r\r\n", " \r}", "\r }",
		"x := 'a", "\"b\"'\n", "'", "x := \"v\" ", "# r", "x := \"v\"", "\xa0", "\x85", "\xc3", "à", "Å", "\xef\xbb\xbf", "`", "\\", "$", "\x00"}
	all := append(append([]string{}, alphabet...), extra...)
	for i := 0; i < n; i++ {
		k := rng.Intn(14) + 1
		s := ""
		for j := 0; j < k; j++ {
			s += all[rng.Intn(len(all))]
		}
		fmt.Fprintln(w, hx(s))
	}
}

// --- Spec × Layout ---------------------------------------------------------------------------

type sArg struct {
	isStr bool
	v     string
}

type sNode struct {
	kind string // "C", "AS", "AF", "T"
	text string // comment text / docstring text (as the parser will report it)
	name string
	sval string
	fn   string
	args []sArg
	deps []sArg
	outs []sArg
	cmds []string
}

type layoutGen struct {
	rng  *rand.Rand
	crlf bool
	wild bool // also place newlines where the admissible table forbids them
}

func (g *layoutGen) pick(xs ...string) string { return xs[g.rng.Intn(len(xs))] }
func (g *layoutGen) nl() string {
	if g.crlf {
		return "\r\n"
	}
	return "\n"
}

// ws: any whitespace (Doc's class `Ws`): blanks, tabs, LF, CRLF, lone CR, Unicode spaces
func (g *layoutGen) ws() string {
	switch g.rng.Intn(10) {
	case 0:
		return g.nl()
	case 1:
		return " "
	case 2:
		return "\t"
	case 3:
		return "  " + g.nl() + "\t"
	case 4:
		return g.nl() + g.nl() + " "
	case 5:
		return g.pick("\u00a0", "\u2003", "\r", " \r ", "\v", "\f", "\u0085")
	}
	return ""
}

// afterStr: whitespace admissible directly after a string argument: any whitespace that does not
// begin with a line end
func (g *layoutGen) afterStr() string {
	if g.wild && g.rng.Intn(6) == 0 {
		return g.ws()
	}
	w := g.pick("", "", " ", "\t", "  ", " \t", " "+g.nl(), "\t"+g.nl()+" ", "\r", "\r \n", "\u00a0"+g.nl())
	return w
}

// hws: blanks and tabs only
func (g *layoutGen) hws() string {
	return g.pick("", "", " ", "\t", "  ", " \t")
}

var identPool = []string{"a", "B", "x_y", "täsk", "_x", "default", "Ünï", "test", "atask", "tas", "ask", "clean", "世界", "a_task_b", "tasky", "SIZE", "ZIP_FILE", "Zz", "aZ", "abcdefghijklmnopqrstuvwxyz", "ABCDEFGHIJKLMNOPQRSTUVWXYZ", "ǅ", "ßẞ", "Ωmega", "дом", "אב", "aªb"}
var strPool = []string{"", "x", "a b", "\nlead", "\n", "a\\tb", "C:\\dir\\new", "\\x41\\u00e9", "printf 'one\\ntwo\\n'", "\\", "**/*.go", "ü/é.txt", "f.txt", " ", "./bin/main", "{{x}}", "a,b", "(x)", "#no", "->", "task", ":=", "}", "{", "a\tb", "*.x", " ", "é"}
var cmdPool = []string{"date +%Y%m%d", "printf '%s\\n' x", "echo 100%", "echo a", "go test ./...", "echo {{.X}}", "a", "echo \"hi\"", "x -> y", "echo a:=b", "ls (a)", "echo {", "mkdir -p {{.BIN}}/x", "echo $HOME", "echo 'q' | wc -l", "task x", "echo a,b", "echo {{.A}}{{.B}}", "b  c", "echo a\tb", "x \t", "echo {{", "e }} f", "echo é{{.X}}", "echo a ", "b \r c", "c  ", "x}}", "#{{y", "écho x", "xy}}", "}}}", "-v", "echo a; echo b", "for i in 1 2; do echo $i; done", "echo \"a; b\"", ";", "echo {{  .X  }}", "x  ;  y"}
var commentPool = []string{"!/usr/bin/env spok", "! DO NOT EDIT", " voilà", " Å", " хх", " a comment that is rather long: it goes on and on, well past one hundred columns, word after word after word, to the end", " hello", "x", " two words", "", " # inner", " task", "\ttabbed", " trailing  ", "  ", " ü", "task x() {}", " a := \"b\"", " cr\r", "\r", " ---- build ---- #", "##", " fixes issue #", "#", " x #\t"}

func (g *layoutGen) name() string { return identPool[g.rng.Intn(len(identPool))] }

// stmtName: an identifier usable at statement start (does not begin with the keyword)
func (g *layoutGen) stmtName() string {
	for {
		n := g.name()
		if !strings.HasPrefix(n, "task") {
			return n
		}
	}
}

func (g *layoutGen) genArgs(max int) []sArg {
	n := g.rng.Intn(max + 1)
	out := []sArg{}
	for i := 0; i < n; i++ {
		if i > 0 && g.rng.Intn(8) == 0 {
			out = append(out, out[i-1]) // the same argument again (and again): lists are lists
			continue
		}
		if g.rng.Intn(2) == 0 {
			out = append(out, sArg{true, strPool[g.rng.Intn(len(strPool))]})
		} else {
			out = append(out, sArg{false, g.name()})
		}
	}
	return out
}

func (a sArg) src() string {
	if a.isStr {
		return `"` + a.v + `"`
	}
	return a.v
}

func (g *layoutGen) renderArgs(as []sArg) string {
	s := "(" + g.ws()
	for i, a := range as {
		if a.isStr {
			s += a.src() + g.afterStr()
		} else {
			s += a.src() + g.ws()
		}
		if i < len(as)-1 {
			s += "," + g.ws()
		} else if g.rng.Intn(3) == 0 {
			s += "," + g.ws()
		}
	}
	return s + ")"
}

func (g *layoutGen) genSpec(maxStmts int) []sNode {
	k := g.rng.Intn(maxStmts + 1)
	var spec []sNode
	prevComment := false
	for j := 0; j < k; j++ {
		switch g.rng.Intn(4) {
		case 0:
			txt := commentPool[g.rng.Intn(len(commentPool))]
			spec = append(spec, sNode{kind: "C", text: txt})
			prevComment = txt != ""
			continue
		case 1:
			nm := g.stmtName()
			if g.rng.Intn(2) == 0 {
				spec = append(spec, sNode{kind: "AS", name: nm, sval: strPool[g.rng.Intn(len(strPool))]})
			} else {
				spec = append(spec, sNode{kind: "AF", name: nm, fn: g.pick("join", "exec", "other"), args: g.genArgs(3)})
			}
		default:
			doc := ""
			if g.rng.Intn(2) == 0 {
				doc = g.pick(" Run the tests", "doc", " ü", "  spaced  ", " ", " d\r")
			} else if prevComment {
				// a doc-less task cannot directly follow a (non-empty) comment: separate with a variable
				spec = append(spec, sNode{kind: "AS", name: "sep", sval: "s"})
			}
			nc := g.rng.Intn(4)
			var cmds []string
			for c := 0; c < nc; c++ {
				cmds = append(cmds, cmdPool[g.rng.Intn(len(cmdPool))])
			}
			spec = append(spec, sNode{kind: "T", text: doc, name: g.name(), deps: g.genArgs(4), outs: g.genArgs(3), cmds: cmds})
		}
		prevComment = false
	}
	return spec
}

func (g *layoutGen) render(spec []sNode) string {
	src := ""
	for _, n := range spec {
		src += g.ws() // leading indentation / blank lines
		eol := func(text string) string {
			if strings.HasSuffix(text, "\r") {
				return "\r\n"
			}
			return g.pick(g.nl(), g.nl(), "\n", "\r\n")
		}
		switch n.kind {
		case "C":
			src += "#" + n.text + eol(n.text)
		case "AS":
			src += n.name + g.ws() + ":=" + g.ws() + `"` + n.sval + `"` + g.hws() + g.nl()
		case "AF":
			// a call ends at its `)`: the next statement (a comment, say) may follow on the same line (Doc: NextStmtOK)
			src += n.name + g.ws() + ":=" + g.ws() + n.fn + g.ws() + g.renderArgs(n.args) + g.pick(g.ws()+g.nl(), g.ws()+g.nl(), g.hws(), "")
		case "T":
			if n.text != "" {
				src += "#" + n.text + eol(n.text) + g.ws()
			}
			src += "task" + g.pick(" ", "  ", "\t", g.nl()+" ", "\u00a0") + n.name + g.ws() + g.renderArgs(n.deps) + g.ws()
			if len(n.outs) == 1 && g.rng.Intn(2) == 0 {
				if n.outs[0].isStr {
					src += "->" + g.ws() + n.outs[0].src() + g.afterStr()
				} else {
					src += "->" + g.ws() + n.outs[0].src() + g.ws()
				}
			} else if len(n.outs) > 0 {
				src += "->" + g.ws() + g.renderArgs(n.outs) + g.ws()
			}
			src += "{"
			crs := func() string { return g.pick("", "", "", "\r", "\r\r") }
			src += g.ws()
			for i, c := range n.cmds {
				src += c
				if i < len(n.cmds)-1 || g.rng.Intn(2) == 0 {
					// separator: CR* LF whitespace
					src += crs() + "\n" + g.ws()
				} else {
					// one-line style end: CR* and at most one blank
					e := crs() + g.pick("", " ")
					if e == "" && strings.HasSuffix(c, " ") {
						e = " "
					}
					src += e
				}
			}
			// after the closing brace the next statement may follow at once (Doc: anything but a brace)
			src += "}" + g.pick(g.nl(), g.nl()+g.nl(), g.nl(), "", g.hws())
		}
	}
	return src
}

func sArgWords(a sArg) []string {
	if a.isStr {
		return []string{"S", hx(a.v)}
	}
	return []string{"I", hx(a.v)}
}

func specWords(spec []sNode) string {
	w := []string{strconv.Itoa(len(spec))}
	for _, n := range spec {
		switch n.kind {
		case "C":
			w = append(w, "C", hx(n.text))
		case "AS":
			w = append(w, "A", hx(n.name), "S", hx(n.sval))
		case "AF":
			w = append(w, "A", hx(n.name), "F", hx(n.fn), strconv.Itoa(len(n.args)))
			for _, a := range n.args {
				w = append(w, sArgWords(a)...)
			}
		case "T":
			w = append(w, "T", hx(n.name), hx(n.text), strconv.Itoa(len(n.deps)))
			for _, a := range n.deps {
				w = append(w, sArgWords(a)...)
			}
			w = append(w, strconv.Itoa(len(n.outs)))
			for _, a := range n.outs {
				w = append(w, sArgWords(a)...)
			}
			w = append(w, strconv.Itoa(len(n.cmds)))
			for _, c := range n.cmds {
				w = append(w, hx(c))
			}
		}
	}
	return strings.Join(w, " ")
}

// scanOK mirrors the Lean `cmdScanOK`: the command loop, started with rs[0] as its loop variable and a
// newline after the text, takes every rune as command text
func scanOK(rs []rune) bool {
	for i := 0; i < len(rs); i++ {
		rest := string(rs[i+1:])
		switch {
		case rs[i] == '\n':
			return false
		case strings.HasPrefix(rest, "{{") || strings.HasPrefix(rest, "}}"):
			i += 2
		case rs[i] == '}' || rs[i] == '#' || rs[i] > 127:
			return false
		}
	}
	return true
}

// cmdOK: FirstCmdOK / NextCmdOK of lean/Spok/Syntax/Render.lean
func cmdOK(c string, first bool) bool {
	if c == "" || strings.HasSuffix(c, "\r") {
		return false
	}
	rs := []rune(c)
	if first {
		return unicode.IsLetter(rs[0]) && scanOK(rs[1:])
	}
	return !unicode.IsSpace(rs[0]) && scanOK(rs)
}

// specOK filters specs to those the syntax can express at all
func specOK(spec []sNode) bool {
	for _, n := range spec {
		if n.kind == "T" {
			for i, c := range n.cmds {
				if !cmdOK(c, i == 0) {
					return false
				}
			}
		}
	}
	return true
}

func genSpecLayout(w *bufio.Writer, rng *rand.Rand, n int, withExpect bool, wild bool) {
	for i := 0; i < n; {
		g := &layoutGen{rng: rng, crlf: rng.Intn(3) == 0, wild: wild}
		spec := g.genSpec(5)
		if !specOK(spec) {
			continue
		}
		i++
		src := g.render(spec)
		if withExpect && !wild {
			fmt.Fprintf(w, "%s EXPECT %s\n", hx(src), specWords(spec))
		} else {
			fmt.Fprintln(w, hx(src))
		}
	}
}

func genPrograms(rng *rand.Rand, n int) []string {
	var out []string
	for len(out) < n {
		g := &layoutGen{rng: rng, crlf: rng.Intn(4) == 0, wild: rng.Intn(5) == 0}
		spec := g.genSpec(5)
		if !specOK(spec) {
			continue
		}
		out = append(out, g.render(spec))
	}
	return out
}

func mutate(rng *rand.Rand, s string) string {
	b := []byte(s)
	if len(b) == 0 {
		return alphabet[rng.Intn(len(alphabet))]
	}
	for k := rng.Intn(3) + 1; k > 0; k-- {
		i := rng.Intn(len(b) + 1)
		switch rng.Intn(4) {
		case 0: // delete
			if i < len(b) {
				b = append(b[:i:i], b[i+1:]...)
			}
		case 1: // insert a symbol
			sym := alphabet[rng.Intn(len(alphabet))]
			b = append(b[:i:i], append([]byte(sym), b[i:]...)...)
		case 2: // truncate
			b = b[:i]
		default: // duplicate a span
			j := i + rng.Intn(6)
			if j > len(b) {
				j = len(b)
			}
			b = append(b[:j:j], append(append([]byte{}, b[i:j]...), b[j:]...)...)
		}
		if len(b) == 0 {
			break
		}
	}
	return string(b)
}

func repoSpokfiles() []string {
	var out []string
	for _, p := range []string{"/repo/spokfile", "/repo/docs/src/example.spok"} {
		if b, err := os.ReadFile(p); err == nil {
			out = append(out, string(b))
		}
	}
	return out
}

// sweepRunes: every ASCII code point, Latin-1, and the boundaries (lo-1, lo, hi, hi+1, and lo+stride) of every
// range of Go's Letter / White_Space / Punct tables, so that the classification of runes by the lexer is compared
// with the model's tables point by point
func sweepRunes() []rune {
	seen := map[rune]bool{}
	var out []rune
	add := func(r rune) {
		if r >= 0 && r <= unicode.MaxRune && !seen[r] && !(r >= 0xD800 && r <= 0xDFFF) {
			seen[r] = true
			out = append(out, r)
		}
	}
	for r := rune(0); r < 0x300; r++ {
		add(r)
	}
	for _, t := range []*unicode.RangeTable{unicode.Letter, unicode.White_Space, unicode.Punct} {
		for _, x := range t.R16 {
			for _, r := range []rune{rune(x.Lo) - 1, rune(x.Lo), rune(x.Lo) + rune(x.Stride), rune(x.Hi), rune(x.Hi) + 1} {
				add(r)
			}
		}
		for _, x := range t.R32 {
			for _, r := range []rune{rune(x.Lo) - 1, rune(x.Lo), rune(x.Lo) + rune(x.Stride), rune(x.Hi), rune(x.Hi) + 1} {
				add(r)
			}
		}
	}
	return out
}

// genRuneSweep: each swept rune in the positions where its class decides what the lexer does
func genRuneSweep(w *bufio.Writer, withExpect bool) {
	for _, r := range sweepRunes() {
		c := string(r)
		if withExpect {
			// only structures whose expected tree is known: a letter or '_' inside names
			if unicode.IsLetter(r) || r == '_' {
				nm := "n" + c + "m"
				spec := []sNode{{kind: "AS", name: nm, sval: c + "v"}, {kind: "T", name: nm, deps: []sArg{{false, nm}, {true, c}}, outs: []sArg{{false, c + "o"}}, cmds: []string{"x" + "y"}}}
				src := nm + " := \"" + c + "v\"\ntask " + nm + "(" + nm + ", \"" + c + "\") -> " + c + "o {\n    xy\n}\n"
				if r != '"' && r != '\n' {
					fmt.Fprintf(w, "%s EXPECT %s\n", hx(src), specWords(spec))
				}
			}
			if unicode.IsSpace(r) {
				// the rune as the only whitespace between tokens
				spec := []sNode{{kind: "T", name: "t", deps: []sArg{{false, "a"}, {false, "b"}}, cmds: []string{"go"}}}
				src := "task" + c + "t" + c + "(" + c + "a" + c + "," + c + "b" + c + ")" + c + "{" + c + "go" + "\n}" + c
				fmt.Fprintf(w, "%s EXPECT %s\n", hx(src), specWords(spec))
			}
			continue
		}
		for _, tmpl := range []string{"n%sm := \"v\"\n", "task t(a%s) {}\n", "task t() -> %sx {}\n", "task t() {\n %s go\n}\n", "task%st()%s{%sa%s}", "x := %s", "# c%s\ntask t() {}", "A := \"%s\"%s\n", "x := y-%s", "task go-%s() {}", "a-%s"} {
			fmt.Fprintln(w, hx(strings.ReplaceAll(tmpl, "%s", c)))
		}
	}
}

// genByteSweep: every byte from 0x80 on, ALONE (not part of a valid UTF-8 sequence), in the positions where the lexer
// skips whitespace, reads names, strings, comments and commands: a stray byte is never white space and never a letter
func genByteSweep(w *bufio.Writer) {
	for b := 0x80; b <= 0xff; b++ {
		c := string([]byte{byte(b)})
		for _, tmpl := range []string{"x := \"v\"%s\n", "task t(a%s) {}\n", "%stask t() {}\n", "# c%s\ntask t() {}\n", "task t()%s{%sgo%s}", "n%sm := \"%s\"\n", "task t() {\n    echo %s\n}\n", "x := \"v\"\n%s"} {
			fmt.Fprintln(w, hx(strings.ReplaceAll(tmpl, "%s", c)))
		}
	}
}

// genLongLines: a line of 70 kB (comment, string, command) before, at or after the place of an error of every kind — the
// line a located error cites and quotes is a line of the INPUT, however long its neighbours are
func genLongLines(w *bufio.Writer) {
	long := strings.Repeat("x", 70000)
	heads := []string{"# " + long + "\n", "L := \"" + long + "\"\n", "task big() {\n    echo " + long + "\n}\n", ""}
	tails := []string{"task test(\"file.go\")", "task t(", "x :=", "task t() -> ", "x := \"a\" b\n", "}", "task t() {\n  echo hi", "x := join(\"a\"",
		"task t(a b) {}\n", "task t() -> (\"x\"\n) {}\n", "x := y z\n", "\"", "task", "task t() {}\n# " + long, "ok := \"fine\"\n"}
	for _, h := range heads {
		for _, t := range tails {
			fmt.Fprintln(w, hx(h+t))
			fmt.Fprintln(w, hx(h+"\n\n"+t+"\n# after\n"))
		}
	}
}

// genContexts: every opening context of the grammar, cut off after one or two more symbols — with NO final newline: what
// the lexer does when the input ends in the middle of a construct (inside a comment, a header, a body, a string)
func genContexts(w *bufio.Writer) {
	ctxs := []string{"", "x := ", "x := \"a", "x := join(", "x := join(\"a\",", "task t", "task t(", "task t(a", "task t(\"a\"", "task t() ", "task t() -> ",
		"task t() -> (", "task t() -> \"o\" ", "task t() {", "task t() {\n", "task t() {\n\t", "task t() {\n echo a\n", "task t() {\n echo a\n\t", "task t() { echo a ",
		"# c", "# c\n", "x := \"v\"\n", "x := \"v\" ", "x := \"v\"", "task t() {}\n", "task "}
	syms := append(append([]string{}, alphabet...), "# foo", "\t# foo", "x", "echo {{.A}}", "\r\n", "->", "- ", "é", "\"s\"")
	for _, c := range ctxs {
		for _, a := range syms {
			fmt.Fprintln(w, hx(c+a))
			for _, b := range syms {
				fmt.Fprintln(w, hx(c+a+b))
			}
		}
	}
}

// genFixed: small families that random generation reaches too rarely: runs of EMPTY comment lines (1–6) in every position,
// blanks inside the braces of an interpolation, commands with `;`, runs of blanks and tabs, a byte order mark at the start
// and between statements, a string opened at the end of its line and never closed, with text on the lines after it
func genFixed(w *bufio.Writer) {
	for k := 1; k <= 6; k++ {
		e := strings.Repeat("#\n", k)
		for _, p := range []string{e, e + "task t() {}\n", "x := \"v\"\n" + e, "x := \"v\"\n" + e + "task t() {\n echo a\n}\n", "# head\n" + e + "x := \"v\"\n",
			"task t() {}\n" + e + "# tail\n", e + "\n" + e + "task t() {}\n", "# a\n" + e + "# b\n" + e + "task t() {}\n", strings.Repeat("# \n", k) + "task u() {}\n"} {
			fmt.Fprintln(w, hx(p))
		}
	}
	for _, c := range []string{"echo {{ .X }}", "echo {{  .X  }}", "echo {{   .X}}", "echo {{.X   }}", "echo {{ }}", "echo {{  }} {{   .Y   }}", "echo a; echo b", "for i in 1 2; do echo $i; done",
		"echo \"a; b\"", "echo 'two  blanks'", "echo  two  blanks", "a\t\tb", "echo a ;", ";", "echo {{\t.X\t}}"} {
		fmt.Fprintln(w, hx("task t() {\n    "+c+"\n}\n"))
		fmt.Fprintln(w, hx("task t() { "+c+" }\n"))
		fmt.Fprintln(w, hx("X := \"1\"\ntask t() {\n    echo first\n    "+c+"\n    "+c+"\n}\n"))
	}
	bom := "\xef\xbb\xbf"
	for _, p := range []string{bom, bom + "x := \"v\"\n", bom + "# c\ntask t() {}\n", "x := \"v\"\n" + bom + "y := \"w\"\n", "task t() {}\n" + bom, bom + bom + "task t() {}\n", "# c\n" + bom + "\n"} {
		fmt.Fprintln(w, hx(p))
	}
	for _, p := range []string{"DOCS := \"\n./docs/build\n", "x := \"v\"\nDOCS := \"\n./docs\n# c\n", "task t(\"\n  a.go\") {}\n", "task t() -> \"\nout\n{}\n", "x := join(\"\na\", \"b\")\n",
		"task build(test", "task docs() -> DOCS", "BIN := join(ROOT", "BIN", "BIN \n\n", "task build(test \n", "x := \"v\"\nBIN"} {
		fmt.Fprintln(w, hx(p))
		fmt.Fprintf(w, "%s BINS\n", hx(p))
	}
}

// genBinShow: malformed inputs handed to the real binary (BINS): long lines around the error, truncated and mutated programs
func genBinShow(w *bufio.Writer, rng *rand.Rand, n int) {
	long := strings.Repeat("x", 70000)
	for _, h := range []string{"# " + long + "\n", "task big() {\n    echo " + long + "\n}\n", "L := \"" + long + "\"\n", "\xef\xbb\xbf", "\r\n\r\n"} {
		for _, t := range []string{"task test(\"file.go\")", "task t(", "x :=", "}", "task t() {\n  echo hi", "x := \"a\" b\n", "task t() -> (\"x\"\n) {}\n"} {
			fmt.Fprintf(w, "%s BINS\n", hx(h+t))
			fmt.Fprintf(w, "%s BINS\n", hx(h+"ok := \"fine\"\n\n"+t+"\n# after\n"))
		}
	}
	progs := genPrograms(rng, n/2)
	for _, p := range progs {
		fmt.Fprintf(w, "%s BINS\n", hx(mutate(rng, p)))
		if len(p) > 2 {
			fmt.Fprintf(w, "%s BINS\n", hx(p[:rng.Intn(len(p))]))
		}
	}
}

func syntaxGen(w *bufio.Writer, a map[string]string) {
	prop := a["prop"]
	thorough := a["tier"] == "thorough"
	seed := int64(atoi(a["seed"], 1))
	rng := rand.New(rand.NewSource(seed))
	scale := 1
	if thorough {
		scale = 10
	}
	sup.CorpusLines(w, "syntax")
	for _, s := range repoSpokfiles() {
		fmt.Fprintln(w, hx(s))
	}
	switch prop {
	case "C06":
		genRuneSweep(w, true)
		genSpecLayout(w, rng, 40000*scale, true, false)
		genFixed(w)
		// … and through the real binary: what `--fmt` leaves in the file is the model's print of the structure written
		genBinary(w, rng, 500*scale)
	case "C07", "C11", "C15":
		genRuneSweep(w, false)
		genByteSweep(w)
		genAlpha(w, 3)
		genSpecLayout(w, rng, 25000*scale, false, false)
		genSpecLayout(w, rng, 8000*scale, false, true)
		for _, p := range genPrograms(rng, 6000*scale) {
			fmt.Fprintln(w, hx(mutate(rng, p)))
		}
		genRandSymbols(w, rng, 20000*scale)
		genFixed(w)
		genBinary(w, rng, 1200*scale)
	default: // C16, C08 and anything else: the malformed stream dominates
		genRuneSweep(w, false)
		genByteSweep(w)
		genLongLines(w)
		genContexts(w)
		genFixed(w)
		if prop == "C08" {
			genBinShow(w, rng, 2500*scale)
		}
		if thorough {
			genAlpha(w, 5)
		} else {
			genAlpha(w, 4)
		}
		genRandSymbols(w, rng, 30000*scale)
		progs := genPrograms(rng, 3000*scale)
		for _, p := range progs {
			fmt.Fprintln(w, hx(p))
			fmt.Fprintln(w, hx(mutate(rng, p)))
		}
		// every prefix of some programs
		for _, p := range progs[:min(len(progs), 150*scale)] {
			for i := 0; i < len(p); i++ {
				fmt.Fprintln(w, hx(p[:i]))
			}
		}
		for _, s := range repoSpokfiles() {
			for i := 0; i < 200*scale; i++ {
				fmt.Fprintln(w, hx(mutate(rng, s)))
			}
		}
	}
}
