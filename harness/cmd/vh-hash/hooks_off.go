//go:build !verif

package main

// the tree under test does not build with -tags verif: no schedule perturbation in this run (see vh-run/hooks_off.go)
func setYield(func(where string)) {}
