//go:build verif

package main

import "github.com/FollowTheProcess/spok/hash"

func setYield(f func(where string)) { hash.VerifYield = f }
