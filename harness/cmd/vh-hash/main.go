// vh-hash: implementation side of the hash engine (properties C04, C18).
//
// A case is either `sha <hex>` (self-test of the oracle's SHA-256 against crypto/sha256) or a *group*
//
//	grp g=<GOMAXPROCS> c=<cpus|0> r=<repetitions> y=<seed> x=<0|1> <label>:<n> <entry>*n  <label>:<n> <entry>*n ...
//
// entry = <kind>:<relative path hex>:<content hex>, kinds: f regular file, d directory, m missing, l dangling symlink,
// n path whose parent is a regular file, v regular file that is removed while the hasher runs, r opens but cannot be
// read (a symlink to /proc/self/mem: open and stat succeed, read fails with EIO), x regular file that cannot be OPENED
// because the process has run out of file descriptors while the list is hashed (EMFILE, for as long as the call lasts). A 0x00 byte inside a
// relative path stands for the absolute root directory (needed for the D3 witness, whose path embeds another path).
// The first variant is the base list; labels perm/dirs = same collection, content/rename/add/remove/diff = a different
// collection, other = unrelated. Every variant is materialised in a fresh temp tree and hashed `r` times with the real
// hash.New().Hash on absolute paths under a seeded perturbation of the goroutine schedule (hash.VerifYield).
//
// Observation: ROOT <hex> ; OUT <token per variant> ; LEAK <n per variant> ; RACE 0|1|na ; CALLS <n>
// token = comma-separated sorted set of the distinct outcomes over the repetitions: D:<digest> | E | P.
//
// c>0 runs the group in a sub-process restricted to c CPUs (so runtime.NumCPU() = c there); x=1 runs it in the
// `-race` build of this program (built by `gen tier=thorough`), a reported race is RACE 1.
package main

import (
	"bufio"
	"bytes"
	"crypto/sha256"
	"encoding/hex"
	"fmt"
	"math/rand"
	"os"
	"os/exec"
	"path/filepath"
	"runtime"
	"sort"
	"strconv"
	"strings"
	"sync/atomic"
	"syscall"
	"time"
	"unsafe"

	"github.com/FollowTheProcess/spok/hash"

	"verif/harness/sup"
)

func main() {
	sup.Main("hash", &sup.Engine{Gen: gen, Work: work, Recycle: 40, Timeout: 150 * time.Second})
}

// ------------------------------------------------------------------------------------------------
// cases

type entry struct {
	kind    byte
	rel     string
	content string
}

type variant struct {
	label string
	es    []entry
}

type group struct {
	g, c, r int
	y       uint64
	x       int
	vs      []variant
}

func (e entry) String() string {
	return string(e.kind) + ":" + sup.Hx(e.rel) + ":" + sup.Hx(e.content)
}

func (g group) String() string {
	var b strings.Builder
	fmt.Fprintf(&b, "grp g=%d c=%d r=%d y=%d x=%d", g.g, g.c, g.r, g.y, g.x)
	for _, v := range g.vs {
		fmt.Fprintf(&b, " %s:%d", v.label, len(v.es))
		for _, e := range v.es {
			b.WriteByte(' ')
			b.WriteString(e.String())
		}
	}
	return b.String()
}

func parseGroup(fields []string) (group, bool) {
	var g group
	if len(fields) < 6 || fields[0] != "grp" {
		return g, false
	}
	m := sup.ArgMap(fields[1:6])
	g.g, g.c, g.r, g.x = sup.Atoi(m["g"], 0), sup.Atoi(m["c"], 0), sup.Atoi(m["r"], 1), sup.Atoi(m["x"], 0)
	y, _ := strconv.ParseUint(m["y"], 10, 64)
	g.y = y
	rest := fields[6:]
	for len(rest) > 0 {
		i := strings.LastIndex(rest[0], ":")
		if i < 0 {
			return g, false
		}
		n, err := strconv.Atoi(rest[0][i+1:])
		if err != nil || n < 0 || n > len(rest)-1 {
			return g, false
		}
		v := variant{label: rest[0][:i]}
		for _, t := range rest[1 : 1+n] {
			p := strings.Split(t, ":")
			if len(p) != 3 || len(p[0]) != 1 {
				return g, false
			}
			rel, ok1 := sup.Unhx(p[1])
			content, ok2 := sup.Unhx(p[2])
			if !ok1 || !ok2 {
				return g, false
			}
			v.es = append(v.es, entry{p[0][0], rel, content})
		}
		g.vs = append(g.vs, v)
		rest = rest[1+n:]
	}
	return g, true
}

// ------------------------------------------------------------------------------------------------
// running the implementation

func work(c string) string {
	fields := strings.Fields(c)
	if len(fields) == 2 && fields[0] == "sha" {
		msg, ok := sup.Unhx(fields[1])
		if !ok {
			return "BAD-CASE"
		}
		s := sha256.Sum256([]byte(msg))
		return "SHA " + hex.EncodeToString(s[:])
	}
	g, ok := parseGroup(fields)
	if !ok {
		return "BAD-CASE"
	}
	if os.Getenv("VH_HASH_INNER") == "" && (g.c > 0 || g.x == 1) {
		return runInner(c, g)
	}
	return runGroup(g)
}

// perturbation of the schedule through the hook compiled into the hasher with -tags verif
type pert struct {
	seed     uint64
	mode     int
	ctr      atomic.Uint64
	jobs     atomic.Uint64
	vanish   []string
	vanishAt uint64
	thin     uint64 // long lists: only every thin-th eligible hook call sleeps (a sleep costs ≥ 50µs)
}

func mix(x uint64) uint64 {
	x += 0x9e3779b97f4a7c15
	x = (x ^ (x >> 30)) * 0xbf58476d1ce4e5b9
	x = (x ^ (x >> 27)) * 0x94d049bb133111eb
	return x ^ (x >> 31)
}

func (p *pert) nap(h uint64, max uint64) {
	if p.thin <= 1 || (h>>24)%p.thin == 0 {
		time.Sleep(time.Duration(1+(h>>8)%max) * time.Microsecond)
	} else {
		runtime.Gosched()
	}
}

func (p *pert) yield(where string) {
	if where == "worker:job" && len(p.vanish) > 0 && p.jobs.Add(1) == p.vanishAt {
		for _, f := range p.vanish {
			_ = os.Remove(f)
		}
	}
	h := mix(p.seed ^ (p.ctr.Add(1) * 0x2545f4914f6cdd1d))
	switch p.mode {
	case 1: // plain yields
		if h&1 == 0 {
			runtime.Gosched()
		}
	case 2: // yields and tiny sleeps anywhere
		switch h % 8 {
		case 0:
			p.nap(h, 1)
		case 1:
			p.nap(h, 40)
		case 2, 3, 4:
			runtime.Gosched()
		}
	case 3: // delay the sends: completion order far from list order
		if where == "worker:send" {
			switch h % 4 {
			case 0:
				p.nap(h, 60)
			case 1:
				for i := uint64(0); i < (h>>8)%4; i++ {
					runtime.Gosched()
				}
			}
		} else if h%16 == 0 {
			runtime.Gosched()
		}
	case 4: // slow receiver: workers pile up blocked on results
		if where == "main:recv" && h%3 == 0 {
			p.nap(h, 30)
		}
	}
}

func safeHash(paths []string) (out string) {
	defer func() {
		if r := recover(); r != nil {
			out = "P"
		}
	}()
	d, err := hash.New().Hash(paths)
	if err != nil {
		return "E"
	}
	return "D:" + d
}

var fixedTime = time.Unix(1_000_000_000, 0)

func absOf(root, rel string) string {
	return root + "/" + strings.ReplaceAll(rel, "\x00", root)
}

func clearDir(root string) {
	ents, _ := os.ReadDir(root)
	for _, e := range ents {
		_ = os.RemoveAll(filepath.Join(root, e.Name()))
	}
}

func build(root string, v variant) {
	// directories and regular files first, so that an `n` entry finds its parent if the list names it
	for _, e := range v.es {
		p := absOf(root, e.rel)
		switch e.kind {
		case 'd':
			_ = os.MkdirAll(p, 0o755)
		case 'f', 'v':
			_ = os.MkdirAll(filepath.Dir(p), 0o755)
			_ = os.WriteFile(p, []byte(e.content), 0o644)
			// one fixed modification time for every file of every tree (as `cp -p`, `touch -r`, `rsync -t` or a checkout
			// with restored times leave them): the digest is a function of paths and contents, never of file times
			_ = os.Chtimes(p, fixedTime, fixedTime)
		}
	}
	for _, e := range v.es {
		p := absOf(root, e.rel)
		switch e.kind {
		case 'n':
			parent := filepath.Dir(p)
			if _, err := os.Lstat(parent); err != nil {
				_ = os.MkdirAll(filepath.Dir(parent), 0o755)
				_ = os.WriteFile(parent, []byte("x"), 0o644)
			}
		case 's':
			// a symbolic link to a regular file kept elsewhere: for the digest it IS the file of that path and content
			_ = os.MkdirAll(filepath.Dir(p), 0o755)
			tdir := filepath.Join(root, ".targets")
			_ = os.MkdirAll(tdir, 0o755)
			tgt := filepath.Join(tdir, fmt.Sprintf("t%x", sha256.Sum256([]byte(e.rel)))[:20])
			_ = os.WriteFile(tgt, []byte(e.content), 0o644)
			_ = os.Chtimes(tgt, fixedTime, fixedTime)
			_ = os.Remove(p)
			_ = os.Symlink(tgt, p)
		case 'l':
			_ = os.MkdirAll(filepath.Dir(p), 0o755)
			_ = os.Symlink("no-such-target", p)
		case 'r':
			_ = os.MkdirAll(filepath.Dir(p), 0o755)
			_ = os.Symlink("/proc/self/mem", p)
		case 'x':
			_ = os.MkdirAll(filepath.Dir(p), 0o755)
			_ = os.WriteFile(p, []byte(e.content), 0o644)
		case 'm':
			_ = os.MkdirAll(filepath.Dir(p), 0o755)
		}
	}
}

func sameTree(a, b variant) bool {
	if len(a.es) != len(b.es) {
		return false
	}
	x := make([]string, len(a.es))
	y := make([]string, len(b.es))
	for i := range a.es {
		x[i], y[i] = a.es[i].String(), b.es[i].String()
	}
	sort.Strings(x)
	sort.Strings(y)
	for i := range x {
		if x[i] != y[i] {
			return false
		}
	}
	return true
}

func runGroup(g group) string {
	root, err := os.MkdirTemp("", "vh-hash-")
	if err != nil {
		return "BAD-TMP"
	}
	defer os.RemoveAll(root)
	if g.g > 0 {
		defer runtime.GOMAXPROCS(runtime.GOMAXPROCS(g.g))
	}
	defer setYield(nil)
	var outs, leaks []string
	calls := 0
	leaked := false
	for vi, v := range g.vs {
		if vi == 0 || !sameTree(g.vs[vi-1], v) {
			clearDir(root)
			build(root, v)
		}
		paths := make([]string, len(v.es))
		var vanish []entry
		for i, e := range v.es {
			paths[i] = absOf(root, e.rel)
			if e.kind == 'v' {
				vanish = append(vanish, e)
			}
		}
		seen := map[string]bool{}
		maxLeak := 0
		for rep := 0; rep < g.r; rep++ {
			p := &pert{seed: mix(g.y + uint64(vi)*1000003 + uint64(rep)), mode: rep % 5, thin: 1 + uint64(len(paths))/6}
			if len(vanish) > 0 {
				for _, e := range vanish {
					f := absOf(root, e.rel)
					if _, err := os.Lstat(f); err != nil {
						_ = os.WriteFile(f, []byte(e.content), 0o644)
					}
					p.vanish = append(p.vanish, f)
				}
				p.vanishAt = 1 + uint64(rep)%uint64(len(v.es)+1)
				if p.mode == 0 {
					p.mode = 1
				}
			}
			if p.mode == 0 {
				setYield(nil)
			} else {
				setYield(p.yield)
			}
			before := runtime.NumGoroutine()
			// a long list is hashed under a SMALL limit of open files: the hasher needs one descriptor per worker, not per path
			restore := func() {}
			if len(paths) >= 1500 {
				var lim syscall.Rlimit
				if syscall.Getrlimit(syscall.RLIMIT_NOFILE, &lim) == nil && lim.Cur > 400 {
					old := lim
					lim.Cur = 400
					if syscall.Setrlimit(syscall.RLIMIT_NOFILE, &lim) == nil {
						restore = func() { _ = syscall.Setrlimit(syscall.RLIMIT_NOFILE, &old) }
					}
				}
			}
			// an `x` entry: every descriptor the process may have is taken while the hasher runs
			var hogs []*os.File
			for _, e := range v.es {
				if e.kind == 'x' {
					var lim syscall.Rlimit
					if syscall.Getrlimit(syscall.RLIMIT_NOFILE, &lim) == nil && lim.Cur > 256 {
						old := lim
						lim.Cur = 256
						if syscall.Setrlimit(syscall.RLIMIT_NOFILE, &lim) == nil {
							prev := restore
							restore = func() { _ = syscall.Setrlimit(syscall.RLIMIT_NOFILE, &old); prev() }
						}
					}
					for {
						fh, err := os.Open("/dev/null")
						if err != nil {
							break
						}
						hogs = append(hogs, fh)
					}
					break
				}
			}
			o := safeHash(paths)
			for _, fh := range hogs {
				fh.Close()
			}
			restore()
			calls++
			seen[o] = true
			// the feeder and the waiter may legitimately still be on their way out: give them a moment
			after := runtime.NumGoroutine()
			for i := 0; after > before && !leaked && i < 4000; i++ { // up to ~2 s: a loaded machine must not look like a leak
				if i < 50 {
					runtime.Gosched()
				} else {
					time.Sleep(500 * time.Microsecond)
				}
				after = runtime.NumGoroutine()
			}
			if after > before {
				leaked = true
				if after-before > maxLeak {
					maxLeak = after - before
				}
				break
			}
		}
		setYield(nil)
		var set []string
		for o := range seen {
			set = append(set, o)
		}
		sort.Strings(set)
		if len(set) == 0 {
			set = []string{"-"}
		}
		outs = append(outs, strings.Join(set, ","))
		leaks = append(leaks, strconv.Itoa(maxLeak))
	}
	return fmt.Sprintf("ROOT %s ; OUT %s ; LEAK %s ; RACE %s ; CALLS %d", sup.Hx(root), strings.Join(outs, " "),
		strings.Join(leaks, " "), raceFlag(), calls)
}

// ------------------------------------------------------------------------------------------------
// sub-process runs: restricted CPU set (NumCPU is read from the affinity mask at start-up) and/or -race build

const cpuSetWords = 16 // 1024 CPUs

func getAffinity(mask *[cpuSetWords]uint64) bool {
	_, _, e := syscall.RawSyscall(syscall.SYS_SCHED_GETAFFINITY, 0, uintptr(len(mask)*8), uintptr(unsafe.Pointer(mask)))
	return e == 0
}

func setAffinity(mask *[cpuSetWords]uint64) bool {
	_, _, e := syscall.RawSyscall(syscall.SYS_SCHED_SETAFFINITY, 0, uintptr(len(mask)*8), uintptr(unsafe.Pointer(mask)))
	return e == 0
}

func raceBinary() string {
	b := os.Getenv("VERIF_BUILD")
	if b == "" {
		b = "/verif/.build"
	}
	return filepath.Join(b, "vh-hash-race")
}

func runInner(caseLine string, g group) string {
	bin := os.Args[0]
	race := false
	if g.x == 1 {
		if _, err := os.Stat(raceBinary()); err == nil {
			bin, race = raceBinary(), true
		}
	}
	cmd := exec.Command(bin, "worker")
	cmd.Env = append(os.Environ(), "VH_HASH_INNER=1", "GORACE=halt_on_error=1 exitcode=66")
	if race {
		cmd.Env = append(cmd.Env, "VH_HASH_RACE=on")
	} else {
		cmd.Env = append(cmd.Env, "VH_HASH_RACE=na")
	}
	var stderr bytes.Buffer
	cmd.Stderr = &stderr
	stdin, err1 := cmd.StdinPipe()
	stdout, err2 := cmd.StdoutPipe()
	if err1 != nil || err2 != nil {
		return "BAD-PIPE"
	}
	started := false
	if g.c > 0 {
		runtime.LockOSThread()
		var old, nw [cpuSetWords]uint64
		if getAffinity(&old) {
			left := g.c
			for i := 0; i < cpuSetWords*64 && left > 0; i++ {
				if old[i/64]&(1<<(uint(i)%64)) != 0 {
					nw[i/64] |= 1 << (uint(i) % 64)
					left--
				}
			}
			if setAffinity(&nw) {
				err := cmd.Start()
				setAffinity(&old)
				if err != nil {
					runtime.UnlockOSThread()
					return "BAD-START"
				}
				started = true
			}
		}
		runtime.UnlockOSThread()
	}
	if !started {
		if err := cmd.Start(); err != nil {
			return "BAD-START"
		}
	}
	defer func() {
		stdin.Close()
		_ = cmd.Process.Kill()
		_ = cmd.Wait()
	}()
	if _, err := stdin.Write([]byte(caseLine + "\n")); err != nil {
		return "CRASH"
	}
	type ans struct {
		s   string
		err error
	}
	ch := make(chan ans, 1)
	go func() {
		s, err := bufio.NewReaderSize(stdout, 1<<20).ReadString('\n')
		ch <- ans{s, err}
	}()
	select {
	case a := <-ch:
		if a.err != nil {
			stdin.Close()
			_ = cmd.Wait()
			if race && (strings.Contains(stderr.String(), "DATA RACE") || cmd.ProcessState != nil && cmd.ProcessState.ExitCode() == 66) {
				return "ROOT - ; OUT - ; LEAK 0 ; RACE 1 ; CALLS 0"
			}
			return "CRASH"
		}
		return strings.TrimRight(a.s, "\n")
	case <-time.After(120 * time.Second):
		return "HANG"
	}
}

// ------------------------------------------------------------------------------------------------
// generation

type coll []entry

func f(rel, content string) entry { return entry{'f', rel, content} }
func sl(rel, content string) entry { return entry{'s', rel, content} }
func d(rel string) entry          { return entry{'d', rel, ""} }

// base collections: prefix / concatenation names (a, ab, a/b is split over two universes because a cannot be both a
// file and a directory), empty files, equal contents, nested directories, directories and duplicates in the list,
// contents around the SHA-256 padding boundaries
func bases() []coll {
	long := strings.Repeat("spok", 5000)
	return []coll{
		{},
		{f("a", "1")},
		{d("d")},
		{f("a", ""), f("b", "")},
		{f("a", "b"), f("ab", "")},
		{f("a", "1"), f("a", "1")},
		{f("a", "x"), f("ab", "x"), f("b", "x")},
		{f("a/b", "1"), f("ab", "1"), f("a/bc", "")},
		{f("d/a", "1"), f("d/b", "2"), f("da", "1")},
		{f("a", "1"), d("d"), f("d/a", "1")},
		{d("d"), d("d/e"), f("d/e/f", "deep"), d("g")},
		{f("a", "1"), f("b", "2"), f("a", "1"), f("b", "2")},
		{f("a", "\x00\xff\n |;"), f("x y", "sp"), f("\xc3\xa9", "utf8"), f("\xff\xfe", "not utf8")},
		{f("p55", strings.Repeat("a", 55)), f("p56", strings.Repeat("a", 56)), f("p63", strings.Repeat("a", 63)), f("p64", strings.Repeat("a", 64)), f("big", long)},
		{f("a", "1"), f("b", "2"), f("c", "3"), f("d/a", "4"), f("d/b", "5")},
		{f("a", "1"), f("b", "1"), f("ab", "2"), d("d"), f("d/a", "")},
		{f("a", "2"), f("b", "1"), d("g"), f("a", "2"), d("g")},
		// dependencies that are symbolic links to regular files
		{sl("lnk", "1"), f("a", "1")},
		{sl("l1", "x"), sl("d/l2", "x"), f("b", "y")},
		// names that are not valid UTF-8 and differ only there
		{f("r\xe9sum\xe9-\xe9.txt", "1"), f("r\xe9sum\xe9-\xe8.txt", "2")},
		{f("\xff", "1"), f("\xfe", "1"), f("\xef\xbf\xbd", "1")},
	}
}

var namePool = []string{"a", "ab", "b", "ba", "abc", "c", "d/a", "d/b", "d/ab", "da", "db", "d/e/a", "d/e/f", "g/a", "z", "x y", "a.b"}
var dirPool = []string{"d", "d/e", "g", "h", "h/i"}
var contentPool = []string{"", "1", "2", "a", "b", "ab", "12", "\x00", strings.Repeat("z", 64)}

func permutations(c coll, limit int) []coll {
	var res []coll
	seen := map[string]bool{}
	idx := make([]int, len(c))
	for i := range idx {
		idx[i] = i
	}
	var rec func(k int)
	rec = func(k int) {
		if limit > 0 && len(res) >= limit {
			return
		}
		if k == len(idx) {
			p := make(coll, len(c))
			var key strings.Builder
			for i, j := range idx {
				p[i] = c[j]
				key.WriteString(c[j].String())
				key.WriteByte(' ')
			}
			if !seen[key.String()] {
				seen[key.String()] = true
				res = append(res, p)
			}
			return
		}
		for i := k; i < len(idx); i++ {
			idx[k], idx[i] = idx[i], idx[k]
			rec(k + 1)
			idx[k], idx[i] = idx[i], idx[k]
		}
	}
	rec(0)
	return res
}

func clone(c coll) coll { return append(coll{}, c...) }

func usedNames(c coll) map[string]bool {
	m := map[string]bool{}
	for _, e := range c {
		m[e.rel] = true
		// a name is also unusable when it is a directory prefix of a used one or has a used file as prefix
		parts := strings.Split(e.rel, "/")
		for i := 1; i < len(parts); i++ {
			m[strings.Join(parts[:i], "/")] = true
		}
	}
	return m
}

func freeNames(c coll) []string {
	used := usedNames(c)
	var res []string
	for _, n := range namePool {
		if used[n] {
			continue
		}
		ok := true
		parts := strings.Split(n, "/")
		for i := 1; i < len(parts) && ok; i++ {
			pre := strings.Join(parts[:i], "/")
			for _, e := range c {
				if e.rel == pre && e.kind != 'd' {
					ok = false
				}
			}
		}
		if ok {
			res = append(res, n)
		}
	}
	return res
}

// setContent changes the content of every occurrence of the path (the file system is consistent)
func setContent(c coll, rel, content string) coll {
	r := clone(c)
	for i := range r {
		if r[i].rel == rel && (r[i].kind == 'f' || r[i].kind == 's') {
			r[i].content = content
		}
	}
	return r
}

func rename(c coll, rel, to string) coll {
	r := clone(c)
	for i := range r {
		if r[i].rel == rel && (r[i].kind == 'f' || r[i].kind == 's') {
			r[i].rel = to
		}
	}
	return r
}

// one-edit variants of a fault-free collection: content change, rename, add, remove (different collection) and
// directory insertions (same collection)
func edits(c coll, rng *rand.Rand, max int) []variant {
	var vs []variant
	var files []entry
	seen := map[string]bool{}
	for _, e := range c {
		if (e.kind == 'f' || e.kind == 's') && !seen[e.rel] {
			seen[e.rel] = true
			files = append(files, e)
		}
	}
	free := freeNames(c)
	for _, e := range files {
		vs = append(vs, variant{"content", setContent(c, e.rel, e.content+"!")})
		if e.content != "" {
			vs = append(vs, variant{"content", setContent(c, e.rel, "")})
			// same size, other bytes (every file of a tree carries the same modification time, see build)
			last := "Z"
			if strings.HasSuffix(e.content, "Z") {
				last = "Y"
			}
			vs = append(vs, variant{"content", setContent(c, e.rel, e.content[:len(e.content)-1]+last)})
		}
		for _, o := range files {
			if o.content != e.content {
				vs = append(vs, variant{"content", setContent(c, e.rel, o.content)})
				// the two files swap their contents
				vs = append(vs, variant{"diff", setContent(setContent(c, e.rel, o.content), o.rel, e.content)})
				break
			}
		}
		for i, n := range free {
			if i < 3 || n == e.rel+"b" || strings.HasPrefix(e.rel, n) {
				vs = append(vs, variant{"rename", rename(c, e.rel, n)})
			}
		}
		// a rename that changes nothing but the case of the name (README.md -> Readme.md)
		if up := strings.ToUpper(e.rel[:1]) + e.rel[1:]; up != e.rel && !seen[up] {
			vs = append(vs, variant{"rename", rename(c, e.rel, up)})
		}
		var rem coll
		for _, x := range c {
			if x.rel != e.rel {
				rem = append(rem, x)
			}
		}
		vs = append(vs, variant{"remove", rem})
	}
	for i, n := range free {
		if i >= 4 {
			break
		}
		content := ""
		if len(files) > 0 && i%2 == 1 {
			content = files[0].content
		}
		pos := rng.Intn(len(c) + 1)
		add := append(clone(c[:pos]), f(n, content))
		add = append(add, c[pos:]...)
		vs = append(vs, variant{"add", add})
	}
	for _, dn := range dirPool {
		isFile := false
		for _, e := range c {
			if (e.kind == 'f' || e.kind == 's') && (e.rel == dn || strings.HasPrefix(dn, e.rel+"/")) {
				isFile = true
			}
		}
		if isFile {
			continue
		}
		pos := rng.Intn(len(c) + 1)
		w := append(clone(c[:pos]), d(dn))
		w = append(w, c[pos:]...)
		vs = append(vs, variant{"dirs", w})
	}
	var nodirs coll
	for _, e := range c {
		if e.kind != 'd' {
			nodirs = append(nodirs, e)
		}
	}
	if len(nodirs) != len(c) {
		vs = append(vs, variant{"dirs", nodirs})
	}
	if max > 0 && len(vs) > max {
		rng.Shuffle(len(vs), func(i, j int) { vs[i], vs[j] = vs[j], vs[i] })
		vs = vs[:max]
	}
	return vs
}

func sized(n int) coll {
	c := make(coll, n)
	for i := range c {
		c[i] = f(fmt.Sprintf("s/f%05d", i), contentPool[i%len(contentPool)])
	}
	return c
}

func shuffled(c coll, rng *rand.Rand) coll {
	r := clone(c)
	rng.Shuffle(len(r), func(i, j int) { r[i], r[j] = r[j], r[i] })
	return r
}

func reversed(c coll) coll {
	r := clone(c)
	for i, j := 0, len(r)-1; i < j; i, j = i+1, j-1 {
		r[i], r[j] = r[j], r[i]
	}
	return r
}

func randColl(rng *rand.Rand, maxN int) coll {
	n := rng.Intn(maxN + 1)
	var c coll
	for len(c) < n {
		switch k := rng.Intn(10); {
		case k < 7:
			free := freeNames(c)
			if len(free) == 0 {
				return c
			}
			c = append(c, f(free[rng.Intn(len(free))], contentPool[rng.Intn(len(contentPool))]))
		case k < 8 && len(c) > 0:
			c = append(c, c[rng.Intn(len(c))]) // duplicate
		default:
			dn := dirPool[rng.Intn(len(dirPool))]
			bad := false
			for _, e := range c {
				if (e.kind == 'f' || e.kind == 's') && (e.rel == dn || strings.HasPrefix(dn, e.rel+"/")) {
					bad = true
				}
			}
			if !bad {
				c = append(c, d(dn))
			}
		}
	}
	return c
}

type line struct {
	text string
	cost int
}

type emitter struct {
	lines  []line
	rng    *rand.Rand
	gmp    []int
	k      int
	race   bool
	raceOn bool
}

func (em *emitter) emit(c, r int, vs []variant) {
	g := group{g: em.gmp[em.k%len(em.gmp)], c: c, r: r, y: em.rng.Uint64() >> 1, vs: vs}
	em.k++
	if em.raceOn {
		g.x = 1
	}
	cost := 20
	for _, v := range vs {
		cost += r*(3+len(v.es)) + 2*len(v.es)
		for _, e := range v.es {
			cost += r * len(e.content) / 2000
		}
	}
	if c > 0 || g.x == 1 {
		cost = cost*3 + 500
	}
	em.lines = append(em.lines, line{g.String(), cost})
}

// flush writes the collected lines. The supervisor (sup.supervise) hands out chunks of 64 *consecutive* lines to its
// child processes, so the expensive groups are spread evenly over the chunks (longest first, least loaded chunk).
func (em *emitter) flush(w *bufio.Writer, already int) {
	const chunk = 64
	n := already + len(em.lines)
	nb := (n + chunk - 1) / chunk
	if nb == 0 {
		return
	}
	capOf := func(b int) int {
		c := chunk
		if b == nb-1 {
			c = n - chunk*(nb-1)
		}
		return c
	}
	bins := make([][]line, nb)
	load := make([]int, nb)
	used := make([]int, nb)
	// the lines already written (corpus) occupy the first slots
	for i := 0; i < already; i++ {
		used[i/chunk]++
	}
	ls := append([]line{}, em.lines...)
	sort.SliceStable(ls, func(i, j int) bool { return ls[i].cost > ls[j].cost })
	for _, l := range ls {
		best := -1
		for b := 0; b < nb; b++ {
			if used[b] < capOf(b) && (best < 0 || load[b] < load[best]) {
				best = b
			}
		}
		bins[best] = append(bins[best], l)
		load[best] += l.cost
		used[best]++
	}
	for _, b := range bins {
		for _, l := range b {
			fmt.Fprintln(w, l.text)
		}
	}
}

// emitChunks writes base + variants, at most `per` variants per case line (the base is repeated in each)
func (em *emitter) emitChunks(c, r int, base coll, vs []variant, per int) {
	if len(vs) == 0 {
		em.emit(c, r, []variant{{"base", base}})
		return
	}
	for i := 0; i < len(vs); i += per {
		j := i + per
		if j > len(vs) {
			j = len(vs)
		}
		em.emit(c, r, append([]variant{{"base", base}}, vs[i:j]...))
	}
}

func faultEntry(kind byte, i int) entry {
	switch kind {
	case 'n':
		return entry{'n', fmt.Sprintf("pf%d/x", i), ""}
	case 'v':
		return entry{'v', fmt.Sprintf("van%d", i), "soon gone"}
	case 'l':
		return entry{'l', fmt.Sprintf("link%d", i), ""}
	case 'r':
		return entry{'r', fmt.Sprintf("eio%d", i), ""}
	case 'x':
		return entry{'x', fmt.Sprintf("nofd%d", i), "cannot be opened just now"}
	}
	return entry{'m', fmt.Sprintf("nope%d.txt", i), ""}
}

// faultKinds: missing, dangling link, parent is a file, vanishing — and "read fails" where /proc/self/mem behaves so
func faultKinds() []byte {
	ks := []byte{'m', 'l', 'n', 'v', 'x'}
	if fh, err := os.Open("/proc/self/mem"); err == nil {
		var b [1]byte
		if st, err := fh.Stat(); err == nil && st.Mode().IsRegular() {
			if _, err := fh.Read(b[:]); err != nil {
				ks = append(ks, 'r')
			}
		}
		fh.Close()
	}
	return ks
}

func insertAt(c coll, pos int, e entry) coll {
	r := append(clone(c[:pos]), e)
	return append(r, c[pos:]...)
}

func buildRace(tier string) bool {
	if tier != "thorough" {
		return false
	}
	out := raceBinary()
	hdir := os.Getenv("VERIF_HARNESS")
	if hdir == "" {
		hdir = "/verif/harness"
	}
	args := []string{"build", "-race"}
	if mf := filepath.Join(filepath.Dir(out), "go.mod"); fileExists(mf) {
		args = append(args, "-modfile="+mf)
	}
	args = append(args, "-tags", "verif", "-o", out, "./cmd/vh-hash")
	cmd := exec.Command("go", args...)
	cmd.Dir = hdir
	cmd.Env = append(os.Environ(), "CGO_ENABLED=1", "GOFLAGS=-mod=mod", "GOPROXY=off", "GOSUMDB=off", "GOTOOLCHAIN=local")
	if b, err := cmd.CombinedOutput(); err != nil {
		fmt.Fprintf(os.Stderr, "vh-hash: -race build not available, race cases skipped: %v\n%s\n", err, b)
		_ = os.Remove(out)
		return false
	}
	return true
}

func fileExists(p string) bool { _, err := os.Stat(p); return err == nil }

// raceFlag: "0" when this process is the -race build (a detected race kills it, see runInner), else "na"
func raceFlag() string {
	if os.Getenv("VH_HASH_RACE") == "on" {
		return "0"
	}
	return "na"
}

func gen(w *bufio.Writer, args map[string]string) {
	prop := args["prop"]
	thorough := args["tier"] == "thorough"
	seed := int64(sup.Atoi(args["seed"], 1))
	rng := rand.New(rand.NewSource(seed*7919 + int64(len(prop))))
	em := &emitter{rng: rng, gmp: []int{1, 2, 4, 16}}
	em.race = buildRace(args["tier"])
	ncpu := runtime.NumCPU()

	// corpus first (counted, so that the chunk layout of flush stays aligned)
	var cbuf bytes.Buffer
	cw := bufio.NewWriter(&cbuf)
	sup.CorpusLines(cw, "hash")
	cw.Flush()
	w.Write(cbuf.Bytes())
	nCorpus := bytes.Count(cbuf.Bytes(), []byte("\n"))

	// SHA-256 self-test of the oracle against crypto/sha256: every length across the padding boundaries, then random
	// messages (cheap lines; they also give the supervisor enough chunks to keep all cores busy)
	maxLen, nRandSha := 300, 420
	if thorough {
		maxLen, nRandSha = 600, 2000
	}
	for n := 0; n <= maxLen; n++ {
		b := make([]byte, n)
		rng.Read(b)
		em.lines = append(em.lines, line{"sha " + sup.Hx(string(b)), 1})
	}
	for i := 0; i < nRandSha; i++ {
		b := make([]byte, 200+rng.Intn(3000))
		rng.Read(b)
		em.lines = append(em.lines, line{"sha " + sup.Hx(string(b)), 1})
	}

	reps, permMax, bigN, nRand := 50, 5, 6000, 600
	if thorough {
		reps, permMax, bigN, nRand = 1500, 7, 12000, 15000
	}

	switch prop {
	case "C18":
		genC18(em, thorough, reps, bigN, nRand, ncpu)
	default:
		genC04(em, thorough, reps, permMax, bigN, nRand, ncpu)
	}
	if em.race {
		// the same shapes once more in the -race build (fewer repetitions: the detector slows everything down)
		em.raceOn = true
		em.k = 0
		switch prop {
		case "C18":
			genC18(em, false, 60, 2000, 100, ncpu)
		default:
			genC04(em, false, 60, 5, 2000, 100, ncpu)
		}
	}
	em.flush(w, nCorpus)
}

func genC04(em *emitter, thorough bool, reps, permMax, bigN, nRand, ncpu int) {
	rng := em.rng
	bs := bases()
	if thorough {
		bs = append(bs,
			coll{f("a", "1"), f("ab", "2"), f("b", "3"), f("d/a", "4"), f("d/b", "5"), f("da", "6")},
			coll{f("a", "1"), f("ab", "1"), f("b", ""), d("d"), f("d/a", ""), f("d/e/f", "6"), f("z", "1")},
			coll{f("a", "1"), f("b", "2"), f("c", "3"), f("d/a", "4"), f("d/b", "5"), f("da", "6"), f("db", "7")},
		)
	}
	// every ordering of every base list, many schedules each
	for _, b := range bs {
		if len(b) > permMax {
			continue
		}
		r := reps
		if len(b) == 6 {
			r = reps / 5
		} else if len(b) >= 7 {
			r = reps / 25
		}
		var vs []variant
		for _, p := range permutations(b, 0)[1:] {
			vs = append(vs, variant{"perm", p})
		}
		em.emitChunks(0, r, b, vs, 12)
	}
	// one-edit neighbours of every base collection
	for _, b := range bs {
		em.emitChunks(0, reps/5, b, edits(b, rng, 0), 10)
	}
	// sizes around the worker-count boundary min(NumCPU, len): 0 … 4·NumCPU
	for n := 0; n <= 4*ncpu; n++ {
		b := sized(n)
		vs := []variant{{"perm", reversed(b)}, {"perm", shuffled(b, rng)}, {"perm", shuffled(b, rng)}}
		if n > 0 {
			vs = append(vs, variant{"remove", clone(b[:n-1])}, variant{"content", setContent(b, b[n/2].rel, "changed")})
		}
		vs = append(vs, variant{"add", insertAt(b, rng.Intn(n+1), f("s/new", "1"))}, variant{"dirs", insertAt(b, rng.Intn(n+1), d("s"))})
		em.emit(0, reps*2/5, append([]variant{{"base", b}}, vs...))
	}
	// fewer CPUs than files: NumCPU = 1, 2, 3 (sub-process with restricted affinity)
	for _, c := range []int{1, 2, 3} {
		for _, n := range []int{0, 1, 2, 3, 4, 5, 9, 33} {
			b := sized(n)
			vs := []variant{{"perm", reversed(b)}, {"perm", shuffled(b, rng)}}
			if n > 0 {
				vs = append(vs, variant{"remove", clone(b[1:])})
			}
			em.emit(c, reps*2/5, append([]variant{{"base", b}}, vs...))
		}
	}
	// a long list
	{
		b := sized(bigN)
		em.emit(0, 3, []variant{{"base", b}, {"perm", shuffled(b, rng)}, {"remove", clone(b[:bigN-1])}, {"content", setContent(b, b[bigN/3].rel, "changed")}})
	}
	// random collections with random neighbours
	for i := 0; i < nRand; i++ {
		b := randColl(rng, 6)
		vs := []variant{{"perm", shuffled(b, rng)}, {"perm", shuffled(b, rng)}}
		vs = append(vs, edits(b, rng, 6)...)
		em.emit(0, 4+reps/12, append([]variant{{"base", b}}, vs...))
	}
}

func genC18(em *emitter, thorough bool, reps, bigN, nRand, ncpu int) {
	rng := em.rng
	// a missing / dangling / not-a-directory / vanishing entry at every position of lists of size ≤ 6, for every GOMAXPROCS
	kinds := faultKinds()
	for _, kind := range kinds {
		for n := 1; n <= 6; n++ {
			good := clone(bases()[14][:n-1])
			var vs []variant
			for pos := 0; pos < n; pos++ {
				label := "perm"
				if pos == 0 {
					label = "base"
				}
				vs = append(vs, variant{label, insertAt(good, pos, faultEntry(kind, 0))})
			}
			// the readable rest alone must give a digest again
			vs = append(vs, variant{"other", good})
			for range em.gmp {
				em.emit(0, reps, vs)
			}
		}
	}
	// several faults, duplicates of a fault, faults next to directories, only faults
	special := []coll{
		{faultEntry('m', 0), faultEntry('m', 0)},
		{faultEntry('m', 0), faultEntry('l', 1), faultEntry('n', 2)},
		{d("d"), faultEntry('m', 0), d("g")},
		{f("a", "1"), faultEntry('m', 0), f("a", "1"), faultEntry('m', 0), d("d")},
		{faultEntry('v', 0), faultEntry('v', 1), f("a", "1")},
		{faultEntry('v', 0), faultEntry('m', 1)},
		{f("pf0", "parent is listed too"), faultEntry('n', 0)},
		{entry{'m', "no/such/dir/file", ""}},
		{entry{'l', "d/link", ""}, d("d")},
	}
	if len(kinds) > 4 {
		special = append(special, coll{faultEntry('r', 0), f("a", "1")}, coll{faultEntry('r', 0), faultEntry('r', 0), faultEntry('m', 1)})
	}
	for _, c := range special {
		em.emit(0, reps, []variant{{"base", c}, {"perm", reversed(c)}})
	}
	// list sizes 0 … 4·NumCPU: all readable, and with one fault somewhere
	for n := 0; n <= 4*ncpu; n++ {
		b := sized(n)
		kind := kinds[n%len(kinds)]
		em.emit(0, reps/2, []variant{{"base", b}, {"perm", shuffled(b, rng)}, {"other", insertAt(b, rng.Intn(n+1), faultEntry(kind, 0))}})
	}
	// one path many times, directories only
	for _, k := range []int{2, 3, 17, 100} {
		var dup, dirs coll
		for i := 0; i < k; i++ {
			dup = append(dup, f("same", "again"))
			dirs = append(dirs, d("d"))
		}
		em.emit(0, reps/2, []variant{{"base", dup}, {"other", dirs}, {"other", insertAt(dup, k/2, faultEntry('m', 0))}})
	}
	// restricted CPU sets
	for _, c := range []int{1, 2} {
		for _, n := range []int{0, 1, 2, 3, 7, 40} {
			b := sized(n)
			em.emit(c, reps/2, []variant{{"base", b}, {"other", insertAt(b, n/2, faultEntry('m', 0))}, {"other", insertAt(b, n, faultEntry('v', 0))}})
		}
	}
	// one or two workers and a fault at every position: a worker that dies on an error is missed by the rest of the list
	for _, c := range []int{1, 2} {
		for _, n := range []int{2, 3, 5} {
			for _, kind := range kinds {
				good := sized(n - 1)
				var vs []variant
				for pos := 0; pos < n; pos++ {
					label := "perm"
					if pos == 0 {
						label = "base"
					}
					vs = append(vs, variant{label, insertAt(good, pos, faultEntry(kind, 0))})
				}
				em.emit(c, reps/5, vs)
			}
		}
	}
	// thousands of entries
	{
		b := sized(bigN)
		em.emit(0, 3, []variant{{"base", b}, {"other", insertAt(b, bigN/2, faultEntry('m', 0))}, {"other", insertAt(b, bigN, faultEntry('l', 0))}, {"other", insertAt(b, 0, faultEntry('v', 0))}})
	}
	// random lists with random faults
	for i := 0; i < nRand; i++ {
		b := randColl(rng, 8)
		nf := rng.Intn(3)
		c := clone(b)
		for j := 0; j < nf; j++ {
			c = insertAt(c, rng.Intn(len(c)+1), faultEntry(kinds[rng.Intn(len(kinds))], j))
		}
		em.emit(0, 5+reps/10, []variant{{"base", c}, {"perm", shuffled(c, rng)}, {"other", b}})
	}
}
