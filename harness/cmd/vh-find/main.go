// vh-find: implementation side of the correspondence check for property C17 (file.Find).
//
// case:  L <k0k1…kn> S <i> T <stop> [LN <j>] [REL <i0>]    (see lean/Spok/Oracle/Find.lean)
//
//	LN <j>:  level j of the chain is a SYMBOLIC LINK to a directory kept elsewhere (deeper levels live below that
//	         directory): the search climbs the path it was given, component by component, whatever the components are;
//	CS <j>:  level j also holds regular files "Spokfile" and "SPOKFILE" (not spokfiles); stop EXT (with LN): the
//	         directory the linked level points to, named by its own path (physically that level, lexically elsewhere);
//	REL <i0>: the working directory is level i0 (≤ i) and start is given RELATIVE to it (".", "d", "d/d", …): the climb
//	         of a relative path ends at "." — judged for termination and for the nearest spokfile between the two.
//
//	level j of the chain B/c, B/c/d, B/c/d/d, … is described by one hex digit k = 4·s + o:
//	s = 0 no spokfile | 1 regular file "spokfile" | 2 directory "spokfile";
//	o bit 0 = file "aaa" (sorts before "spokfile"), bit 1 = file "zzz" (sorts after);
//	start = level i; stop = Lj (level j) | Uj (a directory "u" next to level j) | ROOT ("/").
//
//	MC <v>:  the directories of the chain have glob meta characters in their NAMES (v selects the pair of names), and next to
//	         every level lies a decoy directory (with a spokfile) that the name, read as a pattern, would match: names are
//	         names — the model does not know the option.
//
//	GIT <j>: level j also holds a DIRECTORY called `.git` (a nested checkout, a submodule): an entry like any other — the
//	         climb goes on to the nearest spokfile above it.
//
// observation:  RES FOUND <level> | RES NOTFOUND | RES ERR | RES HANG
//
// Every case is built as a REAL tree in a fresh temp directory and file.Find is called on it.
// A call that does not return is turned into HANG twice over: the logger handed to Find counts the
// iterations of the walk ("Looking in …" is logged once per directory visited) and gives up after
// stepBudget of them — the chains built here are fewer than 16 components deep, so a terminating upward
// walk logs at most that many times —, and, should a non-terminating walk
// not log, the supervisor's per-case Timeout kills the worker and records HANG for the case.
package main

import (
	"bufio"
	"errors"
	"fmt"
	"io/fs"
	"os"
	"path/filepath"
	"strconv"
	"strings"
	"time"

	"github.com/FollowTheProcess/spok/file"

	"verif/harness/sup"
)

const stepBudget = 256

type budgetExceeded struct{}

// nolog implements logger.Logger; it writes nothing and only counts the calls
type nolog struct{ n int }

func (l *nolog) Sync() error { return nil }
func (l *nolog) Debug(string, ...any) {
	l.n++
	if l.n > stepBudget {
		panic(budgetExceeded{})
	}
}

var base string // per-process scratch directory
var seq int

// scratchRoot prefers a memory-backed directory: the run makes ~10^6 metadata operations
func scratchRoot() string {
	if os.Getenv("VERIF_TMP") != "" {
		return os.Getenv("VERIF_TMP")
	}
	if st, err := os.Stat("/dev/shm"); err == nil && st.IsDir() {
		if f, err := os.CreateTemp("/dev/shm", "vhprobe"); err == nil {
			f.Close()
			os.Remove(f.Name())
			return "/dev/shm"
		}
	}
	return os.TempDir()
}

func ensureBase() string {
	if base == "" {
		b, err := os.MkdirTemp(scratchRoot(), fmt.Sprintf("vhfind-%d-", os.Getppid()))
		if err != nil {
			panic(err)
		}
		// the chain is modelled as lying directly below "/": resolve symlinks so that the walk really passes through `b`
		if r, err := filepath.EvalSymlinks(b); err == nil {
			b = r
		}
		base = b
	}
	return base
}

func hexVal(c byte) (int, bool) {
	switch {
	case c >= '0' && c <= '9':
		return int(c - '0'), true
	case c >= 'a' && c <= 'f':
		return int(c-'a') + 10, true
	}
	return 0, false
}

func populate(dir string, k int) error {
	if k&1 != 0 {
		if err := os.WriteFile(filepath.Join(dir, "aaa"), nil, 0o644); err != nil {
			return err
		}
	}
	if k&2 != 0 {
		if err := os.WriteFile(filepath.Join(dir, "zzz"), nil, 0o644); err != nil {
			return err
		}
	}
	switch k / 4 {
	case 1:
		return os.WriteFile(filepath.Join(dir, file.NAME), []byte("# spokfile\n"), 0o644)
	case 2:
		return os.Mkdir(filepath.Join(dir, file.NAME), 0o755)
	}
	return nil
}

func findWork(c string) string {
	f := strings.Fields(c)
	if len(f) < 6 || len(f)%2 != 0 || f[0] != "L" || f[2] != "S" || f[4] != "T" {
		return "BAD-CASE"
	}
	linkAt, relFrom, caseAt, mc, gitAt := -1, -1, -1, -1, -1
	for i := 6; i+1 < len(f); i += 2 {
		v, err := strconv.Atoi(f[i+1])
		if err != nil || v < 0 {
			return "BAD-CASE"
		}
		switch f[i] {
		case "LN":
			linkAt = v
		case "REL":
			relFrom = v
		case "CS":
			caseAt = v
		case "MC":
			mc = v
		case "GIT":
			gitAt = v
		default:
			return "BAD-CASE"
		}
	}
	var ks []int
	for i := 0; i < len(f[1]); i++ {
		v, ok := hexVal(f[1][i])
		if !ok || v >= 12 {
			return "BAD-CASE"
		}
		ks = append(ks, v)
	}
	si, err := strconv.Atoi(f[3])
	if err != nil || si < 0 || si >= len(ks) {
		return "BAD-CASE"
	}
	b := ensureBase()
	seq++
	// B must hold nothing but the chain (and `u`): the chain root is always called "c"
	cname, dname := "c", "d"
	var decoys [2]string
	if mc >= 0 {
		if mc >= len(mcNames) {
			return "BAD-CASE"
		}
		cname, dname = mcNames[mc][0], mcNames[mc][1]
		decoys = [2]string{mcNames[mc][2], mcNames[mc][3]}
	}
	root := filepath.Join(b, cname)
	ext := filepath.Join(b, "ext")
	wipe := func() {
		es, _ := os.ReadDir(b)
		for _, e := range es {
			_ = os.RemoveAll(filepath.Join(b, e.Name()))
		}
	}
	wipe()
	defer wipe()
	dirs := []string{root}
	for i := 1; i < len(ks); i++ {
		dirs = append(dirs, filepath.Join(dirs[i-1], dname))
	}
	if err := os.MkdirAll(dirs[len(dirs)-1], 0o755); err != nil {
		return "BAD-SETUP " + sup.Hx(err.Error())
	}
	if mc >= 0 {
		// the decoys: what the names would match if they were patterns
		for i, d := range dirs {
			dec := filepath.Join(filepath.Dir(d), decoys[1])
			if i == 0 {
				dec = filepath.Join(filepath.Dir(d), decoys[0])
			}
			if dec == d {
				continue
			}
			if err := os.MkdirAll(dec, 0o755); err != nil {
				return "BAD-SETUP " + sup.Hx(err.Error())
			}
			if err := os.WriteFile(filepath.Join(dec, file.NAME), []byte("# decoy\n"), 0o644); err != nil {
				return "BAD-SETUP " + sup.Hx(err.Error())
			}
		}
	}
	for i, k := range ks {
		if err := populate(dirs[i], k); err != nil {
			return "BAD-SETUP " + sup.Hx(err.Error())
		}
	}
	if gitAt >= 0 {
		if gitAt >= len(ks) {
			return "BAD-CASE"
		}
		if err := os.MkdirAll(filepath.Join(dirs[gitAt], ".git", "refs"), 0o755); err != nil {
			return "BAD-SETUP " + sup.Hx(err.Error())
		}
		_ = os.WriteFile(filepath.Join(dirs[gitAt], ".git", "HEAD"), []byte("ref: refs/heads/main\n"), 0o644)
	}
	if caseAt >= 0 {
		if caseAt >= len(ks) {
			return "BAD-CASE"
		}
		// regular files whose names differ from "spokfile" in case only: they are not spokfiles
		for _, n := range []string{"Spokfile", "SPOKFILE"} {
			if err := os.WriteFile(filepath.Join(dirs[caseAt], n), []byte("# not it\n"), 0o644); err != nil {
				return "BAD-SETUP " + sup.Hx(err.Error())
			}
		}
	}
	var stop string
	switch {
	case f[5] == "EXT":
		// the directory a linked level points to, named by its own path
		if linkAt < 0 {
			return "BAD-CASE"
		}
		stop = ext
	case f[5] == "ROOT":
		stop = string(filepath.Separator)
	case strings.HasPrefix(f[5], "L"):
		j, err := strconv.Atoi(f[5][1:])
		if err != nil || j < 0 || j >= len(ks) {
			return "BAD-CASE"
		}
		stop = dirs[j]
	case strings.HasPrefix(f[5], "U"):
		j, err := strconv.Atoi(f[5][1:])
		if err != nil || j < 0 || j >= len(ks) {
			return "BAD-CASE"
		}
		stop = filepath.Join(filepath.Dir(dirs[j]), "u")
		if err := os.Mkdir(stop, 0o755); err != nil {
			return "BAD-SETUP " + sup.Hx(err.Error())
		}
	default:
		return "BAD-CASE"
	}

	if linkAt >= 0 {
		if linkAt >= len(ks) {
			return "BAD-CASE"
		}
		// level linkAt (with everything below it) moves elsewhere; a symbolic link takes its place
		if err := os.Rename(dirs[linkAt], ext); err != nil {
			return "BAD-SETUP " + sup.Hx(err.Error())
		}
		if err := os.Symlink(ext, dirs[linkAt]); err != nil {
			return "BAD-SETUP " + sup.Hx(err.Error())
		}
	}
	start := dirs[si]
	if relFrom >= 0 {
		if relFrom > si {
			return "BAD-CASE"
		}
		wd, err := os.Getwd()
		if err != nil {
			return "BAD-SETUP " + sup.Hx(err.Error())
		}
		if err := os.Chdir(dirs[relFrom]); err != nil {
			return "BAD-SETUP " + sup.Hx(err.Error())
		}
		defer os.Chdir(wd)
		start = "."
		if si > relFrom {
			start = strings.TrimSuffix(strings.Repeat(dname+"/", si-relFrom), "/")
		}
	}

	return "RES " + callFind(dirs, start, stop)
}

func callFind(dirs []string, start, stop string) (out string) {
	lg := &nolog{}
	defer func() {
		if r := recover(); r != nil {
			if _, ok := r.(budgetExceeded); ok {
				out = "HANG"
			} else {
				out = "ERR"
			}
		}
	}()
	p, err := file.Find(lg, start, stop)
	if err != nil {
		var pe *fs.PathError
		if errors.As(err, &pe) {
			return "ERR" // a directory could not be read: never expected on these chains
		}
		return "NOTFOUND"
	}
	for j, d := range dirs {
		if p == filepath.Join(d, file.NAME) {
			return fmt.Sprintf("FOUND %d", j)
		}
	}
	return "ERR"
}

// ---------------------------------------------------------------------------------------------

const hexd = "0123456789abcdef"

// mcNames: name of the chain root, name of the deeper levels, and the decoys next to them
var mcNames = [][4]string{
	{"c[x]", "d[1]", "cx", "d1"},
	{"c*", "d?", "cc", "dq"},
	{"[c", "d]", "c", "d"},
	{"c\\c", "d\\d", "cc", "dd"},
	{"{c,e}", "d{1,2}", "c", "d1"},
}

func genChains(w *bufio.Writer, n int, kinds []int) {
	// all kind vectors of length n
	idx := make([]int, n)
	for {
		var sb strings.Builder
		for _, i := range idx {
			sb.WriteByte(hexd[kinds[i]])
		}
		ks := sb.String()
		for s := 0; s < n; s++ {
			for j := 0; j < n; j++ {
				fmt.Fprintf(w, "L %s S %d T L%d\n", ks, s, j)
			}
			for j := 0; j < n; j++ {
				fmt.Fprintf(w, "L %s S %d T U%d\n", ks, s, j)
			}
			fmt.Fprintf(w, "L %s S %d T ROOT\n", ks, s)
		}
		// next vector
		p := n - 1
		for p >= 0 {
			idx[p]++
			if idx[p] < len(kinds) {
				break
			}
			idx[p] = 0
			p--
		}
		if p < 0 {
			return
		}
	}
}

func findGen(w *bufio.Writer, args map[string]string) {
	sup.CorpusLines(w, "find")
	all := []int{0, 1, 2, 3, 4, 5, 6, 7, 8, 9, 10, 11}
	// the eight kinds of the reconnaissance run: empty, before, after, both, spokfile, spokfile+before, dir, dir+after
	eight := []int{0, 1, 2, 3, 4, 5, 8, 10}
	// exhaustive in both tiers (the property's space is finite): every chain of depth <= 4
	// (quick: 4-level chains over the eight reconnaissance kinds; thorough: over all twelve)
	for n := 1; n <= 3; n++ {
		genChains(w, n, all)
	}
	if args["tier"] == "thorough" {
		genChains(w, 4, all) // 12^4 chains x 4 starts x 9 stops
	} else {
		genChains(w, 4, eight)
	}
	// chains of 3 levels over the eight kinds again, (a) with each level in turn a symbolic link, (b) with every working
	// directory at or above start and start given relative to it
	genVariants(w, 3, eight)
}

func genVariants(w *bufio.Writer, n int, kinds []int) {
	idx := make([]int, n)
	for {
		var sb strings.Builder
		for _, i := range idx {
			sb.WriteByte(hexd[kinds[i]])
		}
		ks := sb.String()
		for s := 0; s < n; s++ {
			stops := []string{"ROOT"}
			for j := 0; j < n; j++ {
				stops = append(stops, fmt.Sprintf("L%d", j), fmt.Sprintf("U%d", j))
			}
			for _, st := range stops {
				for ln := 0; ln < n; ln++ {
					fmt.Fprintf(w, "L %s S %d T %s LN %d\n", ks, s, st, ln)
				}
				for cs := 0; cs < n; cs++ {
					fmt.Fprintf(w, "L %s S %d T %s CS %d\n", ks, s, st, cs)
				}
				for mc := range mcNames {
					fmt.Fprintf(w, "L %s S %d T %s MC %d\n", ks, s, st, mc)
				}
				for gi := 0; gi < n; gi++ {
					fmt.Fprintf(w, "L %s S %d T %s GIT %d\n", ks, s, st, gi)
				}
				if st == "ROOT" {
					for i0 := 0; i0 <= s; i0++ {
						fmt.Fprintf(w, "L %s S %d T %s REL %d MC %d\n", ks, s, st, i0, (s+i0)%len(mcNames))
					}
				}
				for i0 := 0; i0 <= s; i0++ {
					fmt.Fprintf(w, "L %s S %d T %s REL %d\n", ks, s, st, i0)
				}
			}
			for ln := 0; ln < n; ln++ {
				fmt.Fprintf(w, "L %s S %d T EXT LN %d\n", ks, s, ln)
			}
		}
		p := n - 1
		for p >= 0 {
			idx[p]++
			if idx[p] < len(kinds) {
				break
			}
			idx[p] = 0
			p--
		}
		if p < 0 {
			return
		}
	}
}

func main() {
	if len(os.Args) > 1 && os.Args[1] == "exec" {
		defer func() {
			// scratch directories of workers that were killed (HANG) or crashed
			old, _ := filepath.Glob(filepath.Join(scratchRoot(), fmt.Sprintf("vhfind-%d-*", os.Getpid())))
			for _, d := range old {
				_ = os.RemoveAll(d)
			}
		}()
	}
	defer func() {
		if base != "" {
			_ = os.RemoveAll(base)
		}
	}()
	sup.Main("find", &sup.Engine{Gen: findGen, Work: findWork, Recycle: 0, Timeout: 20 * time.Second})
}
