// vh-cli: implementation side of the cli engine (C09, C19, C20).
//
// Binary level: every case is a small project tree plus a short SEQUENCE of spok invocations. Work runs the
// REAL binary $VERIF_BUILD/spok inside a fresh sandbox directory used as HOME, with a full snapshot of the
// sandbox (path, kind, mode, content hash) before and after every invocation (symbolic links are recorded as
// links, kind l with the target string as content, and never followed by the walk: what a link points to is
// in the snapshot under its own path, all generated targets stay inside HOME), captured stdout / stderr / exit
// status and a side-effect log ($LOG, outside the sandbox) that every generated task command appends its own
// marker to.  What the judges use as ground truth is that log (which commands really ran, in which order),
// the scripted outputs / exit codes of those commands (known by construction) and the snapshots -- never
// spok's own account of the run.
//
// Case grammar (one line, blank separated words; strings hex encoded, `-` = empty):
//
//	T <n> {<relpath> <f|d|l> <octal mode> <hex content>}    initial sandbox tree (paths relative to HOME); kind l = a
//	                                                        symbolic link, its content is the (relative) target string
//	P <dir|->                                               directory of THE spokfile the spec below describes
//	W <parses 0|1> <loads 0|1> <dotenv n|g|b>               world facts the generator built in
//	V <n> {<name> S <hex value> | <name> J <k> {<hex arg>}} variables (literal | join(args...))
//	K <n> {<name> <hex doc> <k> {<task dep>} <k> {<hex file dep>} <k> {<hex src> <hex interpolated> <hex stdout> <hex stderr> <status>}}
//	S <n> {<cwd> <flags,comma|-> <k> {<arg>} <k> {<relpath> <hex content>}}   steps: cwd, flags, task names, edits applied first
//
// command (t,c) of the K section appends the marker `K<t>x<c>` to $LOG before anything else.
package main

import (
	"bufio"
	"bytes"
	"context"
	"crypto/sha256"
	"encoding/json"
	"fmt"
	"io"
	"io/fs"
	"math/rand"
	"os"
	"os/exec"
	"path/filepath"
	"regexp"
	"sort"
	"strconv"
	"strings"
	"time"

	"verif/harness/sup"
)

func main() {
	sup.Main("cli", &sup.Engine{Gen: cliGen, Work: cliWork, Recycle: 0, Timeout: 120 * time.Second})
}

var hx, unhx, atoi = sup.Hx, sup.Unhx, sup.Atoi

// ---------------------------------------------------------------------------------------------
// case representation

type cmdSpec struct {
	src, interp, out, err string
	status                int
}

type taskSpec struct {
	name, doc string
	tdeps     []string
	fdeps     []string
	cmds      []cmdSpec
}

type varSpec struct {
	name string
	join bool
	val  string
	args []string
}

type ent struct {
	path    string
	kind    string // f | d | l (symbolic link: content = target string)
	mode    uint32
	content string
}

type edit struct{ path, content string }

type step struct {
	cwd   string
	flags []string
	args  []string
	edits []edit
}

type caseT struct {
	tree          []ent
	proj          string
	parses, loads bool
	dotenv        string
	vars          []varSpec
	tasks         []taskSpec
	steps         []step
}

func b01(b bool) string {
	if b {
		return "1"
	}
	return "0"
}

func dash(s string) string {
	if s == "" {
		return "-"
	}
	return s
}

func (c *caseT) encode() string {
	w := []string{"T", strconv.Itoa(len(c.tree))}
	for _, e := range c.tree {
		w = append(w, e.path, e.kind, strconv.FormatUint(uint64(e.mode), 8), hx(e.content))
	}
	w = append(w, "P", dash(c.proj), "W", b01(c.parses), b01(c.loads), c.dotenv)
	w = append(w, "V", strconv.Itoa(len(c.vars)))
	for _, v := range c.vars {
		if v.join {
			w = append(w, v.name, "J", strconv.Itoa(len(v.args)))
			for _, a := range v.args {
				w = append(w, hx(a))
			}
		} else {
			w = append(w, v.name, "S", hx(v.val))
		}
	}
	w = append(w, "K", strconv.Itoa(len(c.tasks)))
	for _, t := range c.tasks {
		w = append(w, t.name, hx(t.doc), strconv.Itoa(len(t.tdeps)))
		w = append(w, t.tdeps...)
		w = append(w, strconv.Itoa(len(t.fdeps)))
		for _, f := range t.fdeps {
			w = append(w, hx(f))
		}
		w = append(w, strconv.Itoa(len(t.cmds)))
		for _, k := range t.cmds {
			w = append(w, hx(k.src), hx(k.interp), hx(k.out), hx(k.err), strconv.Itoa(k.status))
		}
	}
	w = append(w, "S", strconv.Itoa(len(c.steps)))
	for _, s := range c.steps {
		w = append(w, s.cwd, dash(strings.Join(s.flags, ",")), strconv.Itoa(len(s.args)))
		w = append(w, s.args...)
		w = append(w, strconv.Itoa(len(s.edits)))
		for _, e := range s.edits {
			w = append(w, e.path, hx(e.content))
		}
	}
	return strings.Join(w, " ")
}

type rd struct {
	w   []string
	i   int
	bad bool
}

func (r *rd) next() string {
	if r.i >= len(r.w) {
		r.bad = true
		return ""
	}
	s := r.w[r.i]
	r.i++
	return s
}
func (r *rd) num() int {
	n, err := strconv.Atoi(r.next())
	if err != nil || n < 0 || n > 10000 {
		r.bad = true
		return 0
	}
	return n
}
func (r *rd) hexs() string {
	s, ok := unhx(r.next())
	if !ok {
		r.bad = true
	}
	return s
}
func (r *rd) lit(s string) {
	if r.next() != s {
		r.bad = true
	}
}
func undash(s string) string {
	if s == "-" {
		return ""
	}
	return s
}

func decodeCase(line string) (*caseT, bool) {
	r := &rd{w: strings.Fields(line)}
	c := &caseT{}
	r.lit("T")
	for n := r.num(); n > 0 && !r.bad; n-- {
		e := ent{path: r.next(), kind: r.next()}
		m, err := strconv.ParseUint(r.next(), 8, 32)
		if err != nil {
			r.bad = true
		}
		e.mode = uint32(m)
		e.content = r.hexs()
		c.tree = append(c.tree, e)
	}
	r.lit("P")
	c.proj = undash(r.next())
	r.lit("W")
	c.parses = r.next() == "1"
	c.loads = r.next() == "1"
	c.dotenv = r.next()
	r.lit("V")
	for n := r.num(); n > 0 && !r.bad; n-- {
		v := varSpec{name: r.next()}
		switch r.next() {
		case "S":
			v.val = r.hexs()
		case "J":
			v.join = true
			for k := r.num(); k > 0 && !r.bad; k-- {
				v.args = append(v.args, r.hexs())
			}
		default:
			r.bad = true
		}
		c.vars = append(c.vars, v)
	}
	r.lit("K")
	for n := r.num(); n > 0 && !r.bad; n-- {
		t := taskSpec{name: r.next(), doc: r.hexs()}
		for k := r.num(); k > 0 && !r.bad; k-- {
			t.tdeps = append(t.tdeps, r.next())
		}
		for k := r.num(); k > 0 && !r.bad; k-- {
			t.fdeps = append(t.fdeps, r.hexs())
		}
		for k := r.num(); k > 0 && !r.bad; k-- {
			t.cmds = append(t.cmds, cmdSpec{src: r.hexs(), interp: r.hexs(), out: r.hexs(), err: r.hexs(), status: r.num()})
		}
		c.tasks = append(c.tasks, t)
	}
	r.lit("S")
	for n := r.num(); n > 0 && !r.bad; n-- {
		s := step{cwd: r.next()}
		if f := undash(r.next()); f != "" {
			s.flags = strings.Split(f, ",")
		}
		for k := r.num(); k > 0 && !r.bad; k-- {
			s.args = append(s.args, r.next())
		}
		for k := r.num(); k > 0 && !r.bad; k-- {
			s.edits = append(s.edits, edit{path: r.next(), content: r.hexs()})
		}
		c.steps = append(c.steps, s)
	}
	if r.bad || r.i != len(r.w) {
		return nil, false
	}
	return c, true
}

// ---------------------------------------------------------------------------------------------
// running the real binary

type snapEnt struct {
	kind    string
	mode    fs.FileMode
	sum     [32]byte
	content []byte
}

func snapshot(root string) map[string]snapEnt {
	m := map[string]snapEnt{}
	_ = filepath.WalkDir(root, func(p string, d fs.DirEntry, err error) error {
		if err != nil {
			return nil
		}
		rel, _ := filepath.Rel(root, p)
		if rel == "." {
			return nil
		}
		info, err := d.Info()
		if err != nil {
			return nil
		}
		e := snapEnt{mode: info.Mode().Perm()}
		switch {
		case d.IsDir():
			e.kind = "d"
		case info.Mode()&fs.ModeSymlink != 0:
			e.kind = "l"
			t, _ := os.Readlink(p)
			e.content = []byte(t)
			e.sum = sha256.Sum256(e.content)
		default:
			e.kind = "f"
			e.content, _ = os.ReadFile(p)
			e.sum = sha256.Sum256(e.content)
		}
		m[filepath.ToSlash(rel)] = e
		return nil
	})
	return m
}

// entryCode: what a path is in the real sandbox: a absent, f regular file, d directory, and for a symbolic link
// what os.Stat finds behind it: lf file, ld directory, lx nothing (dangling link, link loop)
func entryCode(p string) string {
	li, err := os.Lstat(p)
	if err != nil {
		return "a"
	}
	if li.Mode()&fs.ModeSymlink != 0 {
		si, err := os.Stat(p)
		switch {
		case err != nil:
			return "lx"
		case si.IsDir():
			return "ld"
		default:
			return "lf"
		}
	}
	if li.IsDir() {
		return "d"
	}
	return "f"
}

// diff returns sorted `path:kind` with kind ∈ new del mod app chm typ
// (app = the old content is a proper prefix of the new content: an append)
func diff(a, b map[string]snapEnt) []string {
	var out []string
	for p, x := range a {
		y, ok := b[p]
		switch {
		case !ok:
			out = append(out, p+":del")
		case x.kind != y.kind:
			out = append(out, p+":typ")
		case x.sum != y.sum:
			if len(y.content) > len(x.content) && bytes.HasPrefix(y.content, x.content) {
				out = append(out, p+":app")
			} else {
				out = append(out, p+":mod")
			}
		case x.mode != y.mode:
			out = append(out, p+":chm")
		}
	}
	for p := range b {
		if _, ok := a[p]; !ok {
			out = append(out, p+":new")
		}
	}
	sort.Strings(out)
	return out
}

var (
	ansiRe   = regexp.MustCompile(`\x1b\[[0-9;?]*[ -/]*[@-~]`)
	logRe    = regexp.MustCompile(`^K(\d+)x(\d+)$`)
	oMarkRe  = regexp.MustCompile(`o\d+x\d+`)
	eMarkRe  = regexp.MustCompile(`^e\d+x\d+[a-z]?$`)
	debugRe  = regexp.MustCompile(`^\d{4}-\d\d-\d\dT\d\d:\d\d:\d\d`)
	flagLong = map[string]string{"init": "--init", "quiet": "--quiet", "debug": "--debug", "json": "--json", "fmt": "--fmt", "vars": "--vars",
		"clean": "--clean", "show": "--show", "force": "--force", "q": "-q", "j": "-j", "f": "-f", "s": "-s", "c": "-c"}
)

func joinOr(xs []string, sep string) string {
	if len(xs) == 0 {
		return "-"
	}
	return strings.Join(xs, sep)
}

func canonLine(l string) string { return strings.Join(strings.Fields(l), " ") }

type jsonCmd struct {
	Cmd    string `json:"cmd"`
	Stdout string `json:"stdout"`
	Stderr string `json:"stderr"`
	Status int    `json:"status"`
}
type jsonTask struct {
	Task    string    `json:"task"`
	Results []jsonCmd `json:"results"`
	Skipped bool      `json:"skipped"`
}

// parseOneJSON: stdout must be exactly ONE JSON document (an array of task objects) and blanks
func parseOneJSON(s string) ([]jsonTask, bool) {
	dec := json.NewDecoder(strings.NewReader(s))
	var doc []jsonTask
	if err := dec.Decode(&doc); err != nil {
		return nil, false
	}
	var extra any
	if err := dec.Decode(&extra); err != io.EOF {
		return nil, false
	}
	return doc, true
}

func cliWork(line string) string {
	c, ok := decodeCase(line)
	if !ok {
		return "BAD-CASE"
	}
	bin := filepath.Join(os.Getenv("VERIF_BUILD"), "spok")
	if os.Getenv("VERIF_BUILD") == "" {
		bin = "/verif/.build/spok"
	}
	root, err := os.MkdirTemp("", "vhc")
	if err != nil {
		return "BAD-SANDBOX"
	}
	defer os.RemoveAll(root)
	if r, err := filepath.EvalSymlinks(root); err == nil {
		root = r
	}
	home := filepath.Join(root, "h")
	logPath := filepath.Join(root, "log")
	nobin := filepath.Join(root, "nobin")
	_ = os.MkdirAll(home, 0o755)
	_ = os.MkdirAll(nobin, 0o755)
	for _, e := range c.tree {
		p := filepath.Join(home, filepath.FromSlash(e.path))
		if e.kind == "d" {
			_ = os.MkdirAll(p, 0o755)
			_ = os.Chmod(p, fs.FileMode(e.mode))
		} else if e.kind == "l" {
			_ = os.MkdirAll(filepath.Dir(p), 0o755)
			_ = os.Symlink(e.content, p)
		} else {
			_ = os.MkdirAll(filepath.Dir(p), 0o755)
			_ = os.WriteFile(p, []byte(e.content), fs.FileMode(e.mode))
			_ = os.Chmod(p, fs.FileMode(e.mode))
		}
	}
	taskNames := map[string]int{}
	ncmds := map[string]int{}
	for i, t := range c.tasks {
		taskNames[t.name] = i
		ncmds[t.name] = len(t.cmds)
	}
	varNames := map[string]bool{}
	for _, v := range c.vars {
		varNames[v.name] = true
	}
	cachePrefix := ""
	if c.proj != "" {
		cachePrefix = c.proj + "/.spok"
		if c.proj == "." {
			cachePrefix = ".spok"
		}
	}

	var cwdsf []string
	var exits, named, wrs, diffs, outs, jss, oms, trs, vrs, ems, logs, jsons, reports, canons, raws, probes []string
	for _, s := range c.steps {
		for _, e := range s.edits {
			p := filepath.Join(home, filepath.FromSlash(e.path))
			_ = os.MkdirAll(filepath.Dir(p), 0o755)
			_ = os.WriteFile(p, []byte(e.content), 0o644)
		}
		_ = os.WriteFile(logPath, nil, 0o644)
		before := snapshot(home)
		cwdsf = append(cwdsf, entryCode(filepath.Join(home, filepath.FromSlash(s.cwd), "spokfile")))

		var argv []string
		hasJSON := false
		envHome := home
		for _, f := range s.flags {
			if strings.HasPrefix(f, "spokfile=") {
				argv = append(argv, "--spokfile", filepath.Join(home, filepath.FromSlash(strings.TrimPrefix(f, "spokfile="))))
				continue
			}
			if strings.HasPrefix(f, "home=") {
				// $HOME of this invocation is a directory INSIDE the sandbox (discovery stops there; the working directory
				// may be below it, above it, or unrelated to it)
				envHome = filepath.Join(home, filepath.FromSlash(strings.TrimPrefix(f, "home=")))
				continue
			}
			if f == "json" || f == "j" {
				hasJSON = true
			}
			if l, ok := flagLong[f]; ok {
				argv = append(argv, l)
			} else {
				argv = append(argv, "--"+f)
			}
		}
		for _, a := range s.args {
			switch a {
			case "@E":
				a = "" // an empty argument (an unset variable in a wrapper script): no task is called that
			case "@B":
				a = "  "
			}
			argv = append(argv, a)
		}
		ctx, cancel := context.WithTimeout(context.Background(), 30*time.Second)
		cmd := exec.CommandContext(ctx, bin, argv...)
		cmd.Dir = filepath.Join(home, filepath.FromSlash(s.cwd))
		cmd.Env = []string{"HOME=" + envHome, "PATH=" + nobin, "NO_COLOR=1", "TERM=dumb", "LOG=" + logPath}
		if d := os.Getenv("GOCOVERDIR"); d != "" {
			cmd.Env = append(cmd.Env, "GOCOVERDIR="+d) // a -cover build of the binary (coverage report of the evidence)
		}
		var so, se bytes.Buffer
		// where standard output and standard error lead must not matter: pipes (as under a CI runner) or, for about a
		// third of the invocations, regular files outside the sandbox (`spok … > out.log 2> err.log`)
		var fo, fe *os.File
		if h := sha256.Sum256([]byte(c.encode() + strings.Join(argv, " "))); h[0]%3 == 0 {
			fo, _ = os.CreateTemp("", "vhcli-out-")
			fe, _ = os.CreateTemp("", "vhcli-err-")
		}
		if fo != nil && fe != nil {
			cmd.Stdout, cmd.Stderr = fo, fe
		} else {
			cmd.Stdout, cmd.Stderr = &so, &se
		}
		runErr := cmd.Run()
		if fo != nil && fe != nil {
			for _, pr := range []struct {
				f *os.File
				b *bytes.Buffer
			}{{fo, &so}, {fe, &se}} {
				if data, err := os.ReadFile(pr.f.Name()); err == nil {
					pr.b.Write(data)
				}
				pr.f.Close()
				os.Remove(pr.f.Name())
			}
		}
		timedOut := ctx.Err() != nil
		cancel()
		exit := 0
		if runErr != nil {
			if ee, ok := runErr.(*exec.ExitError); ok {
				exit = ee.ExitCode() // -1 when killed by a signal
			} else {
				exit = -2
			}
		}
		if timedOut {
			exit = -3
		}
		after := snapshot(home)

		// ground truth: what really ran
		logData, _ := os.ReadFile(logPath)
		var marks []string
		failing := map[string]bool{}
		anyFail := false
		for _, l := range strings.Split(string(logData), "\n") {
			if l == "" {
				continue
			}
			m := logRe.FindStringSubmatch(l)
			if m == nil {
				marks = append(marks, "?")
				continue
			}
			ti, _ := strconv.Atoi(m[1])
			ci, _ := strconv.Atoi(m[2])
			marks = append(marks, fmt.Sprintf("%d.%d", ti, ci))
			if ti < len(c.tasks) && ci < len(c.tasks[ti].cmds) && c.tasks[ti].cmds[ci].status != 0 {
				failing[c.tasks[ti].name] = true
				anyFail = true
			}
		}

		clean := func(b []byte) string {
			t := ansiRe.ReplaceAllString(string(b), "")
			return strings.ReplaceAll(t, home, "@")
		}
		stdout, stderr := clean(so.Bytes()), clean(se.Bytes())

		// stderr: command markers, debug lines, and what is left is spok's own report
		var em, rep []string
		for _, l := range strings.Split(stderr, "\n") {
			switch {
			case strings.TrimSpace(l) == "":
			case eMarkRe.MatchString(l):
				em = append(em, l)
			case debugRe.MatchString(l):
			default:
				rep = append(rep, l)
			}
		}
		report := strings.Join(rep, "\n")
		nm := "-"
		if anyFail {
			var ns []string
			for n := range taskNames {
				if strings.Contains(report, n) {
					ns = append(ns, n)
				}
			}
			sort.Strings(ns)
			nm = joinOr(ns, ",")
			if len(ns) == 0 {
				nm = "none"
			}
		}

		// stdout
		kind, js, jflat, om, tr, vr := "text", "-", "-", "-", "-", "-"
		switch {
		case so.Len() == 0: // "standard output is empty": not a single byte
			kind = "empty"
		case hasJSON:
			doc, ok := parseOneJSON(stdout)
			if !ok {
				kind = "badjson"
				jflat = "bad"
				break
			}
			kind = "json"
			var fl, xs, ss, zs, ns []string
			for _, t := range doc {
				fl = append(fl, "T", hx(t.Task), b01(t.Skipped), strconv.Itoa(len(t.Results)))
				var cw []string
				for _, r := range t.Results {
					cw = append(cw, hx(r.Cmd), hx(r.Stdout), hx(r.Stderr), strconv.Itoa(r.Status))
				}
				fl = append(fl, cw...)
				n, known := ncmds[t.Task]
				switch {
				case len(t.Results) > 0:
					x := []string{"X", hx(t.Task), b01(t.Skipped), strconv.Itoa(len(t.Results))}
					xs = append(xs, strings.Join(append(x, cw...), " "))
				case known && n == 0:
					zs = append(zs, hx(t.Task))
				case t.Skipped:
					ss = append(ss, hx(t.Task))
				default:
					ns = append(ns, hx(t.Task))
				}
			}
			sort.Strings(ss)
			sort.Strings(zs)
			sort.Strings(ns)
			jflat = joinOr(fl, " ")
			js = strings.Join(append(append([]string{}, xs...), "S "+joinOr(ss, ","), "Z "+joinOr(zs, ","), "N "+joinOr(ns, ",")), " ")
		default:
			om = joinOr(oMarkRe.FindAllString(stdout, -1), ",")
			var t, v []string
			for _, l := range strings.Split(stdout, "\n") {
				f := strings.Fields(l)
				if len(f) == 0 {
					continue
				}
				if _, ok := taskNames[f[0]]; ok {
					t = append(t, hx(canonLine(l)))
				}
				if varNames[f[0]] {
					v = append(v, hx(canonLine(l)))
				}
			}
			tr, vr = joinOr(t, ","), joinOr(v, ",")
		}

		d := diff(before, after)
		var wr []string
		for _, x := range d {
			p := x[:strings.LastIndex(x, ":")]
			if cachePrefix != "" && (p == cachePrefix || strings.HasPrefix(p, cachePrefix+"/")) {
				continue
			}
			wr = append(wr, x)
		}

		exits = append(exits, strconv.Itoa(exit))
		named = append(named, nm)
		wrs = append(wrs, joinOr(wr, ","))
		diffs = append(diffs, joinOr(d, ","))
		outs = append(outs, kind)
		jss = append(jss, js)
		oms = append(oms, om)
		trs = append(trs, tr)
		vrs = append(vrs, vr)
		ems = append(ems, joinOr(em, ","))
		logs = append(logs, joinOr(marks, ","))
		jsons = append(jsons, jflat)
		// the look-around probe (cmdSpec shape 11): wherever its output is visible it is the patterns themselves
		probeState := "clean"
		var seenLines []string
		if hasJSON {
			if doc, ok := parseOneJSON(stdout); ok {
				for _, t := range doc {
					for _, r := range t.Results {
						seenLines = append(seenLines, strings.Split(r.Stdout, "\n")...)
					}
				}
			}
		} else {
			seenLines = strings.Split(ansiRe.ReplaceAllString(stdout, ""), "\n")
		}
		for _, l := range seenLines {
			if strings.Contains(l, "*~") && !strings.Contains(l, "echo ") && strings.TrimSpace(l) != lookAround {
				probeState = "dirty:" + hx(l)
			}
		}
		probes = append(probes, probeState)
		if kind == "json" {
			// the report byte for byte: the model writes the same bytes for the content read from them (CANON)
			canons = append(canons, "ok")
			raws = append(raws, hx(stdout))
		} else {
			canons = append(canons, "-")
			raws = append(raws, "-")
		}
		reports = append(reports, hx(report))
	}
	j := func(xs []string) string { return strings.Join(xs, " / ") }
	return fmt.Sprintf("EXIT %s ; NAMED %s ; WR %s ; OUT %s ; JS %s ; OM %s ; TR %s ; VR %s ; EM %s ; LOG %s ; DIFF %s ; JSON %s ; REPORT %s ; CWDSF %s ; CANON %s ; RAW %s ; PROBE %s",
		j(exits), j(named), j(wrs), j(outs), j(jss), j(oms), j(trs), j(vrs), j(ems), j(logs), j(diffs), j(jsons), j(reports), j(cwdsf), j(canons), j(raws), j(probes))
}

// ---------------------------------------------------------------------------------------------
// generation

var taskPool = []string{"build", "lint", "docs", "pack", "gen", "vet", "ship"}
var docPool = []string{"Run the thing", "Second doc", "Compile all of it", "Makes a package", "X", "Checks style and more", "needs >= 80% of statements (100%!)", "%d files, %s each %%",
	"Compile the bindings for C#", "#1 priority", "Usage: make it so:", ": starts with a colon", "a # in the middle", "ends with a dot.", "...", "(in parentheses)", "tilde ~ and 'quotes'",
	"Compiles every binding, then packages all of it for the release and uploads the lot (a long one)"}
var statusPool = []int{1, 1, 2, 3, 7, 126, 127, 128, 129, 130, 137, 141, 143, 200, 254, 255}

type gen struct {
	rng *rand.Rand
}

func (g *gen) pick(xs ...string) string { return xs[g.rng.Intn(len(xs))] }
func (g *gen) chance(num, den int) bool { return g.rng.Intn(den) < num }

type specOpts struct {
	maxTasks, minCmds, maxCmds int
	failPct                    int  // probability (percent) that a command fails
	wantDefault                int  // 0 never, 1 maybe, 2 always
	wantClean                  bool // may define a task named clean
	cleanLate                  bool // always define a task named clean, late in the file so that it can depend on others
	maxVars                    int
}

// genSpec builds variables and tasks; task i may depend on tasks defined before it in the slice
func (g *gen) genSpec(o specOpts) ([]varSpec, []taskSpec) {
	var vars []varSpec
	nv := 0
	if o.maxVars > 0 {
		nv = g.rng.Intn(o.maxVars + 1)
	}
	lit := map[string]string{}
	pool := []varSpec{{name: "VA", val: "hello"}, {name: "VB", val: "v two 50% %s"}, {name: "PTH", join: true, args: []string{"out", "x"}},
		{name: "VC", val: ""}, {name: "OUTD", join: true, args: []string{"dist"}}}
	g.rng.Shuffle(3, func(i, j int) { pool[i], pool[j] = pool[j], pool[i] })
	for i := 0; i < nv && i < len(pool); i++ {
		vars = append(vars, pool[i])
		if !pool[i].join {
			lit[pool[i].name] = pool[i].val
		}
	}

	nt := 1 + g.rng.Intn(o.maxTasks)
	names := append([]string{}, taskPool...)
	g.rng.Shuffle(len(names), func(i, j int) { names[i], names[j] = names[j], names[i] })
	names = names[:nt]
	hasDefault := o.wantDefault == 2 || (o.wantDefault == 1 && g.chance(1, 2))
	if hasDefault {
		names[nt-1] = "default"
	}
	if o.wantClean && nt >= 2 && g.chance(1, 6) {
		names[0] = "clean"
	}
	if o.cleanLate && nt >= 2 {
		if hasDefault {
			names[nt-2] = "clean"
		} else {
			names[nt-1] = "clean"
		}
	}
	var tasks []taskSpec
	for ti, n := range names {
		t := taskSpec{name: n}
		if g.chance(1, 2) {
			t.doc = docPool[g.rng.Intn(len(docPool))]
		}
		for j := 0; j < ti; j++ {
			if g.chance(2, 5) {
				t.tdeps = append(t.tdeps, names[j])
			}
		}
		if n != "default" && g.chance(3, 5) {
			// a quarter of the file-dependent tasks share one file: digests of different tasks then coincide
			if ti > 0 && g.chance(1, 4) {
				t.fdeps = append(t.fdeps, "in0.txt")
			} else {
				t.fdeps = append(t.fdeps, fmt.Sprintf("in%d.txt", ti))
			}
			if g.chance(1, 4) {
				t.fdeps = append(t.fdeps, "src/*.txt")
			}
		}
		nc := o.minCmds + g.rng.Intn(o.maxCmds-o.minCmds+1)
		if n == "default" && nc == 0 {
			nc = 1
		}
		for ci := 0; ci < nc; ci++ {
			t.cmds = append(t.cmds, g.genCmd(ti, ci, o.failPct, lit))
		}
		tasks = append(tasks, t)
	}
	return vars, tasks
}

func (g *gen) genCmd(ti, ci, failPct int, lit map[string]string) cmdSpec {
	mark := fmt.Sprintf("%dx%d", ti, ci)
	src := "echo K" + mark + " >> $LOG"
	k := cmdSpec{}
	interpExtra := ""
	shape := g.rng.Intn(12)
	switch shape {
	case 11:
		// a look around from inside the task: nothing has been dropped next to the cache directory or in the working
		// directory while spok runs (a lock, a temporary file, a backup): the shell leaves a pattern that matches nothing as it is
		src += "; echo " + lookAround
		k.out = lookAround + "\n"
	case 9:
		// text that looks like JSON escapes, HTML and format verbs: it must come back from the report byte for byte
		txt := g.pick(`a\u0026b`, `x\u003cy\u003e`, `<b>&amp;</b>`, `100%d%s`, `q\"uote\\`, `tab\there`, "del\x7fete")
		src += "; echo '" + txt + "'"
		k.out = txt + "\n"
		if g.chance(1, 6) {
			// text beyond ASCII — with the line and paragraph separators, which json.Marshal escapes — can only come from a
			// command's OUTPUT: the text of a command is ASCII (anything else is a syntax error)
			src += `; printf 'line\342\200\250sep\342\200\251par\n\357\277\275 is a rune too\ngr\303\274\303\237e \342\206\222 \342\234\223 \360\237\230\200\n'`
			k.out += "line\u2028sep\u2029par\n\ufffd is a rune too\ngr\u00fc\u00dfe \u2192 \u2713 \U0001F600\n"
		}
	case 0:
	case 1:
		src += "; echo o" + mark
		k.out = "o" + mark + "\n"
	case 2:
		src += "; echo e" + mark + " >&2"
		k.err = "e" + mark + "\n"
	case 3:
		src += "; echo o" + mark + "; echo e" + mark + " >&2"
		k.out = "o" + mark + "\n"
		k.err = "e" + mark + "\n"
	case 4:
		src += "; printf o" + mark
		k.out = "o" + mark
	case 5:
		src += "; echo o" + mark + "; echo oo" + mark + "; echo e" + mark + " >&2; echo e" + mark + "b >&2"
		k.out = "o" + mark + "\noo" + mark + "\n"
		k.err = "e" + mark + "\ne" + mark + "b\n"
	case 6:
		if v, ok := lit["VA"]; ok {
			src += "; echo {{.VA}}"
			interpExtra = "; echo " + v
			k.out = v + "\n"
		}
	case 7:
		if v, ok := lit["VB"]; ok {
			src += "; echo $VB"
			k.out = v + "\n"
		}
	default:
		src += "; echo o" + mark
		k.out = "o" + mark + "\n"
	}
	tail := ""
	if g.rng.Intn(100) < failPct {
		k.status = statusPool[g.rng.Intn(len(statusPool))]
		if g.chance(1, 3) {
			k.status = 1 + g.rng.Intn(255)
		}
		if g.chance(1, 8) {
			// a program that is not installed: status 127 like any other failure
			k.status = 127
			tail = "; nosuchprogramzz" + mark + " --version"
		} else if g.chance(1, 5) {
			// the failing statement is NOT the last one of the command line: the line stops there (errexit)
			k.status = 1
			tail = "; test -f /nonexistent/file; echo never" + mark
		} else if k.status == 1 && g.chance(1, 2) {
			tail = "; false"
		} else {
			tail = "; exit " + strconv.Itoa(k.status)
		}
	} else {
		tail = g.pick("", "", "", "; true", "; exit 0")
	}
	k.src = src + tail
	if interpExtra != "" {
		k.interp = strings.Replace(k.src, "; echo {{.VA}}", interpExtra, 1)
	} else {
		k.interp = k.src
	}
	return k
}

// render writes the spokfile text; layout varies so that --fmt sometimes changes the file and sometimes not
func (g *gen) render(vars []varSpec, tasks []taskSpec) string {
	var b strings.Builder
	if len(vars) > 0 && g.chance(1, 2) {
		// (a comment directly before a task would be that task's docstring, blank lines or not)
		b.WriteString("# A generated spokfile\n\n")
	}
	for _, v := range vars {
		if v.join {
			var qs []string
			for _, a := range v.args {
				qs = append(qs, `"`+a+`"`)
			}
			fmt.Fprintf(&b, "%s := join(%s)\n", v.name, strings.Join(qs, ", "))
		} else {
			fmt.Fprintf(&b, "%s := %q\n", v.name, v.val)
		}
	}
	if len(vars) > 0 {
		b.WriteString("\n")
	}
	indent := g.pick("    ", "    ", "\t", "  ")
	order := g.rng.Perm(len(tasks))
	for _, i := range order {
		t := tasks[i]
		if t.doc != "" {
			b.WriteString("# " + t.doc + "\n")
		}
		var deps []string
		deps = append(deps, t.tdeps...)
		for _, f := range t.fdeps {
			deps = append(deps, `"`+f+`"`)
		}
		if g.chance(1, 6) {
			// a glob that matches nothing: no file, no warning, no business of anybody's (not in the spec handed to the model)
			deps = append(deps, `"zz-none/**/*.zzz"`)
		}
		g.rng.Shuffle(len(deps), func(i, j int) { deps[i], deps[j] = deps[j], deps[i] })
		outs := ""
		if g.chance(1, 5) {
			// a declared output below a directory that does not exist: declaring is not creating (nor is running the task)
			outs = ` -> "zz-out/` + t.name + `/result.bin"`
		}
		fmt.Fprintf(&b, "task %s(%s)%s {\n", t.name, strings.Join(deps, ", "), outs)
		for _, k := range t.cmds {
			b.WriteString(indent + k.src + "\n")
		}
		b.WriteString("}\n")
		b.WriteString(g.pick("\n", "\n", ""))
	}
	return b.String()
}

const (
	wValid = iota
	wSyntax
	wDup
	wBuiltin
	wExec
)

func (g *gen) breakText(text string, tasks []taskSpec, how int) string {
	switch how {
	case wSyntax:
		switch g.rng.Intn(3) {
		case 0:
			return text + "\ntask (\n"
		case 1:
			return strings.Replace(text, "{", "", 1)
		default:
			return "BAD := \n" + text
		}
	case wDup:
		return text + "\ntask " + tasks[0].name + "() {\n    echo twice\n}\n"
	case wBuiltin:
		return "ZZ := nope(\"a\")\n" + text
	case wExec:
		return "ZZ := exec(\"exit 3\")\n" + text
	}
	return text
}

type treeOpts struct {
	withSpokfile bool
	spokDir      bool // a DIRECTORY named spokfile in proj/sub
	gitignore    int  // 0 none, 1 in proj, 2 in proj/sub too
	dotenv       string
	// symbolic links (all targets relative and inside HOME; `shared` is a directory next to `proj`)
	spokLink string // proj/spokfile is a link: file (-> ../shared/spokfile holding the text) | chain (-> ../shared/link -> spokfile)
	//                 | dangling (-> ../shared/missing) | nodir (-> ../nowhere/spokfile) | dir (-> ../shared) | loop (-> spokfile)
	gitLink string // proj/.gitignore is a link: file (-> ../shared/gitignore) | dangling (-> ../shared/gi-missing) | dir (-> src) | nodir
	envLink string // proj/.env: lg | lb (link -> ../shared/env, good / bad text) | dangling | ldir (link -> src) | dir (a directory)
	subLink string // proj/sub/spokfile is a link: up (-> ../spokfile) | dangling (-> nothing-here) | dir (-> deep)
	subGit  string // proj/sub/.gitignore is a link: up (-> ../.gitignore) | file (-> ../../shared/gitignore)
}

// designates reports whether proj/spokfile (regular or through links) holds the generated text
func (o treeOpts) designates() bool {
	return (o.withSpokfile && o.spokLink == "") || o.spokLink == "file" || o.spokLink == "chain"
}

func (o treeOpts) anyLink() bool {
	return o.spokLink != "" || o.gitLink != "" || o.subLink != "" || o.subGit != "" || (o.envLink != "" && o.envLink != "dir")
}

func (g *gen) tree(text string, tasks []taskSpec, o treeOpts) []ent {
	t := []ent{
		{"notes.txt", "f", 0o644, "home notes\n"},
		{"other", "d", 0o755, ""},
		{"other/readme.md", "f", 0o644, "nothing here\n"},
		{"proj", "d", 0o755, ""},
		{"proj/README.md", "f", 0o644, "# proj\n"},
		{"proj/run.sh", "f", 0o755, "#!/bin/sh\n"},
		{"proj/src", "d", 0o755, ""},
		{"proj/src/a.txt", "f", 0o644, "a\n"},
		{"proj/src/b.txt", "f", 0o600, "b\n"},
		{"proj/sub", "d", 0o755, ""},
		{"proj/sub/keep.txt", "f", 0o644, "keep\n"},
		{"proj/sub/deep", "d", 0o755, ""},
		{"proj/sub/deep/leaf.txt", "f", 0o444, "leaf\n"},
	}
	for i := range tasks {
		t = append(t, ent{fmt.Sprintf("proj/in%d.txt", i), "f", 0o644, fmt.Sprintf("input %d\n", i)})
	}
	if o.anyLink() || o.envLink != "" {
		t = append(t, ent{"shared", "d", 0o755, ""}, ent{"shared/readme.txt", "f", 0o644, "kept for several projects\n"})
	}
	switch o.spokLink {
	case "":
		if o.withSpokfile {
			t = append(t, ent{"proj/spokfile", "f", 0o644, text})
		}
	case "file":
		t = append(t, ent{"shared/spokfile", "f", 0o644, text}, ent{"proj/spokfile", "l", 0o777, "../shared/spokfile"})
	case "chain":
		t = append(t, ent{"shared/spokfile", "f", 0o644, text}, ent{"shared/link", "l", 0o777, "spokfile"}, ent{"proj/spokfile", "l", 0o777, "../shared/link"})
	case "dangling":
		t = append(t, ent{"proj/spokfile", "l", 0o777, "../shared/missing"})
	case "nodir":
		t = append(t, ent{"proj/spokfile", "l", 0o777, "../nowhere/spokfile"})
	case "dir":
		t = append(t, ent{"proj/spokfile", "l", 0o777, "../shared"})
	case "loop":
		t = append(t, ent{"proj/spokfile", "l", 0o777, "spokfile"})
	}
	switch o.gitLink {
	case "file":
		t = append(t, ent{"shared/gitignore", "f", 0o644, "node_modules/\n*.o"}, ent{"proj/.gitignore", "l", 0o777, "../shared/gitignore"})
	case "dangling":
		t = append(t, ent{"proj/.gitignore", "l", 0o777, "../shared/gi-missing"})
	case "nodir":
		t = append(t, ent{"proj/.gitignore", "l", 0o777, "../nowhere/gitignore"})
	case "dir":
		t = append(t, ent{"proj/.gitignore", "l", 0o777, "src"})
	}
	switch o.envLink {
	case "lg":
		t = append(t, ent{"shared/env", "f", 0o644, "ENVX=1\nENVY=two\n"}, ent{"proj/.env", "l", 0o777, "../shared/env"})
	case "lb":
		t = append(t, ent{"shared/env", "f", 0o644, "=x\n\"unterminated\n"}, ent{"proj/.env", "l", 0o777, "../shared/env"})
	case "dangling":
		t = append(t, ent{"proj/.env", "l", 0o777, "../shared/no-env"})
	case "ldir":
		t = append(t, ent{"proj/.env", "l", 0o777, "src"})
	case "dir":
		t = append(t, ent{"proj/.env", "d", 0o755, ""}, ent{"proj/.env/x", "f", 0o644, "A=1\n"})
	}
	switch o.subLink {
	case "up":
		t = append(t, ent{"proj/sub/spokfile", "l", 0o777, "../spokfile"})
	case "dangling":
		t = append(t, ent{"proj/sub/spokfile", "l", 0o777, "nothing-here"})
	case "dir":
		t = append(t, ent{"proj/sub/spokfile", "l", 0o777, "deep"})
	}
	switch o.subGit {
	case "up":
		t = append(t, ent{"proj/sub/.gitignore", "l", 0o777, "../.gitignore"})
	case "file":
		t = append(t, ent{"shared/gitignore2", "f", 0o600, ""}, ent{"proj/sub/.gitignore", "l", 0o777, "../../shared/gitignore2"})
	}
	if o.spokDir {
		t = append(t, ent{"proj/sub/spokfile", "d", 0o755, ""}, ent{"proj/sub/spokfile/x.txt", "f", 0o644, "x\n"})
	}
	if o.gitignore >= 1 && o.gitLink == "" {
		t = append(t, ent{"proj/.gitignore", "f", 0o644, "*.o\n"})
	}
	if o.gitignore >= 2 && o.subGit == "" {
		t = append(t, ent{"proj/sub/.gitignore", "f", 0o644, "tmp/"}) // no trailing newline
		t = append(t, ent{"other/.gitignore", "f", 0o600, ""})
	}
	switch o.dotenv {
	case "g":
		t = append(t, ent{"proj/.env", "f", 0o644, "ENVX=1\nENVY=two\n"})
	case "b":
		t = append(t, ent{"proj/.env", "f", 0o644, "=x\n\"unterminated\n"})
	}
	return t
}

// maybeLinked: a project with its spokfile; one time in six the spokfile is reached through a symbolic link
func (g *gen) maybeLinked() treeOpts {
	if g.chance(1, 6) {
		return treeOpts{spokLink: g.pick("file", "chain")}
	}
	return treeOpts{withSpokfile: true}
}

var cwds = []string{"proj", "proj", "proj/sub", "proj/sub/deep"}

func (g *gen) argsFor(tasks []taskSpec) []string {
	switch g.rng.Intn(10) {
	case 0, 1, 2:
		return nil
	case 3:
		return []string{"nosuch"}
	}
	n := 1 + g.rng.Intn(2)
	var out []string
	for i := 0; i < n; i++ {
		out = append(out, tasks[g.rng.Intn(len(tasks))].name)
	}
	if len(out) == 2 && out[0] == out[1] {
		out = out[:1]
	}
	return out
}

func (g *gen) newCase(so specOpts, world int, to treeOpts) *caseT {
	vars, tasks := g.genSpec(so)
	text := g.breakText(g.render(vars, tasks), tasks, world)
	c := &caseT{proj: "proj", parses: world != wSyntax, loads: world == wValid, dotenv: "n", vars: vars, tasks: tasks}
	if to.dotenv != "" {
		c.dotenv = to.dotenv
	}
	switch to.envLink { // W dotenv says what the FILE that proj/.env designates holds
	case "lg":
		c.dotenv = "g"
	case "lb":
		c.dotenv = "b"
	}
	if !to.designates() {
		c.proj = ""
	}
	c.tree = g.tree(text, tasks, to)
	return c
}

func (g *gen) pickFlags(sets [][]string) []string { return sets[g.rng.Intn(len(sets))] }

func pickWorld(g *gen, invalidPct int) int {
	if g.rng.Intn(100) >= invalidPct {
		return wValid
	}
	return []int{wSyntax, wSyntax, wDup, wBuiltin, wExec}[g.rng.Intn(5)]
}

var runFlagSets = [][]string{nil, {"quiet"}, {"json"}, {"force"}, {"force", "json"}, {"force", "quiet"}, {"debug"}, {"q"}, {"j"}, {"f"}, {"json", "debug"}, {"j", "debug", "force"}}

// C09: failing commands anywhere x {plain, --quiet, --json, --force}, then a second run
func genC09(w *bufio.Writer, g *gen, n int) {
	for i := 0; i < n; i++ {
		fail := []int{15, 30, 30, 60, 100}[g.rng.Intn(5)]
		c := g.newCase(specOpts{maxTasks: 4, minCmds: 1, maxCmds: 4, failPct: fail, wantDefault: 1, maxVars: 2}, wValid, g.maybeLinked())
		cwd := cwds[g.rng.Intn(len(cwds))]
		args := g.argsFor(c.tasks)
		if len(args) == 1 && args[0] == "nosuch" && g.chance(2, 3) {
			args = []string{c.tasks[len(c.tasks)-1].name}
		}
		s1 := step{cwd: cwd, flags: runFlagSets[g.rng.Intn(len(runFlagSets))], args: args}
		s2 := step{cwd: cwds[g.rng.Intn(len(cwds))], flags: runFlagSets[g.rng.Intn(len(runFlagSets))], args: args}
		if g.chance(1, 4) {
			s2.args = g.argsFor(c.tasks)
		}
		if g.chance(1, 4) {
			s2.flags = []string{"json"} // the follow-up run reported as JSON: the failed task must not show as skipped
		}
		c.steps = []step{s1, s2}
		if g.chance(1, 4) {
			c.steps = append(c.steps, step{cwd: cwd, flags: runFlagSets[g.rng.Intn(5)], args: args})
		}
		fmt.Fprintln(w, c.encode())
	}
	// the user's own `clean` task run through `--clean` (± --quiet, --json): a failing command in it — or in a task it
	// depends on — fails the invocation like any other
	for i := 0; i < n/6+8; i++ {
		fail := []int{40, 60, 100}[i%3]
		c := g.newCase(specOpts{maxTasks: 4, minCmds: 1, maxCmds: 3, failPct: fail, wantDefault: 1, cleanLate: true, maxVars: 1}, wValid, g.maybeLinked())
		cwd := cwds[g.rng.Intn(len(cwds))]
		cf := [][]string{{"clean"}, {"clean", "quiet"}, {"clean", "json"}, {"c"}, {"clean", "force"}}
		c.steps = []step{{cwd: cwd, flags: cf[i%len(cf)]}, {cwd: cwd, flags: cf[(i+1)%len(cf)], args: g.argsFor(c.tasks)}, {cwd: cwd, args: []string{"clean"}}}
		fmt.Fprintln(w, c.encode())
	}
}

// C17 at the level of the binary: where discovery looks — every working directory of the sandbox x every $HOME inside it
// (below, above, unrelated) x a listing action; the spokfile is in `proj`
func genC17(w *bufio.Writer, g *gen) {
	dirs := []string{".", "proj", "proj/sub", "proj/sub/deep", "proj/src", "other"}
	homes := []string{"", "home=.", "home=proj", "home=proj/sub", "home=other", "home=proj/sub/deep"}
	for i := 0; i < 6; i++ {
		c := g.newCase(specOpts{maxTasks: 3, minCmds: 1, maxCmds: 1, failPct: 0, wantDefault: 0, maxVars: 1}, wValid, treeOpts{withSpokfile: true})
		c.steps = nil
		for _, d := range dirs {
			for _, h := range homes {
				fl := []string{[]string{"show", "vars", "s"}[g.rng.Intn(3)]}
				if h != "" {
					fl = append(fl, h)
				}
				c.steps = append(c.steps, step{cwd: d, flags: fl})
			}
		}
		fmt.Fprintln(w, c.encode())
	}
}

// C03 at the level of the binary: which tasks one invocation runs, how often and in which order, as the side-effect log
// shows it — several task names whose closures overlap, the default task, and `--clean` (with and without task names)
// when the user has a `clean` task that depends on others
func genC03(w *bufio.Writer, g *gen, n int) {
	for i := 0; i < n; i++ {
		c := g.newCase(specOpts{maxTasks: 5, minCmds: 1, maxCmds: 2, failPct: 0, wantDefault: 1, cleanLate: i%2 == 0, maxVars: 1}, wValid, g.maybeLinked())
		cwd := cwds[g.rng.Intn(len(cwds))]
		var names []string
		for _, t := range c.tasks {
			names = append(names, t.name)
		}
		pick := func(k int) []string {
			var out []string
			for j := 0; j < k; j++ {
				out = append(out, names[g.rng.Intn(len(names))])
			}
			return out
		}
		c.steps = []step{
			{cwd: cwd, flags: g.pickFlags([][]string{nil, {"force"}, {"json"}, {"quiet"}}), args: pick(1 + g.rng.Intn(3))},
			{cwd: cwd, flags: []string{"clean"}, args: pick(g.rng.Intn(3))},
			{cwd: cwd, flags: g.pickFlags([][]string{{"force"}, {"force", "json"}, nil}), args: pick(g.rng.Intn(3))},
		}
		if g.chance(1, 3) {
			c.steps = append(c.steps, step{cwd: cwd, flags: []string{"clean", "force"}, args: pick(2)})
		}
		if i%5 == 0 {
			// an empty or blank task name (`spok "$UNSET" build`) names no task: an error, and nothing runs
			blank := []string{"@E", "@B"}[(i/5)%2]
			c.steps = append(c.steps, step{cwd: cwd, flags: g.pickFlags([][]string{nil, {"force"}, {"json"}}), args: append(pick(1), blank)},
				step{cwd: cwd, args: []string{blank}})
		}
		fmt.Fprintln(w, c.encode())
	}
}

// C14 at the level of the binary: a plain run fills the cache, then the same request (or none: the default task) with
// --force / -f (± --json, --quiet, --debug), then a plain run again; nothing fails
func genC14(w *bufio.Writer, g *gen, n int) {
	forceSets := [][]string{{"force"}, {"f"}, {"force", "json"}, {"force", "quiet"}, {"f", "j"}, {"force", "debug"}}
	for i := 0; i < n; i++ {
		c := g.newCase(specOpts{maxTasks: 4, minCmds: 1, maxCmds: 3, failPct: 0, wantDefault: 2, maxVars: 1}, wValid, g.maybeLinked())
		cwd := cwds[g.rng.Intn(len(cwds))]
		args := g.argsFor(c.tasks)
		if len(args) == 1 && args[0] == "nosuch" {
			args = nil
		}
		if i%2 == 0 {
			args = nil // no task names: the default task when there is one
		}
		c.steps = []step{
			{cwd: cwd, flags: nil, args: args},
			{cwd: cwds[g.rng.Intn(len(cwds))], flags: forceSets[g.rng.Intn(len(forceSets))], args: args},
			{cwd: cwd, flags: runFlagSets[g.rng.Intn(3)], args: args},
		}
		if g.chance(1, 3) {
			c.steps = append(c.steps, step{cwd: cwd, flags: forceSets[g.rng.Intn(len(forceSets))], args: args})
		}
		fmt.Fprintln(w, c.encode())
	}
}

// the exhaustive part of C09: two tasks x two commands, EVERY subset of the four commands failing, the second task
// depending on the first or independent of it, x {plain, --quiet, --json, --force}, each followed by a second run
func genC09Exhaustive(w *bufio.Writer, g *gen) {
	for _, depShared := range [][2]bool{{true, false}, {false, false}, {true, true}, {false, true}} {
		dep, shared := depShared[0], depShared[1]
		for mask := 0; mask < 16; mask++ {
			for _, fl := range [][]string{nil, {"quiet"}, {"json"}, {"force"}} {
				var tasks []taskSpec
				for ti, n := range []string{"gen", "build"} {
					t := taskSpec{name: n, fdeps: []string{fmt.Sprintf("in%d.txt", ti)}}
					if shared {
						// both tasks hash the same file: their digests coincide
						t.fdeps = []string{"in0.txt"}
					}
					if ti == 1 && dep {
						t.tdeps = []string{"gen"}
					}
					for ci := 0; ci < 2; ci++ {
						k := cmdSpec{src: fmt.Sprintf("echo K%dx%d >> $LOG; echo o%dx%d", ti, ci, ti, ci), out: fmt.Sprintf("o%dx%d\n", ti, ci)}
						if mask&(1<<(2*ti+ci)) != 0 {
							k.status = statusPool[g.rng.Intn(len(statusPool))]
							k.src += "; exit " + strconv.Itoa(k.status)
						}
						k.interp = k.src
						t.cmds = append(t.cmds, k)
					}
					tasks = append(tasks, t)
				}
				c := &caseT{proj: "proj", parses: true, loads: true, dotenv: "n", tasks: tasks}
				c.tree = g.tree(g.render(nil, tasks), tasks, treeOpts{withSpokfile: true})
				args := []string{"build"}
				if !dep {
					args = []string{"build", "gen"}
				}
				c.steps = []step{{cwd: "proj", flags: fl, args: args}, {cwd: "proj/sub", flags: fl, args: args}}
				fmt.Fprintln(w, c.encode())
			}
		}
	}
}

var actionFlags = []string{"init", "quiet", "debug", "json", "fmt", "vars", "clean", "show", "force"}

// the exhaustive part of C19: every subset of the nine boolean flags x four worlds, one invocation each
func genC19Exhaustive(w *bufio.Writer, g *gen, worlds []int) {
	for _, world := range worlds {
		for m := 0; m < 1<<len(actionFlags); m++ {
			var fl []string
			for i, f := range actionFlags {
				if m&(1<<i) != 0 {
					fl = append(fl, f)
				}
			}
			so := specOpts{maxTasks: 3, minCmds: 1, maxCmds: 2, failPct: 10, wantDefault: 1, wantClean: true, maxVars: 2}
			c := g.newCase(so, world, treeOpts{withSpokfile: true, gitignore: g.rng.Intn(3)})
			var args []string
			if g.chance(1, 2) {
				args = []string{c.tasks[0].name}
			}
			c.steps = []step{{cwd: append(cwds, "proj/sub", "other")[g.rng.Intn(len(cwds)+2)], flags: fl, args: args}}
			fmt.Fprintln(w, c.encode())
		}
	}
}

const lookAround = ".spok?* .*lock* *.lock *.tmp *~"

var taskHeadRe = regexp.MustCompile(`(?m)^task (\w+)\(([^)\n]*)\) \{`)

// genC19Outputs: tasks that DECLARE files of the project as their outputs (files that exist: the results of an earlier
// build) and whose commands fail or succeed: running a task never touches what it declares — only `--clean` removes
// outputs, and these histories have no `--clean` (the spec handed to the model does not know the outputs)
func genC19Outputs(w *bufio.Writer, g *gen, n int) {
	for i := 0; i < n; i++ {
		so := specOpts{maxTasks: 3, minCmds: 1, maxCmds: 2, failPct: 45, wantDefault: 1, maxVars: 1}
		c := g.newCase(so, wValid, treeOpts{withSpokfile: true})
		for j := range c.tree {
			if c.tree[j].path == "proj/spokfile" && c.tree[j].kind == "f" {
				outs := g.pick(`"README.md"`, `("run.sh", "src/a.txt")`, `"sub/keep.txt"`, `("README.md", "sub/deep/leaf.txt")`)
				c.tree[j].content = taskHeadRe.ReplaceAllString(c.tree[j].content, "task $1($2) -> "+outs+" {")
			}
		}
		fl := g.pickFlags([][]string{nil, nil, {"quiet"}, {"json"}, {"force"}, {"debug"}})
		args := g.argsFor(c.tasks)
		c.steps = []step{{cwd: "proj", flags: fl, args: args}, {cwd: g.pick("proj", "proj/sub"), flags: g.pickFlags([][]string{nil, {"force"}}), args: args}}
		fmt.Fprintln(w, c.encode())
	}
}

var c19FlagSets = [][]string{nil, nil, {"show"}, {"vars"}, {"fmt"}, {"init"}, {"force"}, {"quiet"}, {"json"}, {"debug"}, {"debug", "quiet"},
	{"fmt", "quiet"}, {"fmt", "json"}, {"init", "fmt"}, {"show", "vars"}, {"fmt", "show"}, {"clean"}, {"s"}, {"c"}}

func genC19Random(w *bufio.Writer, g *gen, n int) {
	for i := 0; i < n; i++ {
		world := pickWorld(g, 35)
		to := treeOpts{withSpokfile: !g.chance(1, 8), spokDir: g.chance(1, 8), gitignore: g.rng.Intn(3)}
		if g.chance(1, 8) {
			to.dotenv = g.pick("g", "g", "b")
		}
		if g.chance(1, 4) {
			// symbolic links: the spokfile, .gitignore, .env
			if g.chance(2, 3) {
				to.spokLink = g.pick("file", "file", "chain", "dangling", "dir")
			}
			if g.chance(1, 2) {
				to.gitLink = g.pick("file", "file", "dangling", "dir")
			}
			if to.dotenv == "" && g.chance(1, 3) {
				to.envLink = g.pick("lg", "lb", "dangling", "ldir")
			}
			if !to.spokDir && g.chance(1, 4) {
				to.subGit = g.pick("up", "file")
			}
		}
		so := specOpts{maxTasks: 4, minCmds: 0, maxCmds: 3, failPct: 10, wantDefault: 1, wantClean: true, maxVars: 3}
		c := g.newCase(so, world, to)
		ns := 1 + g.rng.Intn(3)
		inited := false
		for k := 0; k < ns; k++ {
			s := step{cwd: append(cwds, "other")[g.rng.Intn(len(cwds)+1)], flags: c19FlagSets[g.rng.Intn(len(c19FlagSets))]}
			if k > 0 && g.chance(1, 2) {
				// repeat the previous action from the same place (fmt twice, init twice, run twice)
				s = step{cwd: c.steps[k-1].cwd, flags: c.steps[k-1].flags, args: c.steps[k-1].args}
			} else {
				s.args = g.argsFor(c.tasks)
			}
			if inited {
				s.flags = []string{"init"} // after an --init only further --init invocations (the tree now holds the demo spokfile)
				s.args = nil
				if g.chance(1, 2) {
					s.cwd = c.steps[k-1].cwd
				}
			}
			if g.chance(1, 12) && !inited {
				s.flags = append(append([]string{}, s.flags...), g.pick("spokfile=proj/spokfile", "spokfile=proj/spokfile", "spokfile=proj/other.txt", "spokfile=nowhere/spokfile"))
				s.cwd = g.pick("other", "proj/sub")
			}
			for _, f := range s.flags {
				if f == "init" {
					inited = true
				}
			}
			if k > 0 && !inited && g.chance(1, 5) && len(c.tasks) > 0 {
				s.edits = []edit{{path: "proj/in0.txt", content: fmt.Sprintf("edited %d\n", k)}}
			}
			c.steps = append(c.steps, s)
		}
		fmt.Fprintln(w, c.encode())
	}
}

// the symbolic-link part of C19 (small-scope exhaustive over the link shapes, `rounds` random spokfiles each):
//
//	A  --init (± other flags), twice, where <cwd>/spokfile and / or <cwd>/.gitignore are symbolic links
//	B  every action through a linked spokfile (link to a file, chain of two links, dangling, to a directory, loop),
//	   valid and invalid texts, from proj and from nested directories, each twice
//	C  a link proj/sub/spokfile (up to ../spokfile, dangling, to a directory) x what proj/spokfile is
//	D  proj/.env as a link (good / bad text, dangling, to a directory) or a directory
func genC19Links(w *bufio.Writer, g *gen, rounds int) {
	so := specOpts{maxTasks: 3, minCmds: 1, maxCmds: 2, failPct: 10, wantDefault: 1, maxVars: 2}
	linkWorlds := []int{wValid, wValid, wSyntax, wDup, wBuiltin}
	for r := 0; r < rounds; r++ {
		// A
		initFlags := [][]string{{"init"}, {"init", "fmt"}, {"init", "force"}, {"init", "quiet", "debug"}, {"init", "json", "show"}}
		for _, sl := range []string{"", "file", "chain", "dangling", "nodir", "dir", "loop"} {
			for _, gl := range []string{"none", "regular", "file", "dangling", "nodir", "dir"} {
				if sl == "" && (gl == "none" || gl == "regular") {
					continue // no link at all: the other generators
				}
				for _, fl := range initFlags {
					to := treeOpts{spokLink: sl}
					switch gl {
					case "none":
					case "regular":
						to.gitignore = 1
					default:
						to.gitLink = gl
					}
					world := wValid
					if sl == "file" || sl == "chain" {
						world = linkWorlds[g.rng.Intn(len(linkWorlds))]
					}
					c := g.newCase(so, world, to)
					if (sl == "file" || sl == "chain") && g.chance(1, 2) {
						// first an ordinary use of the linked spokfile
						c.steps = append(c.steps, step{cwd: g.pick("proj", "proj/sub"), flags: [][]string{{"show"}, {"fmt"}, {"vars"}, nil}[g.rng.Intn(4)]})
					}
					c.steps = append(c.steps, step{cwd: "proj", flags: fl}, step{cwd: "proj", flags: []string{"init"}})
					fmt.Fprintln(w, c.encode())
				}
			}
		}
		// B
		actFlags := [][]string{nil, {"fmt"}, {"fmt", "quiet"}, {"show"}, {"vars"}, {"json"}, {"force"}, {"clean"}, {"fmt", "show"}, {"quiet"}, {"debug"}}
		for _, sl := range []string{"file", "chain", "dangling", "dir", "loop"} {
			worlds := []int{wValid}
			if sl == "file" || sl == "chain" {
				worlds = []int{wValid, wSyntax, wDup, wBuiltin}
			}
			for _, world := range worlds {
				for _, fl := range actFlags {
					for _, cwd := range []string{"proj", "proj/sub", "proj/sub/deep"} {
						to := treeOpts{spokLink: sl, gitignore: g.rng.Intn(3)}
						if g.chance(1, 3) {
							to.gitLink = g.pick("file", "dangling")
						}
						if g.chance(1, 5) {
							to.envLink = g.pick("lg", "lg", "dangling")
						}
						c := g.newCase(so, world, to)
						s := step{cwd: cwd, flags: fl}
						if g.chance(1, 2) {
							s.args = g.argsFor(c.tasks)
						}
						c.steps = []step{s, s}
						if len(fl) > 0 && fl[0] == "fmt" {
							c.steps = append(c.steps, step{cwd: "proj", flags: []string{g.pick("show", "vars", "fmt")}})
						}
						fmt.Fprintln(w, c.encode())
					}
				}
			}
		}
		// C (no task runs here: the cache directory would be proj/sub/.spok and the inputs are relative to proj)
		for _, sub := range []string{"up", "dangling", "dir"} {
			for _, top := range []string{"regular", "file", "none"} {
				for _, fl := range [][]string{{"init"}, {"fmt"}, {"show"}, {"vars"}, {"init", "fmt"}, {"fmt", "quiet"}} {
					for _, cwd := range []string{"proj/sub", "proj/sub/deep"} {
						to := treeOpts{withSpokfile: top == "regular", subLink: sub, gitignore: g.rng.Intn(3), subGit: g.pick("", "", "up", "file")}
						if top == "file" {
							to.spokLink = "file"
						}
						world := linkWorlds[g.rng.Intn(len(linkWorlds))]
						c := g.newCase(so, world, to)
						s := step{cwd: cwd, flags: fl}
						c.steps = []step{s, s}
						fmt.Fprintln(w, c.encode())
					}
				}
			}
		}
		// D
		for _, el := range []string{"lg", "lb", "dangling", "ldir", "dir"} {
			for _, sl := range []string{"", "file"} {
				for _, fl := range [][]string{{"fmt"}, {"show"}, nil, {"init"}, {"vars"}, {"json"}} {
					for _, cwd := range []string{"proj", "proj/sub"} {
						to := treeOpts{withSpokfile: sl == "", spokLink: sl, envLink: el, gitignore: g.rng.Intn(2)}
						c := g.newCase(so, linkWorlds[g.rng.Intn(len(linkWorlds))], to)
						s := step{cwd: cwd, flags: fl}
						if len(fl) == 0 || fl[0] == "json" {
							s.args = g.argsFor(c.tasks)
						}
						c.steps = []step{s, s}
						fmt.Fprintln(w, c.encode())
					}
				}
			}
		}
	}
}

var c20FlagSets = [][]string{nil, {"json"}, {"json"}, {"json"}, {"json"}, {"json"}, {"quiet"}, {"quiet"}, {"show"}, {"vars"}, {"force", "json"}, {"debug"}, {"quiet", "json"},
	{"show", "quiet"}, {"vars", "quiet"}, {"show", "json"}, {"j"}, {"q"}, {"s"}, {"force"}, {"debug", "json"}}

// C20: reports and listings, first and repeated runs so that skipped tasks appear in the JSON document
func genC20(w *bufio.Writer, g *gen, n int) {
	for i := 0; i < n; i++ {
		fail := []int{0, 0, 0, 0, 10, 40}[g.rng.Intn(6)]
		world := pickWorld(g, 8)
		so := specOpts{maxTasks: 5, minCmds: 0, maxCmds: 4, failPct: fail, wantDefault: 1, maxVars: 5}
		c := g.newCase(so, world, g.maybeLinked())
		ns := 1 + g.rng.Intn(3)
		var args []string
		for k := 0; k < ns; k++ {
			s := step{cwd: cwds[g.rng.Intn(len(cwds))], flags: c20FlagSets[g.rng.Intn(len(c20FlagSets))]}
			if k > 0 && g.chance(1, 3) {
				s.flags = []string{"json"} // a repeated run reported as JSON: skipped tasks show
			}
			if k == 0 || g.chance(1, 3) {
				args = g.argsFor(c.tasks)
				if g.chance(1, 3) {
					args = nil
				}
			}
			s.args = args
			if k > 0 && g.chance(1, 4) {
				s.edits = []edit{{path: fmt.Sprintf("proj/in%d.txt", g.rng.Intn(len(c.tasks))), content: fmt.Sprintf("edited %d\n", k)}}
			}
			c.steps = append(c.steps, s)
		}
		fmt.Fprintln(w, c.encode())
	}
}

func cliGen(w *bufio.Writer, a map[string]string) {
	prop := a["prop"]
	thorough := a["tier"] == "thorough"
	seed := int64(atoi(a["seed"], 1))
	g := &gen{rng: rand.New(rand.NewSource(seed*7919 + int64(len(prop))))}
	sup.CorpusLines(w, "cli")
	switch prop {
	case "C09":
		genC09Exhaustive(w, g)
		if thorough {
			genC09(w, g, 12000)
		} else {
			genC09(w, g, 260)
		}
	case "C19":
		// --init where discovery would not look: the refusal is about THIS directory's spokfile, whatever $HOME is
		for _, h := range []string{"home=proj/sub", "home=other", "home=proj", "home=."} {
			for _, fl := range [][]string{{"init"}, {"init", "force"}, {"init", "fmt"}} {
				c := g.newCase(specOpts{maxTasks: 2, minCmds: 1, maxCmds: 1, wantDefault: 1, maxVars: 1}, wValid, treeOpts{withSpokfile: true})
				c.steps = []step{{cwd: "proj", flags: append(append([]string{}, fl...), h)}, {cwd: "proj/sub", flags: append(append([]string{}, fl...), h)},
					{cwd: "proj", flags: []string{"show", h}}}
				fmt.Fprintln(w, c.encode())
			}
		}
		if thorough {
			genC19Exhaustive(w, g, []int{wValid, wValid, wSyntax, wDup, wBuiltin, wExec})
			genC19Links(w, g, 20)
			genC19Random(w, g, 9000)
			genC19Outputs(w, g, 2000)
		} else {
			genC19Exhaustive(w, g, []int{wValid, wSyntax, wDup})
			genC19Links(w, g, 1)
			genC19Random(w, g, 300)
			genC19Outputs(w, g, 120)
		}
	case "C17":
		genC17(w, g)
	case "C03":
		if thorough {
			genC03(w, g, 6000)
		} else {
			genC03(w, g, 200)
		}
	case "C14":
		if thorough {
			genC14(w, g, 6000)
		} else {
			genC14(w, g, 160)
		}
	default: // C20
		if thorough {
			genC20(w, g, 15000)
		} else {
			genC20(w, g, 350)
		}
	}
}
