// vh-env: implementation side of the env engine (C12 --clean, C13 variables in commands).
//
// Binary-level: every case is a small project that is written into a fresh sandbox
//
//	X/top.txt  X/a/above.txt  X/a/home (= $HOME)  X/a/home/sib/...  X/a/home/proj (= the project, spokfile here)
//
// and the REAL binary $VERIF_BUILD/spok is run in it with a scrubbed environment.  In the line protocol the
// sandbox root X is written /S.  Case lines are flat word streams (see encode/decode); arbitrary text is hex.
//
//	vh-env gen prop=C12|C13 tier=quick|thorough seed=N     cases, one per line
//	vh-env exec in out [j=N]                               run the implementation (sup)
//	vh-env show '<case>'                                   print the spokfile, .env, environment of a case
//	vh-env corpus                                          print the DESIGN §6 witnesses (D8, D9) as case lines
package main

import (
	"bufio"
	"bytes"
	"context"
	"crypto/sha256"
	"encoding/hex"
	"encoding/json"
	"fmt"
	"io/fs"
	"math/rand"
	"os"
	"os/exec"
	"path/filepath"
	"regexp"
	"sort"
	"strconv"
	"strings"
	"time"

	"verif/harness/sup"
)

var hx, unhx, atoi = sup.Hx, sup.Unhx, sup.Atoi

const (
	projRel = "a/home/proj"
	homeRel = "a/home"
)

// ---------------------------------------------------------------------------------------------
// case structure

type decl struct {
	name   string
	kind   string // S string, J join(...), X exec(...)
	args   []string
	stdout string // X: recorded outcome of the command
	status int
}

type globOut struct {
	pat  string
	hits []string // reference expansion, relative to the project root
}

type qitem struct {
	ref bool
	s   string
}

type piece struct {
	k string // B bare text, R bare {{.name}}, E bare $name, D "$name", Q '...'
	s string
	q []qitem
}

type command struct {
	raw    bool
	src    string // raw: the command as written
	stdout string // raw: recorded outcome
	status int
	words  [][]piece // otherwise: echo word word ...
}

type task struct {
	name  string
	files []string
	named []string
	globs []globOut
	cmds  []command
}

type stmt struct {
	isTask bool
	d      decl
	t      task
}

type entry struct {
	kind    string // d | f | l (symbolic link, content = target string)
	path    string // relative to the sandbox root
	content string
}

type tcase struct {
	nested bool
	prop   string
	judge  bool
	cwd    string // relative to the sandbox root
	amb    [][2]string
	dot    [][2]string
	tree   []entry
	stmts  []stmt
}

func (tc *tcase) encode() string {
	var w []string
	add := func(s ...string) { w = append(w, s...) }
	n := func(i int) string { return strconv.Itoa(i) }
	j := "J"
	if !tc.judge {
		j = "N"
	}
	add(tc.prop, j, "CWD", hx(tc.cwd))
	add("AMB", n(len(tc.amb)))
	for _, p := range tc.amb {
		add(hx(p[0]), hx(p[1]))
	}
	add("DOT", n(len(tc.dot)))
	for _, p := range tc.dot {
		add(hx(p[0]), hx(p[1]))
	}
	add("TREE", n(len(tc.tree)))
	for _, e := range tc.tree {
		add(e.kind, hx(e.path), hx(e.content))
	}
	add("STMTS", n(len(tc.stmts)))
	for _, s := range tc.stmts {
		if !s.isTask {
			add("V", hx(s.d.name), s.d.kind)
			switch s.d.kind {
			case "S":
				add(hx(s.d.args[0]))
			case "J":
				add(n(len(s.d.args)))
				for _, a := range s.d.args {
					add(hx(a))
				}
			case "X":
				add(n(len(s.d.args)))
				for _, a := range s.d.args {
					add(hx(a))
				}
				add(hx(s.d.stdout), n(s.d.status))
			}
			continue
		}
		t := s.t
		add("T", hx(t.name), n(len(t.files)))
		for _, f := range t.files {
			add(hx(f))
		}
		add(n(len(t.named)))
		for _, f := range t.named {
			add(hx(f))
		}
		add(n(len(t.globs)))
		for _, g := range t.globs {
			add(hx(g.pat), n(len(g.hits)))
			for _, h := range g.hits {
				add(hx(h))
			}
		}
		add(n(len(t.cmds)))
		for _, c := range t.cmds {
			if c.raw {
				add("RAWC", hx(c.src), hx(c.stdout), n(c.status))
				continue
			}
			add("W", n(len(c.words)))
			for _, wd := range c.words {
				add(n(len(wd)))
				for _, p := range wd {
					if p.k == "Q" {
						add("Q", n(len(p.q)))
						for _, q := range p.q {
							if q.ref {
								add("r", hx(q.s))
							} else {
								add("t", hx(q.s))
							}
						}
					} else {
						add(p.k, hx(p.s))
					}
				}
			}
		}
	}
	return strings.Join(w, " ")
}

type reader struct {
	w   []string
	i   int
	bad bool
}

func (r *reader) next() string {
	if r.i >= len(r.w) {
		r.bad = true
		return ""
	}
	s := r.w[r.i]
	r.i++
	return s
}
func (r *reader) num() int {
	n, err := strconv.Atoi(r.next())
	if err != nil || n < 0 || n > 100000 {
		r.bad = true
		return 0
	}
	return n
}
func (r *reader) str() string {
	s, ok := unhx(r.next())
	if !ok {
		r.bad = true
	}
	return s
}
func (r *reader) lit(s string) {
	if r.next() != s {
		r.bad = true
	}
}

func decode(line string) (*tcase, bool) {
	r := &reader{w: strings.Fields(line)}
	tc := &tcase{}
	tc.prop = r.next()
	tc.judge = r.next() == "J"
	r.lit("CWD")
	tc.cwd = r.str()
	r.lit("AMB")
	for k := r.num(); k > 0 && !r.bad; k-- {
		a := r.str()
		tc.amb = append(tc.amb, [2]string{a, r.str()})
	}
	r.lit("DOT")
	for k := r.num(); k > 0 && !r.bad; k-- {
		a := r.str()
		tc.dot = append(tc.dot, [2]string{a, r.str()})
	}
	r.lit("TREE")
	for k := r.num(); k > 0 && !r.bad; k-- {
		e := entry{kind: r.next()}
		e.path = r.str()
		e.content = r.str()
		tc.tree = append(tc.tree, e)
	}
	r.lit("STMTS")
	for k := r.num(); k > 0 && !r.bad; k-- {
		switch r.next() {
		case "V":
			d := decl{name: r.str(), kind: r.next()}
			switch d.kind {
			case "S":
				d.args = []string{r.str()}
			case "J":
				for m := r.num(); m > 0 && !r.bad; m-- {
					d.args = append(d.args, r.str())
				}
			case "X":
				for m := r.num(); m > 0 && !r.bad; m-- {
					d.args = append(d.args, r.str())
				}
				d.stdout = r.str()
				d.status = r.num()
			default:
				r.bad = true
			}
			tc.stmts = append(tc.stmts, stmt{d: d})
		case "T":
			t := task{name: r.str()}
			for m := r.num(); m > 0 && !r.bad; m-- {
				t.files = append(t.files, r.str())
			}
			for m := r.num(); m > 0 && !r.bad; m-- {
				t.named = append(t.named, r.str())
			}
			for m := r.num(); m > 0 && !r.bad; m-- {
				g := globOut{pat: r.str()}
				for q := r.num(); q > 0 && !r.bad; q-- {
					g.hits = append(g.hits, r.str())
				}
				t.globs = append(t.globs, g)
			}
			for m := r.num(); m > 0 && !r.bad; m-- {
				switch r.next() {
				case "RAWC":
					c := command{raw: true, src: r.str()}
					c.stdout = r.str()
					c.status = r.num()
					t.cmds = append(t.cmds, c)
				case "W":
					c := command{}
					for nw := r.num(); nw > 0 && !r.bad; nw-- {
						var wd []piece
						for np := r.num(); np > 0 && !r.bad; np-- {
							k := r.next()
							switch k {
							case "B", "R", "E", "D":
								wd = append(wd, piece{k: k, s: r.str()})
							case "Q":
								p := piece{k: "Q"}
								for nq := r.num(); nq > 0 && !r.bad; nq-- {
									kind := r.next()
									p.q = append(p.q, qitem{ref: kind == "r", s: r.str()})
									if kind != "r" && kind != "t" {
										r.bad = true
									}
								}
								wd = append(wd, p)
							default:
								r.bad = true
							}
						}
						c.words = append(c.words, wd)
					}
					t.cmds = append(t.cmds, c)
				default:
					r.bad = true
				}
			}
			tc.stmts = append(tc.stmts, stmt{isTask: true, t: t})
		default:
			r.bad = true
		}
	}
	if r.bad || r.i != len(r.w) {
		return nil, false
	}
	return tc, true
}

// ---------------------------------------------------------------------------------------------
// rendering a case as project files

func (c *command) source() string {
	if c.raw {
		return c.src
	}
	var b strings.Builder
	b.WriteString("echo")
	for _, wd := range c.words {
		b.WriteString(" ")
		for _, p := range wd {
			switch p.k {
			case "B":
				b.WriteString(p.s)
			case "R":
				b.WriteString("{{." + p.s + "}}")
			case "E":
				b.WriteString("$" + p.s)
			case "D":
				b.WriteString("\"$" + p.s + "\"")
			case "Q":
				b.WriteString("'")
				for _, q := range p.q {
					if q.ref {
						b.WriteString("{{." + q.s + "}}")
					} else {
						b.WriteString(q.s)
					}
				}
				b.WriteString("'")
			}
		}
	}
	return b.String()
}

func quoteList(xs []string) string {
	var q []string
	for _, x := range xs {
		q = append(q, "\""+x+"\"")
	}
	return strings.Join(q, ", ")
}

// spokfile text; root replaces the /S placeholder in values
func (tc *tcase) spokfile(root string) string {
	sub := func(s string) string { return strings.ReplaceAll(s, "/S/", root+"/") }
	var b strings.Builder
	for _, s := range tc.stmts {
		if !s.isTask {
			switch s.d.kind {
			case "S":
				fmt.Fprintf(&b, "%s := \"%s\"\n", s.d.name, sub(s.d.args[0]))
			case "J":
				var as []string
				for _, a := range s.d.args {
					as = append(as, sub(a))
				}
				fmt.Fprintf(&b, "%s := join(%s)\n", s.d.name, quoteList(as))
			case "X":
				var as []string
				for _, a := range s.d.args {
					as = append(as, sub(a))
				}
				fmt.Fprintf(&b, "%s := exec(%s)\n", s.d.name, quoteList(as))
			}
			continue
		}
		t := s.t
		deps := ""
		if t.name == "clean" && tc.has(cleanVia) {
			// the user's clean task is an AGGREGATE: an empty body, its work done by a task it depends on (the spec handed to
			// the model shows the commands on `clean` itself: for what `--clean` does the two are the same)
			b.WriteString("\ntask cleanparts() {\n")
			for _, c := range t.cmds {
				b.WriteString("    " + c.source() + "\n")
			}
			b.WriteString("}\n")
			t.cmds = nil
			deps = "cleanparts"
		}
		var outs []string
		for _, f := range t.files {
			outs = append(outs, "\""+f+"\"")
		}
		outs = append(outs, t.named...)
		for _, g := range t.globs {
			outs = append(outs, "\""+g.pat+"\"")
		}
		fmt.Fprintf(&b, "\ntask %s(%s)", t.name, deps)
		if len(outs) == 1 {
			fmt.Fprintf(&b, " -> %s", outs[0])
		} else if len(outs) > 1 {
			fmt.Fprintf(&b, " -> (%s)", strings.Join(outs, ", "))
		}
		b.WriteString(" {\n")
		for _, c := range t.cmds {
			b.WriteString("    " + c.source() + "\n")
		}
		b.WriteString("}\n\n")
	}
	return b.String()
}

func (tc *tcase) dotenv() string {
	var b strings.Builder
	for _, p := range tc.dot {
		fmt.Fprintf(&b, "%s=%s\n", p[0], p[1])
	}
	return b.String()
}

// ---------------------------------------------------------------------------------------------
// running the implementation

var ansiRe = regexp.MustCompile("\x1b\\[[0-9;]*[A-Za-z]")

func stripANSI(s string) string { return ansiRe.ReplaceAllString(s, "") }

type runResult struct {
	stdout, stderr string
	code           int
	timedOut       bool
}

func runSpok(root, cwd string, env []string, args ...string) runResult {
	ctx, cancel := context.WithTimeout(context.Background(), 30*time.Second)
	defer cancel()
	bin := filepath.Join(os.Getenv("VERIF_BUILD"), "spok")
	cmd := exec.CommandContext(ctx, bin, args...)
	cmd.Dir = cwd
	cmd.Env = env
	if d := os.Getenv("GOCOVERDIR"); d != "" {
		cmd.Env = append(cmd.Env, "GOCOVERDIR="+d) // a -cover build of the binary (coverage report of the evidence)
	}
	var so, se bytes.Buffer
	cmd.Stdout = &so
	cmd.Stderr = &se
	err := cmd.Run()
	res := runResult{stdout: stripANSI(so.String()), stderr: stripANSI(se.String())}
	if ctx.Err() != nil {
		res.timedOut = true
	}
	if err != nil {
		res.code = 1
		if ee, ok := err.(*exec.ExitError); ok && ee.ExitCode() > 0 {
			res.code = ee.ExitCode()
		}
	}
	return res
}

func hashOf(b []byte) string {
	h := sha256.Sum256(b)
	return hex.EncodeToString(h[:4])
}

// snapshot of the whole sandbox: sorted (kind, path relative to root, content hash); the project's
// cache directory is reported separately (whether it exists) because a task run writes a cache file there
func snapshot(root string) (string, string) {
	type ent struct{ kind, path, h string }
	var es []ent
	cache := "absent"
	cacheDir := filepath.Join(root, projRel, ".spok")
	_ = filepath.WalkDir(root, func(p string, d fs.DirEntry, err error) error {
		if err != nil {
			es = append(es, ent{"e", p, "-"})
			return nil
		}
		if p == root {
			return nil
		}
		if p == cacheDir {
			cache = "present"
			if d.IsDir() {
				return filepath.SkipDir
			}
			return nil
		}
		rel, _ := filepath.Rel(root, p)
		switch {
		case d.IsDir():
			es = append(es, ent{"d", rel, "-"})
			// the permission bits of a directory: a pseudo entry below it (it goes when the directory goes, and must
			// not change otherwise: "modifies nothing else")
			if info, ierr := d.Info(); ierr == nil {
				es = append(es, ent{"m", rel + "/\x01mode", strconv.FormatUint(uint64(info.Mode().Perm()), 8)})
			}
		case d.Type().IsRegular():
			data, rerr := os.ReadFile(p)
			if rerr != nil {
				es = append(es, ent{"e", rel, "-"})
			} else {
				h := hashOf(data)
				if info, ierr := d.Info(); ierr == nil {
					h += "m" + strconv.FormatUint(uint64(info.Mode().Perm()), 8) // content and permission bits
				}
				es = append(es, ent{"f", rel, h})
			}
		case d.Type()&fs.ModeSymlink != 0:
			// a symbolic link is an entry of its own (a file whose content is the target string); what it points to
			// is in the snapshot under its own path: removing a link must never touch its target
			t, _ := os.Readlink(p)
			es = append(es, ent{"f", rel, hashOf([]byte("-> " + t))})
		default:
			es = append(es, ent{"o", rel, "-"})
		}
		return nil
	})
	sort.Slice(es, func(i, j int) bool { return es[i].path < es[j].path })
	w := []string{strconv.Itoa(len(es))}
	for _, e := range es {
		w = append(w, e.kind, hx(e.path), e.h)
	}
	return strings.Join(w, " "), cache
}

func (tc *tcase) environ(root string) []string {
	var env []string
	for _, p := range tc.amb {
		env = append(env, p[0]+"="+strings.ReplaceAll(p[1], "/S/", root+"/"))
	}
	return env
}

// lay the case out under a fresh root; returns root ("" on failure)
func (tc *tcase) materialise() string {
	// C12: the sandbox lies below a directory whose name has glob meta-characters — what is removed is decided by the
	// patterns relative to the project, never by the path that leads to it
	pat := "vhenv"
	if tc.prop == "C12" {
		pat = "vh[e]nv{a,b}*"
	}
	tmp, err := os.MkdirTemp("", pat)
	if err != nil {
		return ""
	}
	root, err := filepath.EvalSymlinks(tmp)
	if err != nil {
		root = tmp
	}
	must := func(e error) {
		if e != nil {
			err = e
		}
	}
	must(os.MkdirAll(filepath.Join(root, projRel), 0o755))
	for _, e := range tc.tree {
		p := filepath.Join(root, e.path)
		if !strings.HasPrefix(p, root+"/") {
			continue
		}
		switch e.kind {
		case "d":
			must(os.MkdirAll(p, 0o755))
		case "l":
		default:
			must(os.MkdirAll(filepath.Dir(p), 0o755))
			must(os.WriteFile(p, []byte(e.content), 0o644))
		}
	}
	for _, e := range tc.tree {
		p := filepath.Join(root, e.path)
		if e.kind == "l" && strings.HasPrefix(p, root+"/") {
			must(os.MkdirAll(filepath.Dir(p), 0o755))
			must(os.Symlink(e.content, p))
		}
	}
	must(os.MkdirAll(filepath.Join(root, tc.cwd), 0o755))
	must(os.WriteFile(filepath.Join(root, projRel, "spokfile"), []byte(tc.spokfile(root)), 0o644))
	if len(tc.dot) > 0 {
		must(os.WriteFile(filepath.Join(root, projRel, ".env"), []byte(tc.dotenv()), 0o644))
	}
	if err != nil {
		os.RemoveAll(root)
		return ""
	}
	return root
}

const cleanMarker = "CLEANTASKRAN"

// viaLink: an ambient variable of this name tells the harness to start spok with a working directory (and $PWD) that
// leads into the sandbox through a symbolic link lying outside it
const viaLink = "VHVIALINK"

// cleanVia: with an ambient variable of this name the spokfile is written with the user's clean task as an aggregate
const cleanVia = "VHCLEANVIA"

func (tc *tcase) has(marker string) bool {
	for _, p := range tc.amb {
		if p[0] == marker {
			return true
		}
	}
	return false
}

func workC12(tc *tcase) string {
	root := tc.materialise()
	if root == "" {
		return "SANDBOX-ERROR"
	}
	defer os.RemoveAll(root)
	before, cache0 := snapshot(root)
	cwd, env := filepath.Join(root, tc.cwd), tc.environ(root)
	for _, p := range tc.amb {
		if p[0] == viaLink {
			link := root + "-via"
			if os.Symlink(root, link) == nil {
				defer os.Remove(link)
				cwd = filepath.Join(link, tc.cwd)
				env = append(env, "PWD="+cwd)
			}
		}
	}
	res := runSpok(root, cwd, env, "--clean")
	after, cache1 := snapshot(root)
	errc := "none"
	switch {
	case res.timedOut:
		errc = "hang"
	case res.code != 0 && strings.Contains(res.stderr+res.stdout, "Refusing to remove"):
		errc = "refused"
	case res.code != 0:
		errc = "err"
	}
	ran := "0"
	if strings.Contains(res.stdout, cleanMarker) {
		ran = "1"
	}
	return fmt.Sprintf("ERR %s ; RAN %s ; CACHE0 %s ; CACHE %s ; BEFORE %s ; AFTER %s", errc, ran, cache0, cache1, before, after)
}

var varLine = regexp.MustCompile(`^([A-Za-z_][A-Za-z_0-9]*)\t+(.*)$`)

type jsonResult struct {
	Task    string `json:"task"`
	Results []struct {
		Cmd    string `json:"cmd"`
		Stdout string `json:"stdout"`
		Stderr string `json:"stderr"`
		Status int    `json:"status"`
	} `json:"results"`
	Skipped bool `json:"skipped"`
}

func workC13(tc *tcase) string {
	root := tc.materialise()
	if root == "" {
		return "SANDBOX-ERROR"
	}
	defer os.RemoveAll(root)
	unroot := func(s string) string { return strings.ReplaceAll(s, root, "/S") }
	env := tc.environ(root)
	cwd := filepath.Join(root, tc.cwd)

	counter := filepath.Join(root, homeRel, "cnt")
	_ = os.Remove(counter) // the call counter of counterCmd starts afresh in every invocation
	rv := runSpok(root, cwd, env, "--vars")
	load := "ok"
	vars := "0"
	if rv.timedOut {
		load = "hang"
	} else if rv.code != 0 {
		load = "err"
	} else {
		var w []string
		lines := strings.Split(rv.stdout, "\n")
		started := false
		type row struct {
			name, val string
			bad       bool
		}
		var rows []row
		for _, ln := range lines {
			if !started {
				if strings.HasPrefix(ln, "Name\tValue") {
					started = true
				}
				continue
			}
			if ln == "" {
				continue
			}
			m := varLine.FindStringSubmatch(ln)
			switch {
			case m != nil:
				rows = append(rows, row{name: m[1], val: m[2]})
			case len(rows) > 0 && !rows[len(rows)-1].bad:
				// a value that has a line break in it (an exec whose output has several lines) goes on in the next line
				rows[len(rows)-1].val += "\n" + ln
			default:
				rows = append(rows, row{val: ln, bad: true})
			}
		}
		cnt := len(rows)
		for _, r := range rows {
			if r.bad {
				w = append(w, "BADLINE", hx(r.val))
			} else {
				w = append(w, hx(r.name), hx(unroot(r.val)))
			}
		}
		vars = strings.Join(append([]string{strconv.Itoa(cnt)}, w...), " ")
	}

	var names []string
	for _, s := range tc.stmts {
		if s.isTask {
			names = append(names, s.t.name)
		}
	}
	run := "none"
	cmds := "0"
	if load == "ok" && len(names) > 0 {
		_ = os.Remove(counter)
		rj := runSpok(root, cwd, env, append([]string{"--json"}, names...)...)
		switch {
		case rj.timedOut:
			run = "hang"
		case rj.code != 0:
			run = "err"
		default:
			var results []jsonResult
			if err := json.Unmarshal([]byte(strings.TrimSpace(rj.stdout)), &results); err != nil {
				run = "badjson"
				break
			}
			run = "ok"
			by := map[string]jsonResult{}
			for _, r := range results {
				by[r.Task] = r
			}
			var w []string
			cnt := 0
			for _, n := range names {
				r, ok := by[n]
				if !ok {
					w = append(w, hx(n), "missing", "-", "-", "0")
					cnt++
					continue
				}
				for i, c := range r.Results {
					w = append(w, hx(n), strconv.Itoa(i), hx(unroot(c.Cmd)), hx(unroot(c.Stdout)), strconv.Itoa(c.Status))
					cnt++
				}
			}
			cmds = strings.Join(append([]string{strconv.Itoa(cnt)}, w...), " ")
		}
	}
	return fmt.Sprintf("LOAD %s ; VARS %s ; RUN %s ; CMDS %s", load, vars, run, cmds)
}

func work(c string) string {
	tc, ok := decode(c)
	if !ok {
		return "BAD-CASE"
	}
	if os.Getenv("VERIF_BUILD") == "" {
		return "NO-VERIF_BUILD"
	}
	switch tc.prop {
	case "C12":
		return workC12(tc)
	case "C13":
		return workC13(tc)
	}
	return "BAD-CASE"
}

// ---------------------------------------------------------------------------------------------
// reference glob matcher (independent of spok's expandGlob / doublestar's walk): segments split at '/',
// `**` as a whole segment matches any number of segments, `*` inside a segment any run of characters

func segMatch(pat, s string) bool {
	if pat == "" {
		return s == ""
	}
	if pat[0] == '*' {
		for i := 0; i <= len(s); i++ {
			if segMatch(pat[1:], s[i:]) {
				return true
			}
		}
		return false
	}
	return s != "" && s[0] == pat[0] && segMatch(pat[1:], s[1:])
}

func segsMatch(ps, ss []string) bool {
	if len(ps) == 0 {
		return len(ss) == 0
	}
	if ps[0] == "**" {
		for i := 0; i <= len(ss); i++ {
			if segsMatch(ps[1:], ss[i:]) {
				return true
			}
		}
		return false
	}
	return len(ss) > 0 && segMatch(ps[0], ss[0]) && segsMatch(ps[1:], ss[1:])
}

// refExpand: every entry below the project (files and directories) whose relative path does not start
// with '.' and matches, in sorted order
func refExpand(tree []entry, pat string) []string {
	seen := map[string]bool{}
	for _, e := range tree {
		if !strings.HasPrefix(e.path, projRel+"/") {
			continue
		}
		rel := strings.TrimPrefix(e.path, projRel+"/")
		// every ancestor directory inside the project is an entry as well
		parts := strings.Split(rel, "/")
		for i := 1; i <= len(parts); i++ {
			seen[strings.Join(parts[:i], "/")] = true
		}
	}
	seen["spokfile"] = true
	var out []string
	for rel := range seen {
		if strings.HasPrefix(rel, ".") {
			continue
		}
		if segsMatch(strings.Split(pat, "/"), strings.Split(rel, "/")) {
			out = append(out, rel)
		}
	}
	sort.Strings(out)
	return out
}

// ---------------------------------------------------------------------------------------------
// generation

type gen struct{ rng *rand.Rand }

func (g *gen) pick(xs []string) string { return xs[g.rng.Intn(len(xs))] }
func (g *gen) chance(p float64) bool   { return g.rng.Float64() < p }

var treePool = []entry{
	{"f", projRel + "/out.txt", "out"},
	{"f", projRel + "/top.o", "top"},
	{"f", projRel + "/.hidden.o", "hid"},
	{"f", projRel + "/sub/a.o", "a"},
	{"f", projRel + "/sub/b.c", "b"},
	{"f", projRel + "/sub/.hid.o", "h"},
	{"f", projRel + "/sub/deep/c.o", "c"},
	{"f", projRel + "/sub/deep/d.txt", "d"},
	{"f", projRel + "/docs/i.html", "<html>"},
	{"f", projRel + "/docs/notes.md", "n"},
	{"f", projRel + "/site/[id].html", "lit"},
	{"f", projRel + "/site/i.html", "i"},
	{"f", projRel + "/site/d.html", "d"},
	{"f", projRel + "/a{b,c}.o", "braces"},
	{"f", projRel + "/ab.o", "ab"},
	{"f", projRel + "/q?.txt", "q"},
	{"f", projRel + "/qx.txt", "qx"},
	{"d", projRel + "/build", ""},
	{"d", projRel + "/sub", ""},
	{"f", projRel + "/.spok/cache.json", "{}"},
	{"f", projRel + "/.spok/stale", "x"},
	{"f", homeRel + "/sib/s.txt", "s"},
	{"f", homeRel + "/sib/t.o", "t"},
	{"f", homeRel + "/hfile.txt", "h"},
	{"f", "a/above.txt", "above"},
	{"f", "top.txt", "top"},
}

var fullTree = treePool

// symbolic links that may be declared as outputs
var linkPool = []struct {
	name, target string
	dir          bool
}{
	{"latest", "../sib", true}, {"cur.o", "top.o", false}, {"ext.o", "../sib/s.txt", false}, {"dangling", "nowhere", false},
	{"sublnk", "sub/deep", true}, {"up", "..", true}, {"self", ".", true}, {"abs.o", "/etc/hostname", false},
}

// outputs whose path leads THROUGH a directory link of the pool: what is removed (or refused) is where the path really
// ends — `up/proj` is the project itself
var throughPool = map[string][]string{
	"up":     {"up/proj", "up/proj/top.o", "up/sib", "up/sib/s.txt", "up/proj/spokfile", "up/proj/up/proj", "up/proj/sub", "up/nothing"},
	"self":   {"self/top.o", "self/spokfile", "self/self/sub", "self/self", "self/docs"},
	"sublnk": {"sublnk/leaf.txt", "sublnk/nothing"},
	"latest": {"latest/s.txt", "latest/keep.txt", "latest/../top.o"},
}

func (g *gen) tree() []entry {
	var t []entry
	p := 0.35 + 0.6*g.rng.Float64()
	for _, e := range treePool {
		if g.chance(p) {
			e.content = e.content + strconv.Itoa(g.rng.Intn(3))
			if strings.HasSuffix(e.path, "cache.json") {
				e.content = "{}" // a valid (empty) cache; a corrupt one is C10's business
			}
			if e.kind == "d" {
				e.content = ""
			}
			t = append(t, e)
		}
	}
	// witnesses of "above the project" are always there
	t = append(t, entry{"f", "a/keep.txt", "k"}, entry{"f", homeRel + "/sib/keep.txt", "k"})
	return t
}

// literal outputs (joined with the project root by spok)
var litPool = []string{
	"", ".", "..", "sub/..", "../..", "./", "out.txt", "top.o", "sub", "sub/", "sub/a.o", "sub//a.o", "./out.txt",
	"sub/deep", "sub/deep/c.o", "missing", "sub/missing/x", "missing/../out.txt", "../sib/s.txt", "../sib", "/sub/a.o", "/out.txt",
	"docs", "docs/i.html", "build", "spokfile", ".spok", ".spok/cache.json", ".hidden.o", "sub/../sub/b.c", "sub/deep/../..",
	"../proj", "../proj/out.txt", "../../home/proj/top.o", "/",
	// no `*`: literal paths, whatever other characters they hold
	"site/[id].html", "a{b,c}.o", "q?.txt", "site/[!x].html", "[a-z]b.o",
}

// outputs below a regular file: os.Stat / os.RemoveAll answer ENOTDIR; such a path is simply absent (repair 85950c0)
var notdirPool = []string{"out.txt/x", "sub/a.o/y/z", "spokfile/x"}

// values of variables used as named outputs (resolved against the working directory by spok)
var valPool = []string{
	"", ".", "..", "sub/..", "out.txt", "top.o", "sub", "sub/a.o", "sub/deep", "missing", "docs/", "build", "../sib/t.o", "../sib",
	"/S/" + projRel + "/out.txt", "/S/" + projRel + "/sub", "/S/" + projRel, "/S/" + homeRel + "/sib/s.txt", "/S/" + homeRel, "/S/a",
	"/S/" + projRel + "/spokfile", "/S/" + projRel + "/sub/../docs", "/S/" + projRel + "//top.o", "/S/" + projRel + "/.spok",
	"deep/c.o", "a.o", "../out.txt", "../..", "spokfile",
}

var joinPool = [][]string{
	{"sub", "..", "out.txt"}, {}, {""}, {"", ""}, {"sub", "deep"}, {"..", "sib"}, {".."}, {"."}, {"sub", "..", ".."}, {"a", "..", "b"},
	{"/S/" + projRel, "top.o"}, {"/S/" + projRel, ".."}, {"docs", "", "i.html"}, {"sub/", "/a.o"}, {"", "out.txt"}, {"build"},
	{"/S/" + homeRel + "/sib", "..", "proj", "docs"},
}

var globPool = []string{"*.o", "sub/*", "sub/*.o", "**/*.o", "*.zz", "nomatch/*", "*", "sub/**", "**", "docs/*.html", "*/*.o", "sub/deep/*", "**/c.o", "o*.txt", "*.txt", "sub/*/d.txt", "b*",
	// patterns that begin with a dot: a hidden directory that is not there (its un-dotted twin is), hidden entries
	".sub/*", ".docs/*.html", ".*", ".*/*", ".sub/**", ".spok/*"}

var varNames = []string{"OUT", "DIR", "TARGET", "BIN", "EMPTY", "DOCS", "P", "Q"}
var taskNames = []string{"build", "docs", "test", "lint", "pkg"}

func echoCmd(text string) command { return command{words: [][]piece{{{k: "B", s: text}}}} }

func (g *gen) c12Random() *tcase {
	tc := &tcase{prop: "C12", judge: true, cwd: projRel}
	tc.tree = g.tree()
	tc.amb = [][2]string{{"HOME", "/S/" + homeRel}, {"PATH", "/usr/bin:/bin"}}
	corner := g.rng.Float64()
	if corner < 0.10 {
		// from a nested directory: a relative variable output is resolved against the cwd
		tc.cwd = projRel + "/" + g.pick([]string{"sub", "sub/deep", "docs"})
		tc.tree = append(tc.tree, entry{"d", tc.cwd, ""})
		tc.nested = true // judged only if no named output turns out to have a relative value (decided below)
		if g.chance(0.5) {
			// the working directory has a `.spok` of its own: the cache that --clean removes is the spokfile's
			tc.tree = append(tc.tree, entry{"f", tc.cwd + "/.spok/cache.json", "{}"})
		}
	}
	// variables
	nv := g.rng.Intn(4)
	var defined []string
	names := append([]string{}, varNames...)
	g.rng.Shuffle(len(names), func(i, j int) { names[i], names[j] = names[j], names[i] })
	for i := 0; i < nv; i++ {
		d := decl{name: names[i]}
		if g.chance(0.65) {
			d.kind = "S"
			d.args = []string{g.pick(valPool)}
		} else {
			d.kind = "J"
			d.args = append([]string{}, joinPool[g.rng.Intn(len(joinPool))]...)
		}
		defined = append(defined, d.name)
		tc.stmts = append(tc.stmts, stmt{d: d})
	}
	// how dangerous this case is allowed to be
	safe := g.chance(0.55)
	isSafeLit := func(s string) bool {
		switch s {
		case "", ".", "..", "sub/..", "../..", "./", "spokfile", "sub/deep/../..", "../proj", "/":
			return false
		}
		return true
	}
	nt := 1 + g.rng.Intn(3)
	tn := append([]string{}, taskNames...)
	g.rng.Shuffle(len(tn), func(i, j int) { tn[i], tn[j] = tn[j], tn[i] })
	small := func() int {
		r := g.rng.Intn(10)
		switch {
		case r < 4:
			return 0
		case r < 7:
			return 1
		case r < 9:
			return 2
		}
		return 3 + g.rng.Intn(3)
	}
	for i := 0; i < nt; i++ {
		t := task{name: tn[i], cmds: []command{echoCmd("hi")}}
		for k := small(); k > 0; k-- {
			l := g.pick(litPool)
			if safe && !isSafeLit(l) {
				continue
			}
			t.files = append(t.files, l)
		}
		if len(defined) > 0 {
			for k := small(); k > 0; k-- {
				t.named = append(t.named, g.pick(defined))
			}
		}
		for k := small(); k > 0; k-- {
			p := g.pick(globPool)
			if safe && (p == "*" || p == "**") {
				continue
			}
			t.globs = append(t.globs, globOut{pat: p, hits: refExpand(tc.tree, p)})
		}
		tc.stmts = append(tc.stmts, stmt{isTask: true, t: t})
	}
	if safe {
		// drop variables whose value designates the project, unless unused
		for i := range tc.stmts {
			s := &tc.stmts[i]
			if s.isTask {
				continue
			}
			if s.d.kind == "S" {
				switch s.d.args[0] {
				case "", ".", "..", "sub/..", "/S/" + projRel, "/S/" + homeRel, "/S/a", "/S/" + projRel + "/spokfile", "../..", "spokfile":
					s.d.args[0] = g.pick([]string{"out.txt", "sub", "missing", "/S/" + homeRel + "/sib/s.txt", "docs/"})
				}
			} else {
				j := strings.Join(s.d.args, "|")
				switch j {
				case "", "|", "..", ".", "sub|..|..", "/S/" + projRel + "|..", "sub|..":
					s.d.args = []string{"sub", "deep"}
				}
			}
		}
	}
	// outputs that are symbolic links (to a file, to a directory, dangling; inside and outside the project): --clean
	// removes the link, never what it points to.  Directory links only when no output glob could walk through them.
	if g.chance(0.3) {
		hasGlob := false
		for _, s := range tc.stmts {
			if s.isTask && len(s.t.globs) > 0 {
				hasGlob = true
			}
		}
		ti := g.taskIndex(tc)
		for k := 1 + g.rng.Intn(2); k > 0; k-- {
			l := linkPool[g.rng.Intn(len(linkPool))]
			if l.dir && hasGlob {
				continue
			}
			dup := false
			for _, e := range tc.tree {
				if e.path == projRel+"/"+l.name {
					dup = true
				}
			}
			if dup {
				continue
			}
			tc.tree = append(tc.tree, entry{"l", projRel + "/" + l.name, l.target})
			if th := throughPool[l.name]; len(th) > 0 && g.chance(0.5) {
				o := th[g.rng.Intn(len(th))]
				if g.chance(0.6) {
					tc.stmts[ti].t.files = append(tc.stmts[ti].t.files, o)
				} else {
					nm := "THR" + string(rune(64+k))
					tc.stmts = append([]stmt{{d: decl{name: nm, kind: "S", args: []string{"/S/" + projRel + "/" + o}}}}, tc.stmts...)
					ti++
					tc.stmts[ti].t.named = append(tc.stmts[ti].t.named, nm)
				}
			} else if g.chance(0.7) {
				tc.stmts[ti].t.files = append(tc.stmts[ti].t.files, l.name)
			} else {
				// as a named output, by absolute path
				nm := "LNK" + string(rune(64+k))
				tc.stmts = append([]stmt{{d: decl{name: nm, kind: "S", args: []string{"/S/" + projRel + "/" + l.name}}}}, tc.stmts...)
				ti++
				tc.stmts[ti].t.named = append(tc.stmts[ti].t.named, nm)
			}
		}
	}
	// the spokfile itself is a symbolic link into another directory (a shared spokfile): the project is where the LINK is
	if g.chance(0.12) {
		tc.tree = append(tc.tree, entry{"d", homeRel + "/common", ""}, entry{"f", homeRel + "/common/top.o", "ct"},
			entry{"f", homeRel + "/common/sub/a.o", "ca"}, entry{"f", homeRel + "/common/docs/i.html", "ci"},
			entry{"l", projRel + "/spokfile", "../common/spokfile"})
	}
	if g.chance(0.2) {
		t := task{name: "clean", cmds: []command{echoCmd(cleanMarker)}}
		if g.chance(0.3) {
			// a clean task that FAILS: it is still run instead of spok's own clean, which then removes nothing
			t.cmds = []command{{raw: true, src: "echo " + cleanMarker + "; exit 3", stdout: cleanMarker + "\n", status: 3}}
		}
		if g.chance(0.5) {
			t.files = []string{g.pick(litPool)}
		}
		if g.chance(0.3) {
			tc.amb = append(tc.amb, [2]string{cleanVia, "1"})
		}
		pos := g.rng.Intn(len(tc.stmts) + 1)
		// a task may only reference... outputs are looked up at clean time, position is free
		tc.stmts = append(tc.stmts[:pos], append([]stmt{{isTask: true, t: t}}, tc.stmts[pos:]...)...)
	}
	if tc.nested {
		// a relative variable value used as a named output is resolved against the working directory: which path "the
		// designated path" is, is then ambiguous in the property — compared with the model only
		rel := map[string]bool{}
		for _, s := range tc.stmts {
			if !s.isTask && (s.d.kind != "S" || !strings.HasPrefix(s.d.args[0], "/")) {
				rel[s.d.name] = true
			}
		}
		for _, s := range tc.stmts {
			if s.isTask {
				for _, n := range s.t.named {
					if rel[n] {
						tc.judge = false
					}
				}
			}
		}
	}
	// unjudged corners
	r := corner
	switch {
	case r < 0.10:
	case r < 0.14:
		ti := g.taskIndex(tc)
		tc.stmts[ti].t.named = append(tc.stmts[ti].t.named, "UNDEFINED")
		tc.judge = false
	case r < 0.19:
		ti := g.taskIndex(tc)
		tc.stmts[ti].t.files = append(tc.stmts[ti].t.files, g.pick(notdirPool))
	}
	return tc
}

func (tc *tcase) hasGlob() bool {
	for _, s := range tc.stmts {
		if s.isTask && len(s.t.globs) > 0 {
			return true
		}
	}
	return false
}

func (g *gen) taskIndex(tc *tcase) int {
	var idx []int
	for i, s := range tc.stmts {
		if s.isTask && s.t.name != "clean" {
			idx = append(idx, i)
		}
	}
	return idx[g.rng.Intn(len(idx))]
}

// the small-scope part: every pool element on its own against the full tree
func c12Singles() []*tcase {
	var out []*tcase
	base := func() *tcase {
		return &tcase{prop: "C12", judge: true, cwd: projRel, tree: append([]entry{}, fullTree...),
			amb: [][2]string{{"HOME", "/S/" + homeRel}, {"PATH", "/usr/bin:/bin"}}}
	}
	mk := func(t task, ds ...decl) *tcase {
		tc := base()
		for _, d := range ds {
			tc.stmts = append(tc.stmts, stmt{d: d})
		}
		t.name = "build"
		t.cmds = []command{echoCmd("hi")}
		tc.stmts = append(tc.stmts, stmt{isTask: true, t: t})
		return tc
	}
	out = append(out, mk(task{}))
	for _, l := range litPool {
		out = append(out, mk(task{files: []string{l}}))
	}
	for _, v := range valPool {
		out = append(out, mk(task{named: []string{"OUT"}}, decl{name: "OUT", kind: "S", args: []string{v}}))
	}
	for _, j := range joinPool {
		out = append(out, mk(task{named: []string{"OUT"}}, decl{name: "OUT", kind: "J", args: append([]string{}, j...)}))
	}
	for _, p := range globPool {
		out = append(out, mk(task{globs: []globOut{{pat: p, hits: refExpand(fullTree, p)}}}))
	}
	// the same with a user-defined clean task
	for _, l := range []string{"", "..", "out.txt", "sub"} {
		tc := mk(task{files: []string{l}})
		tc.stmts = append(tc.stmts, stmt{isTask: true, t: task{name: "clean", cmds: []command{echoCmd(cleanMarker)}}})
		out = append(out, tc)
		// … and with that clean task an aggregate with an empty body
		tcv := mk(task{files: []string{l}})
		tcv.stmts = append(tcv.stmts, stmt{isTask: true, t: task{name: "clean", cmds: []command{echoCmd(cleanMarker)}}})
		tcv.amb = append(tcv.amb, [2]string{cleanVia, "1"})
		out = append(out, tcv)
	}
	for _, l := range notdirPool {
		tc := mk(task{files: []string{l, "top.o"}})
		out = append(out, tc)
	}
	for _, l := range []string{"out.txt", "sub", "*.o"} {
		tc := mk(task{files: []string{l}})
		if strings.Contains(l, "*") {
			tc = mk(task{globs: []globOut{{pat: l, hits: refExpand(fullTree, l)}}})
		}
		tc.stmts = append(tc.stmts, stmt{isTask: true, t: task{name: "clean",
			cmds: []command{{raw: true, src: "echo " + cleanMarker + "; exit 3", stdout: cleanMarker + "\n", status: 3}}}})
		out = append(out, tc)
	}
	// every link of the pool as the only extra output, literal and named
	for _, l := range linkPool {
		tc := mk(task{files: []string{l.name, "top.o"}})
		tc.tree = append(tc.tree, entry{"l", projRel + "/" + l.name, l.target})
		out = append(out, tc)
		tc2 := mk(task{named: []string{"OUT"}}, decl{name: "OUT", kind: "S", args: []string{"/S/" + projRel + "/" + l.name}})
		tc2.tree = append(tc2.tree, entry{"l", projRel + "/" + l.name, l.target})
		out = append(out, tc2)
		// … and every path through it
		for _, o := range throughPool[l.name] {
			tc3 := mk(task{files: []string{o, "top.o"}})
			tc3.tree = append(tc3.tree, entry{"l", projRel + "/" + l.name, l.target})
			out = append(out, tc3)
			tc4 := mk(task{named: []string{"OUT"}}, decl{name: "OUT", kind: "S", args: []string{"/S/" + projRel + "/" + o}})
			tc4.tree = append(tc4.tree, entry{"l", projRel + "/" + l.name, l.target})
			out = append(out, tc4)
		}
	}
	return out
}

// ---- C13

var envNames = []string{"FOO", "BAR", "BAZ", "HOME", "PATH", "USER", "LANG", "X", "Y", "my_var", "_U", "Qux", "TERM", "EDITOR", "EMPTY"}

const bareAlphabet = "abcdefghijklmnopqrstuvwxyzABCXYZ0123456789_=:,./+@%-"
const valueAlphabet = "abcdefgxyzABCXYZ0123456789          $$${{{}}}.,:;/\\-_=+@%^[]~!#*?()<>|&"
const quotedAlphabet = "abcdefgxyzABCXYZ0123456789      $$${.,:;/\\-_=+@%^[]~!*?()<>|&"

func (g *gen) text(alpha string, min, max int) string {
	n := min + g.rng.Intn(max-min+1)
	b := make([]byte, n)
	for i := range b {
		b[i] = alpha[g.rng.Intn(len(alpha))]
	}
	return string(b)
}

func shellSafe(s string) bool {
	for i := 0; i < len(s); i++ {
		if !strings.ContainsRune(bareAlphabet, rune(s[i])) {
			return false
		}
	}
	return true
}

func (g *gen) value() string {
	switch g.rng.Intn(10) {
	case 0:
		return ""
	case 1, 2, 3:
		return g.text(bareAlphabet, 1, 8)
	case 4:
		return g.pick([]string{" ", "  lead", "trail  ", "$HOME", "$FOO", "${BAR}", "{{.FOO}}", "{{.X}} {{.Y}}", "a  b", "{", "}", "{{", "}}", "$", "$$", "\\n", "<no value>", "-n", "*"})
	}
	return g.text(valueAlphabet, 1, 14)
}

// staysInSandbox: a join that climbs above the sandbox root would show that /S is one level deep while the
// real root is two levels deep (only the generator uses Go's filepath here, to discard such cases)
func staysInSandbox(args []string) bool {
	// `/S` stands for the real sandbox root, which lies deeper in the real tree than `/S` does in the model's: the two
	// sides agree as long as (1) an argument naming the sandbox is the first non-empty one (filepath.Join glues later
	// arguments on as relative components, and `/S/…` has fewer of them than the real path), and (2) the walk through the
	// components never climbs above the sandbox root on the way, whatever it ends at
	first := true
	for _, a := range args {
		if a == "" {
			continue
		}
		if !first && strings.HasPrefix(a, "/S") {
			return false
		}
		first = false
	}
	var nonEmpty []string
	for _, a := range args {
		if a != "" {
			nonEmpty = append(nonEmpty, a) // filepath.Join ignores empty elements
		}
	}
	j := strings.Join(nonEmpty, "/")
	var comps []string
	depth := 0 // components below the sandbox root
	if strings.HasPrefix(j, "/") {
		if j != "/S" && !strings.HasPrefix(j, "/S/") {
			// absolute and outside the sandbox from the start: purely lexical, the same on both sides
			return !strings.Contains(j, "/S")
		}
		comps = strings.Split(strings.TrimPrefix(j, "/S"), "/")
	} else {
		comps = strings.Split(j, "/")
		depth = len(strings.Split(projRel, "/"))
	}
	for _, c := range comps {
		switch c {
		case "", ".":
		case "..":
			depth--
			if depth < 0 {
				return false
			}
		default:
			depth++
		}
	}
	return true
}

type execSample struct {
	cmd, stdout string
	status      int
}

// counterCmd prints how many times it has been run in this invocation: two variables defined by the very same exec(...)
// are two evaluations, with two values
const counterCmd = "echo x >> /S/" + homeRel + "/cnt; /usr/bin/wc -l < /S/" + homeRel + "/cnt"

var execPool = []execSample{
	{"echo hi", "hi\n", 0},
	{"echo   spaced   out  ", "spaced out\n", 0},
	{"printf '  lead and trail \\n\\n'", "  lead and trail \n\n", 0},
	{"printf '\\t lead-tab x \\n'", "\t lead-tab x \n", 0},
	{"printf ''", "", 0},
	{"printf '   '", "   ", 0},
	{"true", "", 0},
	{"echo '{{.FOO}} $FOO'", "{{.FOO}} $FOO\n", 0},
	// more than 64 KiB: a value is the WHOLE standard output
	{"/usr/bin/head -c 70000 /dev/zero | /usr/bin/tr '\\0' y", strings.Repeat("y", 70000), 0},
	// a pipeline is as good as its LAST stage (no pipefail): the value is what it printed
	{"false | echo hello", "hello\n", 0},
	// a carriage return + line feed INSIDE the output belongs to the value like any other two bytes
	{"printf 'one\\r\\ntwo\\n'", "one\r\ntwo\n", 0},
	{"exit 3", "", 3},
	{"false", "", 1},
	{"echo partial; exit 2", "partial\n", 2},
	{"nosuchcommandzz", "", 127},
}

func (g *gen) c13Random() *tcase {
	tc := &tcase{prop: "C13", judge: true, cwd: projRel}
	tc.amb = [][2]string{{"HOME", "/S/" + homeRel}, {"PATH", "/usr/bin:/bin"}}
	// `cur` is a symbolic link to a directory that exists: join(...) is the LEXICAL join, whatever the path leads through
	tc.tree = append(tc.tree, entry{"f", homeRel + "/sib/s.txt", "s"}, entry{"l", projRel + "/cur", "../sib"})
	names := append([]string{}, envNames...)
	g.rng.Shuffle(len(names), func(i, j int) { names[i], names[j] = names[j], names[i] })
	nv := 1 + g.rng.Intn(5)
	spokNames := names[:nv]
	// ambient and .env names: biased towards collisions
	have := map[string]bool{"HOME": true, "PATH": true}
	for k := g.rng.Intn(5); k > 0; k-- {
		n := g.pick(names[:min(len(names), nv+3)])
		if have[n] {
			continue
		}
		have[n] = true
		tc.amb = append(tc.amb, [2]string{n, "amb-" + g.value()})
	}
	for k := g.rng.Intn(4); k > 0; k-- {
		n := g.pick(names[:min(len(names), nv+4)])
		tc.dot = append(tc.dot, [2]string{n, "dot" + g.text("abcxyz0189_./:-", 0, 6)})
	}
	// declarations, some redefined
	var decls []decl
	execFails := g.chance(0.06)
	for i, n := range spokNames {
		d := decl{name: n}
		switch r := g.rng.Intn(10); {
		case r < 6:
			d.kind, d.args = "S", []string{g.value()}
		case r < 8:
			d.kind = "J"
			for k := g.rng.Intn(4); k > 0; k-- {
				d.args = append(d.args, g.pick([]string{"a", "..", "b", ".", "", "c/d", "/x", "e/", "//f", "../..", "/S/" + homeRel, "cur", "cur/s.txt", "cur/.."}))
			}
			// never climb above the sandbox root: there /S (one level) and the real root (two levels) differ
			if g.chance(0.2) || !staysInSandbox(d.args) {
				d.args = []string{"a", "..", "b"}
			}
		default:
			d.kind = "X"
			var ok []execSample
			for _, e := range execPool {
				if e.status == 0 {
					ok = append(ok, e)
				}
			}
			e := ok[g.rng.Intn(len(ok))]
			d.args, d.stdout, d.status = []string{e.cmd}, e.stdout, e.status
		}
		if execFails && i == nv-1 {
			var bad []execSample
			for _, e := range execPool {
				if e.status != 0 {
					bad = append(bad, e)
				}
			}
			e := bad[g.rng.Intn(len(bad))]
			d = decl{name: n, kind: "X", args: []string{e.cmd}, stdout: e.stdout, status: e.status}
			switch g.rng.Intn(5) {
			case 0: // exec takes exactly one argument
				d = decl{name: n, kind: "X", args: nil}
			case 1:
				d = decl{name: n, kind: "X", args: []string{"echo a", "echo b"}, stdout: "a\n"}
			}
		}
		decls = append(decls, d)
	}
	if g.chance(0.2) && !execFails {
		decls = append(decls, decl{name: spokNames[0], kind: "S", args: []string{g.value()}})
	}
	if len(decls) >= 2 && !execFails && g.chance(0.12) {
		// the same exec(...) text twice (three times): every occurrence is evaluated on its own, in file order
		k := 0
		for i := range decls {
			if i < 3 && (i < 2 || g.chance(0.5)) {
				k++
				decls[i] = decl{name: decls[i].name, kind: "X", args: []string{counterCmd}, stdout: strconv.Itoa(k) + "\n"}
			}
		}
	}
	// tasks at random positions
	nt := 1 + g.rng.Intn(2)
	pos := make([]int, nt)
	for i := range pos {
		pos[i] = g.rng.Intn(len(decls) + 1)
		if g.chance(0.5) {
			pos[i] = len(decls)
		}
	}
	sort.Ints(pos)
	evalApprox := func(d decl) (string, bool) {
		if d.kind == "S" {
			return d.args[0], true
		}
		return "", false
	}
	all := map[string]bool{}
	for _, d := range decls {
		all[d.name] = true
	}
	pi := 0
	cur := map[string]string{}
	known := map[string]bool{}
	emitTask := func(k int) {
		t := task{name: []string{"alpha", "beta"}[k]}
		refNames := append([]string{}, spokNames...)
		refNames = append(refNames, "NEVER")
		allNames := append([]string{}, names[:min(len(names), nv+4)]...)
		nc := 1 + g.rng.Intn(4)
		for c := 0; c < nc; c++ {
			var words [][]piece
			nw := 1 + g.rng.Intn(4)
			for wi := 0; wi < nw; wi++ {
				var wd []piece
				if wi == 0 {
					// the first word starts with a bare literal that is not an option of echo
					wd = append(wd, piece{k: "B", s: g.text("abcxyzXYZ", 1, 3) + g.text(bareAlphabet, 0, 3)})
				}
				np := 1 + g.rng.Intn(3)
				for p := 0; p < np; p++ {
					last := p == np-1
					switch r := g.rng.Intn(12); {
					case r < 3:
						if len(wd) > 0 && wd[len(wd)-1].k == "B" {
							continue
						}
						wd = append(wd, piece{k: "B", s: g.text(bareAlphabet, 1, 5)})
					case r < 5:
						n := g.pick(refNames)
						v, isStr := cur[n]
						if known[n] && isStr && shellSafe(v) {
							wd = append(wd, piece{k: "R", s: n})
						} else {
							wd = append(wd, piece{k: "Q", q: []qitem{{ref: true, s: n}}})
						}
					case r < 8:
						var q []qitem
						for k := 1 + g.rng.Intn(3); k > 0; k-- {
							if g.chance(0.5) {
								q = append(q, qitem{ref: true, s: g.pick(refNames)})
							} else {
								t := g.text(quotedAlphabet, 1, 6)
								for strings.Contains(t, "{{") {
									t = strings.ReplaceAll(t, "{{", "{")
								}
								q = append(q, qitem{s: t})
							}
						}
						// a '{' directly before a reference (or another '{') would open the action early
						for i := 0; i+1 < len(q); i++ {
							if !q[i].ref && strings.HasSuffix(q[i].s, "{") && (q[i+1].ref || strings.HasPrefix(q[i+1].s, "{")) {
								q[i].s += "."
							}
						}
						wd = append(wd, piece{k: "Q", q: q})
					case r < 10:
						wd = append(wd, piece{k: "D", s: g.pick(allNames)})
					default:
						// a bare literal directly after a bare $NAME would extend the name: E is only ever last
						if last {
							wd = append(wd, piece{k: "E", s: g.pick(allNames)})
						} else {
							wd = append(wd, piece{k: "D", s: g.pick(allNames)})
						}
					}
				}
				if len(wd) == 0 {
					wd = []piece{{k: "B", s: "w"}}
				}
				words = append(words, wd)
			}
			t.cmds = append(t.cmds, command{words: words})
		}
		// one probe per variable of the whole file: the environment must carry the spokfile value
		var dn []string
		for n := range all {
			dn = append(dn, n)
		}
		sort.Strings(dn)
		for _, n := range dn {
			t.cmds = append(t.cmds, command{words: [][]piece{{{k: "B", s: n + "="}, {k: "D", s: n}}}})
		}
		// and the commands of the exec declarations, to see their raw output
		if k == 0 {
			for _, d := range decls {
				if d.kind == "X" && len(d.args) == 1 && d.status == 0 && !strings.Contains(d.args[0], "{{") && d.args[0] != counterCmd {
					t.cmds = append(t.cmds, command{raw: true, src: d.args[0], stdout: d.stdout, status: 0})
				}
			}
		}
		if k == 0 && g.chance(0.05) {
			// a double-brace action that is not spok's (`docker --format '{{json .State}}'`), next to a reference to a variable:
			// the spokfile does not load — the reference is never handed to the shell unexpanded
			src := g.pick([]string{"docker inspect --format '{{json .State}}' x", "echo {{ if }}", "echo {{.}} {{end}}", "echo {{printf \"%s\" .X | nosuch}}"})
			if len(dn) > 0 {
				src += " {{." + dn[g.rng.Intn(len(dn))] + "}}"
			}
			t.cmds = append(t.cmds, command{raw: true, src: src, stdout: "", status: 0})
		}
		tc.stmts = append(tc.stmts, stmt{isTask: true, t: t})
	}
	for i, d := range decls {
		for pi < nt && pos[pi] == i {
			emitTask(pi)
			pi++
		}
		tc.stmts = append(tc.stmts, stmt{d: d})
		if v, ok := evalApprox(d); ok {
			cur[d.name] = v
		} else {
			delete(cur, d.name)
		}
		known[d.name] = true
	}
	for pi < nt {
		emitTask(pi)
		pi++
	}
	// E pieces print the environment's value unquoted: keep only those whose value the model can follow
	// (the model rejects the others itself; here we just avoid wasting cases): spok vars that are safe strings
	for si := range tc.stmts {
		if !tc.stmts[si].isTask {
			continue
		}
		for ci := range tc.stmts[si].t.cmds {
			c := &tc.stmts[si].t.cmds[ci]
			for wi := range c.words {
				for pj := range c.words[wi] {
					p := &c.words[wi][pj]
					if p.k != "E" {
						continue
					}
					v, isStr := cur[p.s]
					if !(all[p.s] && isStr && shellSafe(v)) {
						p.k = "D"
					}
				}
			}
		}
	}
	return tc
}

func d8d9Witnesses() []string {
	amb := [][2]string{{"HOME", "/S/" + homeRel}, {"PATH", "/usr/bin:/bin"}}
	tree := append([]entry{}, fullTree...)
	var out []string
	one := func(t task) string {
		t.name = "build"
		t.cmds = []command{echoCmd("hi")}
		tc := &tcase{prop: "C12", judge: true, cwd: projRel, amb: amb, tree: tree, stmts: []stmt{{isTask: true, t: t}}}
		return tc.encode()
	}
	out = append(out, "// D8: `-> \"\"` used to delete the whole project")
	out = append(out, one(task{files: []string{""}}))
	out = append(out, "// D8: `-> \"..\"` used to delete the project's parent")
	out = append(out, one(task{files: []string{".."}}))
	out = append(out, "// D8: `-> \".\"`")
	out = append(out, one(task{files: []string{"."}}))
	out = append(out, "// D8: an empty variable as named output")
	tc := &tcase{prop: "C12", judge: true, cwd: projRel, amb: amb, tree: tree, stmts: []stmt{
		{d: decl{name: "EMPTY", kind: "S", args: []string{""}}},
		{isTask: true, t: task{name: "build", named: []string{"EMPTY"}, cmds: []command{echoCmd("hi")}}}}}
	out = append(out, tc.encode())
	out = append(out, "// D8: `-> \"docs/*.html\"` used to remove nothing (output globs were never expanded)")
	out = append(out, one(task{globs: []globOut{{pat: "docs/*.html", hits: refExpand(tree, "docs/*.html")}}}))
	out = append(out, "// D9: FOO := \"s\" with ambient FOO=a: {{.FOO}} was s but $FOO was a")
	t9 := task{name: "show", cmds: []command{
		{words: [][]piece{{{k: "B", s: "T="}, {k: "R", s: "FOO"}}, {{k: "B", s: "E="}, {k: "E", s: "FOO"}}}},
		{words: [][]piece{{{k: "B", s: "FOO="}, {k: "D", s: "FOO"}}}},
	}}
	tc9 := &tcase{prop: "C13", judge: true, cwd: projRel, amb: append(append([][2]string{}, amb...), [2]string{"FOO", "a"}),
		dot: [][2]string{{"FOO", "d"}}, stmts: []stmt{{d: decl{name: "FOO", kind: "S", args: []string{"s"}}}, {isTask: true, t: t9}}}
	out = append(out, tc9.encode())
	return out
}

func corpusFor(w *bufio.Writer, prop string) {
	var buf bytes.Buffer
	bw := bufio.NewWriter(&buf)
	sup.CorpusLines(bw, "env")
	bw.Flush()
	for _, ln := range strings.Split(buf.String(), "\n") {
		if strings.HasPrefix(ln, prop+" ") {
			fmt.Fprintln(w, ln)
		}
	}
}

func genMain(w *bufio.Writer, a map[string]string) {
	prop := a["prop"]
	thorough := a["tier"] == "thorough"
	seed := int64(atoi(a["seed"], 1))
	g := &gen{rng: rand.New(rand.NewSource(seed))}
	corpusFor(w, prop)
	switch prop {
	case "C12":
		for _, tc := range c12Singles() {
			fmt.Fprintln(w, tc.encode())
		}
		// … and once more with the project ENTERED THROUGH A SYMBOLIC LINK (the shell's logical working directory, $PWD):
		// what may be removed does not depend on the spelling of the way in
		for _, tc := range c12Singles() {
			tc.amb = append(tc.amb, [2]string{viaLink, "1"})
			fmt.Fprintln(w, tc.encode())
		}
		n := 760
		if thorough {
			n = 40000
		}
		for i := 0; i < n; i++ {
			tc := g.c12Random()
			if i%4 == 3 {
				tc.amb = append(tc.amb, [2]string{viaLink, "1"})
			}
			fmt.Fprintln(w, tc.encode())
		}
	case "C05", "C19":
		// the env engine as an extra engine: `--clean` on the real binary is where output GLOBS are expanded (C05: the
		// files removed are exactly the matching non-hidden ones) and where spok deletes things (C19: nothing but what
		// the action allows).  The cases are C12 cases (their line says so); for C05 only those with an output glob.
		for _, tc := range c12Singles() {
			if prop == "C19" || tc.hasGlob() {
				fmt.Fprintln(w, tc.encode())
			}
		}
		n := 400
		if thorough {
			n = 15000
		}
		for i := 0; i < n; {
			tc := g.c12Random()
			if prop == "C05" && !tc.hasGlob() {
				continue
			}
			i++
			if i%4 == 3 {
				tc.amb = append(tc.amb, [2]string{viaLink, "1"})
			}
			fmt.Fprintln(w, tc.encode())
		}
	case "C20":
		// the env engine as an extra engine of C20: `--vars` lists every variable with its EVALUATED value (string, join(…),
		// exec(…) — each exec evaluated on its own)
		for i := 0; i < 300; i++ {
			fmt.Fprintln(w, g.c13Random().encode())
		}
	case "C13":
		n := 560
		if thorough {
			n = 30000
		}
		for i := 0; i < n; i++ {
			fmt.Fprintln(w, g.c13Random().encode())
		}
	}
}

func main() {
	if len(os.Args) >= 2 {
		switch os.Args[1] {
		case "corpus":
			for _, l := range d8d9Witnesses() {
				fmt.Println(l)
			}
			return
		case "show":
			if len(os.Args) < 3 {
				os.Exit(2)
			}
			tc, ok := decode(os.Args[2])
			if !ok {
				fmt.Println("bad case")
				os.Exit(2)
			}
			fmt.Printf("cwd: /S/%s   judged: %v\n--- environment\n", tc.cwd, tc.judge)
			for _, p := range tc.amb {
				fmt.Printf("%s=%s\n", p[0], p[1])
			}
			fmt.Printf("--- .env\n%s--- tree\n", tc.dotenv())
			for _, e := range tc.tree {
				fmt.Printf("%s %s\n", e.kind, e.path)
			}
			fmt.Printf("--- /S/%s/spokfile\n%s", projRel, tc.spokfile("/S"))
			return
		}
	}
	sup.Main("env", &sup.Engine{Gen: genMain, Work: work, Recycle: 0, Timeout: 90 * time.Second})
}
