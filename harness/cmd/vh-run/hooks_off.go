//go:build !verif

package main

// The tree under test does not build with -tags verif (a change broke the hook files): the harness is built
// without the hooks.  Crash points and injected write errors are then never reached — the case runs as if no
// fault had been asked for, and is reported that way (CR -), so model and judges stay sound; only the
// fault-injection coverage is lost for this run.
const hooksOn = false

func setVerifPoint(func(point, path string, contents []byte)) {}
func setWriteError(func(path string) error)                   {}
