// vh-run: generator and implementation runner of the run engine (C01 C02 C10 C14).
//
// A case is a whole history over a small project:
//
//	T<k> ev ev ...     ev = w.<file>.<v> | d.<file> | c | f.<Task> | x.<Task>.<file>.<v> | r.<Tasks>.<force>.<crash>
//	x.<Task>.<file>.<v>  toggles a SIDE EFFECT of the task's command (in-process mode): whenever the command runs to its
//	          end it overwrites <file> (if it exists) with content <v> — a formatter, a generator.  A task is hashed when
//	          its turn comes, so the inputs it is judged on (INP) are those it SAW then: the tree after the effects of
//	          the commands that ran before it in this invocation (reference snapshots taken after every Runner call).
//	t.<file>  touches the file: its modification time moves on by an hour, nothing else changes (a checkout, a restore from
//	          backup, `touch`): the inputs are what they were.   w.<file>.4 writes "1v1", w.<file>.5 a sparse file of 64 MiB + 1.
//	T<k>l ... the same history in a project whose `src` directory is a SYMBOLIC LINK to a directory kept outside the project
//	y.<Task>  toggles another side effect (in-process mode): the task's command REMOVES THE CACHE (`rm -rf .spok`, a
//	          home-made clean task) when it runs to its end.  Reported as CR R<j> (the j-th command of the invocation did
//	          it): from then on the cache has been removed — nothing recorded before may license a skip in a LATER
//	          invocation —, and the first write of the cache file after it fails (the directory is gone).
//	crash = - | K<j> (the scripted Runner panics in its j-th call: kill -9 during a command)
//	          | P<k> (panic at the k-th cache.VerifPoint) | P<k>t<n> (… after writing only the first n bytes: torn write)
//	          | E<j> (the j-th write of the cache file FAILS with an error, the file is left as it was: cache.VerifWriteError)
//	          | F<j> (the j-th write and every later one fail: the cache file has become unwritable)
//	T<k>b ev ev ...    the same history in BINARY MODE (see below); the oracle ignores the first word of a case, so
//	                   both kinds are judged and compared in exactly the same way
//
// Work builds a temp project and, for every r event, a FRESH SpokFile (glob expansions are cached in the struct),
// runs the real SpokFile.Run with a scripted shell.Runner, and reports per invocation: the inputs of every task
// (computed here from the tree by reference code, digests by hash.New()), the run order, where it was killed, and
// the observables RES / EXEC / ERR / CACHE (see lean/Spok/Oracle/Run.lean for the line format).
//
// Binary mode: every r event is one process `$VERIF_BUILD/spok --debug --json [--force] <tasks>` (built with -tags
// verif) with cwd = the project directory <sandbox>/p, HOME = <sandbox>, PATH = <sandbox>/bin (holds `kill` only),
// NO_COLOR=1.  The spokfile is written once and never changes; every task has TWO commands
//
//	c=0; while read -r l; do case "$l" in *.2) c=$((c+1));; esac; done < $LOG; if test $((c+1)) = "$KILLAT"; then echo T > $CTL/killed; kill -$KILLSIG $$; fi; echo T >> $LOG
//	echo T.2 >> $LOG; test ! -e $CTL/fail.T
//
// (a task has COMPLETED when its second command has run: the line `T.2` is in the log; S<j> is K<j> with SIGTERM instead
// of SIGKILL — a process that catches the signal and "stops cleanly" after the first command has not completed the task)
//
// so that  K<j>  = the j-th command started in this invocation really SIGKILLs the spok process (KILLAT=j; `$$` is
// the pid of spok under mvdan/sh), P<k> / P<k>t<n> = SPOK_VERIF_CRASH=k / SPOK_VERIF_TEAR=n (the binary SIGKILLs itself
// at its k-th crash point), f.<Task> toggles the flag file $CTL/fail.<Task> (outside the project, in no dependency set).
// Observables: EXEC = the side-effect log $LOG (truncated before every invocation), RES and the order = the JSON document
// on stdout (a killed run prints nothing; for those the order is the last `[..]` list on the --debug stderr that is a
// permutation of the closure), ERR = none (exit 0 with a document, or exit 1 without one while the log shows a failing
// command and stderr says "exited with status": spok prints no document then, and RES is then *inferred*: executed =
// in the log, everything else of the closure skipped) | cache (exit 1 and "Could not load spok cache" on stderr) | crash (SIGKILL, as asked) | panic (any
// other signal / a Go panic) | other | bad (the document contradicts the log), CACHE = .spok/cache.json read back.
package main

import (
	"bufio"
	"bytes"
	"context"
	"encoding/json"
	"errors"
	"fmt"
	"math/big"
	"math/rand"
	"os"
	"os/exec"
	"path/filepath"
	"regexp"
	"runtime"
	"sort"
	"strconv"
	"strings"
	"syscall"
	"time"
	"unsafe"

	"github.com/FollowTheProcess/spok/cache"
	"github.com/FollowTheProcess/spok/file"
	"github.com/FollowTheProcess/spok/hash"
	"github.com/FollowTheProcess/spok/iostream"
	"github.com/FollowTheProcess/spok/parser"
	"github.com/FollowTheProcess/spok/shell"

	"verif/harness/sup"
)

func main() {
	if filepath.Base(os.Args[0]) == "kill" {
		killApplet() // binary mode on a machine without kill(1): <sandbox>/bin/kill is a link to this program
	}
	sup.Main("run", &sup.Engine{Gen: gen, Work: work, Recycle: 4000, Timeout: 30 * time.Second})
}

// killApplet is `kill -9 <pid>`
func killApplet() {
	sig, pid := syscall.SIGTERM, 0
	for _, a := range os.Args[1:] {
		if strings.HasPrefix(a, "-") {
			if n, err := strconv.Atoi(a[1:]); err == nil {
				sig = syscall.Signal(n)
			}
			continue
		}
		pid, _ = strconv.Atoi(a)
	}
	if pid <= 1 || syscall.Kill(pid, sig) != nil {
		os.Exit(1)
	}
	os.Exit(0)
}

// ------------------------------------------------------------------------------------------------
// universe

// index 5 is reserved (spokfileItem); index 6 is a file whose NAME is full of glob meta-characters but has no `*`: a
// literal dependency, the file of exactly that name
// index 7: a FILE called like task A; index 8: "b1" — with "b" a pair whose path‖content strings can coincide ("b"+"1v1" = "b1"+"v1")
// indices 9..27: nineteen files below `many` (more than there are CPUs on most machines, and a prime number of them)
var files = func() []string {
	l := []string{"a", "b", "src/x", "src/y", "src/a", "\x00reserved", "q[x]{y,z}?.t", "A", "b1"}
	for i := 0; i < manyN; i++ {
		l = append(l, fmt.Sprintf("many/%02d", i))
	}
	return l
}()

const manyN, manyBase = 19, 9

type taskDef struct {
	name       string
	deps       []string // file dependencies: a literal of `files`, or a glob ("src/*", "*")
	tasks      []string // task dependencies
	tasksFirst bool     // the task dependencies are written BEFORE the file dependencies
}

type template struct {
	tasks []taskDef
	used  []int // files whose state matters
}

var templates = []template{
	// 0: literal, glob + task dependency, dependency-less task (the reconnaissance template)
	{[]taskDef{{"A", []string{"a"}, nil, false}, {"B", []string{"src/*"}, []string{"A"}, false}, {"N", nil, nil, false}}, []int{0, 3}},
	// 1: two tasks sharing a file
	{[]taskDef{{"A", []string{"a", "b"}, nil, false}, {"B", []string{"a"}, nil, false}}, []int{0, 1}},
	// 2: two independent tasks (the D1 witnesses)
	{[]taskDef{{"A", []string{"a"}, nil, false}, {"B", []string{"b"}, nil, false}}, []int{0, 1}},
	// 3: a file matched twice (glob and literal): multiplicity; the literal may be missing
	{[]taskDef{{"A", []string{"src/*", "src/x"}, nil, false}}, []int{2, 3}},
	// 4: a chain of three, a shared file
	{[]taskDef{{"A", []string{"a"}, nil, false}, {"B", []string{"b"}, []string{"A"}, false}, {"C", []string{"src/*", "a"}, []string{"B"}, false}}, []int{0, 1, 3}},
	// 5: a glob that also matches a directory
	{[]taskDef{{"A", []string{"*"}, nil, false}, {"N", nil, nil, false}}, []int{0, 1}},
	// 6: a task with only a task dependency (no files: always runs)
	{[]taskDef{{"A", []string{"src/*", "a"}, nil, false}, {"B", nil, []string{"A"}, false}}, []int{0, 2, 3}},
	// 7: a recursive glob over files with the same base name in different directories (a move keeps name and content)
	{[]taskDef{{"A", []string{"**/a"}, nil, false}}, []int{0, 4}},
	// 8: a glob-only task whose glob can come to match nothing (src/x is removed in the focused family)
	{[]taskDef{{"A", []string{"src/*"}, nil, false}, {"B", []string{"b"}, []string{"A"}, false}}, []int{2, 3, 1}},
	// 9: two tasks with the very same dependency list, the first of which may rewrite those files (a formatter, then a build)
	{[]taskDef{{"A", []string{"src/*"}, nil, false}, {"B", []string{"src/*"}, []string{"A"}, false}}, []int{2, 3}},
	// 10: a literal dependency whose name has glob meta-characters (but no `*`), next to a plain one
	{[]taskDef{{"A", []string{"q[x]{y,z}?.t", "b"}, nil, false}}, []int{6, 1}},
	// 11: a glob whose last segment also matches the hidden directories at the top of the project (.hid, and .spok from the
	// first run on), next to a literal in a subdirectory: hidden entries are left out, their neighbours are not
	{[]taskDef{{"A", []string{"*", "src/x"}, nil, false}}, []int{0, 2}},
	// 12: a file dependency spelled like a task dependency of the same task, the task written first: both count
	{[]taskDef{{"A", []string{"a"}, nil, false}, {"B", []string{"A", "b"}, []string{"A"}, true}}, []int{7, 1, 0}},
	// 13: a glob over two files whose names and contents can be cut differently to the same text ("b"+"1v1", "b1"+"v1")
	{[]taskDef{{"A", []string{"b*"}, nil, false}}, []int{1, 8}},
	// 14: a glob over nineteen files: every one of them is an input, whichever worker it falls to (the last, the first
	// and one in the middle are edited)
	{[]taskDef{{"A", []string{"many/*"}, nil, false}}, []int{manyBase + manyN - 1, manyBase, manyBase + 7}},
}

// globalVars: every spokfile of this engine declares some global variables (none is used by a command): what they are
// called, how many there are and in which order a map hands them out is no input of any task
const globalVars = "VA := \"1\"\nVB := \"two\"\nVC := join(\"a\", \"b\")\nVD := \"4\"\nVE := \"\"\nVF := \"six\"\nVG := \"7\"\nVH := \"8\"\n\n"

func (td taskDef) args() []string {
	var fs []string
	for _, d := range td.deps {
		fs = append(fs, strconv.Quote(d))
	}
	if td.tasksFirst {
		return append(append([]string{}, td.tasks...), fs...)
	}
	return append(fs, td.tasks...)
}

func (t template) text() string {
	var b strings.Builder
	b.WriteString(globalVars)
	for _, td := range t.tasks {
		args := td.args()
		fmt.Fprintf(&b, "task %s(%s) {\n    run %s\n}\n\n", td.name, strings.Join(args, ", "), td.name)
	}
	return b.String()
}

// binText is the spokfile of binary mode: the same tasks, the one command being the real thing (see the file comment)
func (t template) binText() string {
	var b strings.Builder
	b.WriteString(globalVars)
	for _, td := range t.tasks {
		args := td.args()
		n := td.name
		// (every task declares an output, a hidden file that its first command writes before anything else: an output that
		// exists and is newer than every dependency says nothing about whether the task COMPLETED)
		cmd1 := `echo x > $PROJ/.` + n + `.out; c=0; while read -r l; do case "$l" in *.2) c=$((c+1));; esac; done < $LOG; if test $((c+1)) = "$KILLAT"; then echo ` + n +
			` > $CTL/killed; kill -$KILLSIG $$; fi; echo ` + n + ` >> $LOG`
		cmd2 := `echo ` + n + `.2 >> $LOG; test ! -e $CTL/fail.` + n
		fmt.Fprintf(&b, "task %s(%s) -> \".%s.out\" {\n    %s\n    %s\n}\n\n", n, strings.Join(args, ", "), n, cmd1, cmd2)
	}
	return b.String()
}

func (t template) def(name string) *taskDef {
	for i := range t.tasks {
		if t.tasks[i].name == name {
			return &t.tasks[i]
		}
	}
	return nil
}

// closure of the requested tasks under task dependencies, sorted
func (t template) closure(req []string) []string {
	seen := map[string]bool{}
	var visit func(n string)
	visit = func(n string) {
		if seen[n] {
			return
		}
		seen[n] = true
		if d := t.def(n); d != nil {
			for _, x := range d.tasks {
				visit(x)
			}
		}
	}
	for _, r := range req {
		visit(r)
	}
	var out []string
	for n := range seen {
		out = append(out, n)
	}
	sort.Strings(out)
	return out
}

// ------------------------------------------------------------------------------------------------
// reference inputs of a task from the tree (independent of spok's glob code)

type inputs struct {
	readable bool
	dirs     int
	items    [][2]int // (file index, content id), sorted
	paths    []string // what is handed to the hasher (absolute)
}

func content(root string, f int) int {
	if st, err := os.Stat(filepath.Join(root, files[f])); err == nil && st.Size() > 1<<20 {
		return 5 // the big sparse file (not read here)
	}
	b, err := os.ReadFile(filepath.Join(root, files[f]))
	if err != nil {
		return 0
	}
	if string(b) == "v1" {
		return 1
	}
	if len(b) == 0 {
		return 3 // an empty file is a file like any other (event w.<f>.3)
	}
	if string(b) == "1v1" {
		return 4
	}
	if len(b) > 1<<20 {
		return 5 // the big sparse file
	}
	return 2
}

// spokfileItem is the file index of the spokfile itself: in binary mode it is in the project directory and the glob
// "*" matches it (its content never changes: content id 1)
const spokfileItem = 5

func refInputs(root string, td taskDef, spokfileOnDisk bool) inputs {
	in := inputs{readable: true}
	add := func(f int) {
		c := content(root, f)
		if c != 0 {
			in.items = append(in.items, [2]int{f, c})
			in.paths = append(in.paths, filepath.Join(root, files[f]))
		}
	}
	var lits []string
	for _, d := range td.deps {
		switch d {
		case "src/*":
			add(2)
			add(3)
		case "**/a":
			add(0)
			add(4)
		case "b*":
			add(1)
			add(8)
		case "many/*":
			for i := 0; i < manyN; i++ {
				add(manyBase + i)
			}
		case "*":
			add(0)
			add(1)
			if spokfileOnDisk {
				in.items = append(in.items, [2]int{spokfileItem, 1})
				in.paths = append(in.paths, filepath.Join(root, "spokfile"))
			}
			if st, err := os.Stat(filepath.Join(root, "src")); err == nil && st.IsDir() {
				in.dirs++
				in.paths = append(in.paths, filepath.Join(root, "src"))
			}
		default:
			lits = append(lits, d)
		}
	}
	for _, d := range lits {
		found := false
		for f, name := range files {
			if name == d {
				found = true
				if content(root, f) == 0 {
					in.readable = false
				} else {
					add(f)
				}
			}
		}
		if !found {
			in.readable = false
		}
	}
	sort.Slice(in.items, func(i, j int) bool {
		if in.items[i][0] != in.items[j][0] {
			return in.items[i][0] < in.items[j][0]
		}
		return in.items[i][1] < in.items[j][1]
	})
	return in
}

func (in inputs) String() string {
	if !in.readable {
		return "x"
	}
	var it []string
	for _, x := range in.items {
		it = append(it, fmt.Sprintf("%d.%d", x[0], x[1]))
	}
	return fmt.Sprintf("%d:%s", in.dirs, strings.Join(it, "+"))
}

// natDigest of lean/Spok/Run.lean
func (in inputs) natDigest() string {
	a := new(big.Int)
	for _, x := range in.items {
		a.Mul(a, big.NewInt(256))
		a.Add(a, big.NewInt(int64(x[0]*8+x[1]+1)))
	}
	return a.String()
}

// ------------------------------------------------------------------------------------------------
// scripted collaborators

type killed struct{ what string }

// rlog records every []string a Debug call is given: the last one that is a permutation of the selected closure is
// the run order (independent of the wording of the log line)
type rlog struct{ lists [][]string }

func (*rlog) Sync() error { return nil }
func (l *rlog) Debug(_ string, args ...any) {
	for _, a := range args {
		if names, ok := a.([]string); ok {
			l.lists = append(l.lists, append([]string{}, names...))
		}
	}
}

func (l *rlog) order(sel []string) []string {
	for i := len(l.lists) - 1; i >= 0; i-- {
		c := append([]string{}, l.lists[i]...)
		sort.Strings(c)
		if strings.Join(c, ",") == strings.Join(sel, ",") {
			return l.lists[i]
		}
	}
	return nil
}

type call struct {
	task string
	ok   bool
}

type runner struct {
	fail   map[string]bool
	onCall func(task string) // after a command has run to its end: its side effect, then a reference snapshot
	calls  []call
	killAt int // 1-based call index at which the process is killed; 0 = never
	n      int
	killed string // the task whose command was running when the process was killed
}

func (r *runner) Run(cmd string, _ iostream.IOStream, task string, _ []string) (shell.Result, error) {
	r.n++
	if r.n == r.killAt {
		r.killed = task
		panic(killed{fmt.Sprintf("K%d", r.n)})
	}
	st := 0
	if r.fail[task] {
		st = 1
	}
	r.calls = append(r.calls, call{task, st == 0})
	if r.onCall != nil {
		r.onCall(task)
	}
	return shell.Result{Cmd: cmd, Status: st}, nil
}

// ------------------------------------------------------------------------------------------------
// Work

func joinOr(l []string, sep string) string {
	if len(l) == 0 {
		return "-"
	}
	return strings.Join(l, sep)
}

func work(c string) string {
	res, ok := sup.WithWatchdog(25*time.Second, func() string { return workCase(c) })
	if !ok {
		return "HANG"
	}
	return res
}

// tmpBase prefers a memory-backed directory: a history is thousands of tiny file operations
func tmpBase() string {
	if os.Getenv("TMPDIR") == "" {
		if st, err := os.Stat("/dev/shm"); err == nil && st.IsDir() {
			if f, err := os.CreateTemp("/dev/shm", "vh-probe-"); err == nil {
				f.Close()
				os.Remove(f.Name())
				return "/dev/shm"
			}
		}
	}
	return ""
}

type resEntry struct {
	task    string
	skipped bool
}

// invocation is what one r event was observed to do, in-process or as a process
type invocation struct {
	crash    string     // CR: "-" or where it was killed
	errClass string     // "crash" | "panic" | "cache" | "other"; "" = it returned results
	bad      bool       // the report contradicts the ground truth in a way the result list cannot show
	results  []resEntry // errClass == "": the reported results, in order
	calls    []call     // the commands that ran to their end, in order (ground truth)
	killed   string     // the task whose command was running when the process was killed
	order    []string   // the run order when it was observed apart from the results (nil = not observed)
	fatal    string     // the whole case cannot be run (no binary, hang, …)
}

type crashSpec struct {
	killAt  int  // K<j>
	term    bool // S<j>: the same with SIGTERM instead of SIGKILL
	pointAt int  // P<k>
	tear    int  // t<n>, -1 = none
	errAt   int  // E<j>
	errFrom bool // F<j>: every write from the j-th on
}

func parseCrashSpec(s string) (crashSpec, bool) {
	cs := crashSpec{tear: -1}
	switch {
	case s == "-":
	case strings.HasPrefix(s, "E"):
		cs.errAt, _ = strconv.Atoi(s[1:])
	case strings.HasPrefix(s, "F"):
		cs.errAt, _ = strconv.Atoi(s[1:])
		cs.errFrom = true
	case strings.HasPrefix(s, "K"):
		cs.killAt, _ = strconv.Atoi(s[1:])
	case strings.HasPrefix(s, "S"):
		cs.killAt, _ = strconv.Atoi(s[1:])
		cs.term = true
	case strings.HasPrefix(s, "P"):
		q := strings.Split(s[1:], "t")
		cs.pointAt, _ = strconv.Atoi(q[0])
		if len(q) > 1 {
			cs.tear, _ = strconv.Atoi(q[1])
		}
	default:
		return cs, false
	}
	return cs, true
}

// invokeInProc: a fresh SpokFile, the real SpokFile.Run with a scripted Runner; kills are panics
func invokeInProc(text, proj string, sel, req []string, force bool, cs crashSpec, fail map[string]bool, onCall func(string)) invocation {
	inv := invocation{crash: "-"}
	tree, err := parser.New(text).Parse()
	if err != nil {
		inv.fatal = "BAD-TEMPLATE " + sup.Hx(err.Error())
		return inv
	}
	lg := &rlog{}
	sf, err := file.New(tree, proj, lg)
	if err != nil {
		inv.fatal = "BAD-TEMPLATE " + sup.Hx(err.Error())
		return inv
	}
	rn := &runner{fail: fail, killAt: cs.killAt, onCall: onCall}
	npoints := 0
	setVerifPoint(func(point, path string, contents []byte) {
		npoints++
		if npoints != cs.pointAt {
			return
		}
		j := (npoints + 1) / 2
		if point == "dump:before" {
			if cs.tear >= 0 {
				n := cs.tear
				if n > len(contents) {
					n = len(contents)
				}
				_ = os.WriteFile(path, contents[:n], 0o666)
				if n < len(contents) {
					panic(killed{fmt.Sprintf("T%d", j)})
				}
				panic(killed{fmt.Sprintf("A%d", j)})
			}
			panic(killed{fmt.Sprintf("B%d", j)})
		}
		panic(killed{fmt.Sprintf("A%d", j)})
	})
	nwrites := 0
	if cs.errAt > 0 {
		setWriteError(func(string) error {
			nwrites++
			if nwrites == cs.errAt || (cs.errFrom && nwrites > cs.errAt) {
				if inv.crash == "-" {
					inv.crash = fmt.Sprintf("E%d", nwrites) // the first failing write is where the unchanged code stops
				}
				return errors.New("permission denied (injected)")
			}
			return nil
		})
	}
	var runErr error
	func() {
		defer func() {
			setVerifPoint(nil)
			setWriteError(nil)
			if r := recover(); r != nil {
				if k, ok := r.(killed); ok {
					inv.crash = k.what
					inv.errClass = "crash"
				} else {
					inv.errClass = "panic"
				}
			}
		}()
		rs, err := sf.Run(iostream.Null(), rn, force, req...)
		runErr = err
		if err == nil {
			for _, x := range rs {
				inv.results = append(inv.results, resEntry{x.Task, x.Skipped})
			}
		}
	}()
	if inv.errClass == "" && runErr != nil {
		if strings.Contains(runErr.Error(), "Could not load spok cache file") {
			inv.errClass = "cache"
		} else {
			inv.errClass = "other"
		}
	}
	inv.calls = rn.calls
	inv.killed = rn.killed
	inv.order = lg.order(sel)
	return inv
}

// ---- binary mode

type sandbox struct {
	root, proj, ctl, log, bin string
	spok                      string
}

var bracketList = regexp.MustCompile(`\[([A-Z](?: [A-Z])*)\]`)

func newSandbox(root string, tpl template) (*sandbox, string) {
	sb := &sandbox{root: root, proj: filepath.Join(root, "p"), ctl: filepath.Join(root, "ctl"),
		log: filepath.Join(root, "log"), bin: filepath.Join(root, "bin")}
	sb.spok = filepath.Join(os.Getenv("VERIF_BUILD"), "spok")
	if os.Getenv("VERIF_BUILD") == "" {
		sb.spok = "/verif/.build/spok"
	}
	if _, err := os.Stat(sb.spok); err != nil {
		return nil, "NO-BINARY"
	}
	for _, d := range []string{sb.proj, sb.ctl, sb.bin} {
		if os.MkdirAll(d, 0o755) != nil {
			return nil, "BAD-TMP"
		}
	}
	// the minimal PATH: kill(1) only (the system's, else this program under that name)
	target := ""
	for _, k := range []string{"/usr/bin/kill", "/bin/kill"} {
		if st, err := os.Stat(k); err == nil && st.Mode()&0o111 != 0 {
			target = k
			break
		}
	}
	if target == "" {
		if self, err := os.Executable(); err == nil {
			target = self
		}
	}
	if target == "" || os.Symlink(target, filepath.Join(sb.bin, "kill")) != nil {
		return nil, "NO-KILL"
	}
	if os.WriteFile(filepath.Join(sb.proj, "spokfile"), []byte(tpl.binText()), 0o644) != nil {
		return nil, "BAD-TMP"
	}
	return sb, ""
}

type jsonResult struct {
	Task    string `json:"task"`
	Results []struct {
		Status int `json:"status"`
	} `json:"results"`
	Skipped bool `json:"skipped"`
}

// invokeBinary: one process of the real binary; kills are SIGKILLs
const cpuSetWords = 16 // 1024 CPUs

func getAffinity(mask *[cpuSetWords]uint64) bool {
	_, _, e := syscall.RawSyscall(syscall.SYS_SCHED_GETAFFINITY, 0, uintptr(len(mask)*8), uintptr(unsafe.Pointer(mask)))
	return e == 0
}

func setAffinity(mask *[cpuSetWords]uint64) bool {
	_, _, e := syscall.RawSyscall(syscall.SYS_SCHED_SETAFFINITY, 0, uintptr(len(mask)*8), uintptr(unsafe.Pointer(mask)))
	return e == 0
}

// startOnOneCPU starts the command with the CPU affinity of the starting thread narrowed to one CPU (the child inherits
// it, so its runtime.NumCPU() is 1) and widens it again at once
func startOnOneCPU(cmd *exec.Cmd) error {
	runtime.LockOSThread()
	defer runtime.UnlockOSThread()
	var old, one [cpuSetWords]uint64
	if getAffinity(&old) {
		for i := 0; i < cpuSetWords*64; i++ {
			if old[i/64]&(1<<(uint(i)%64)) != 0 {
				one[i/64] = 1 << (uint(i) % 64)
				break
			}
		}
		if setAffinity(&one) {
			defer setAffinity(&old)
		}
	}
	return cmd.Start()
}

func invokeBinary(sb *sandbox, sel, req []string, force bool, cs crashSpec, fail map[string]bool, oneCPU, subdir bool) invocation {
	inv := invocation{crash: "-"}
	_ = os.WriteFile(sb.log, nil, 0o644)
	_ = os.Remove(filepath.Join(sb.ctl, "killed"))
	argv := []string{"--debug", "--json"}
	if force {
		argv = append(argv, "--force")
	}
	argv = append(argv, req...)
	env := []string{"HOME=" + sb.root, "PATH=" + sb.bin, "NO_COLOR=1", "TERM=dumb", "LOG=" + sb.log, "CTL=" + sb.ctl, "PROJ=" + sb.proj,
		"KILLAT=" + strconv.Itoa(cs.killAt), "KILLSIG=9"}
	if cs.term {
		env[len(env)-1] = "KILLSIG=15"
	}
	if cs.pointAt > 0 {
		env = append(env, "SPOK_VERIF_CRASH="+strconv.Itoa(cs.pointAt))
		if cs.tear >= 0 {
			env = append(env, "SPOK_VERIF_TEAR="+strconv.Itoa(cs.tear))
		}
	}
	if cs.errAt > 0 && cs.errFrom {
		env = append(env, "SPOK_VERIF_WRITE_ERROR_FROM="+strconv.Itoa(cs.errAt))
	} else if cs.errAt > 0 {
		env = append(env, "SPOK_VERIF_WRITE_ERROR="+strconv.Itoa(cs.errAt))
	}
	if d := os.Getenv("GOCOVERDIR"); d != "" {
		env = append(env, "GOCOVERDIR="+d) // a -cover build (thorough tier) of the binary
	}
	var so, se bytes.Buffer
	var runErr error
	timedOut := false
	for attempt := 0; ; attempt++ {
		so.Reset()
		se.Reset()
		ctx, cancel := context.WithTimeout(context.Background(), 15*time.Second)
		cmd := exec.CommandContext(ctx, sb.spok, argv...)
		cmd.Dir = sb.proj
		if subdir {
			cmd.Dir = filepath.Join(sb.proj, "src")
		}
		cmd.Env = env
		cmd.Stdout, cmd.Stderr = &so, &se
		if oneCPU {
			if runErr = startOnOneCPU(cmd); runErr == nil {
				runErr = cmd.Wait()
			}
		} else {
			runErr = cmd.Run()
		}
		timedOut = ctx.Err() != nil
		cancel()
		// the shared binary may be being replaced by a concurrent build: it was not started, try again
		var ee *exec.ExitError
		if runErr != nil && !errors.As(runErr, &ee) && attempt < 20 {
			time.Sleep(100 * time.Millisecond)
			continue
		}
		break
	}
	if timedOut {
		inv.fatal = "HANG"
		return inv
	}

	// ground truth: the commands that ran to their end
	logData, _ := os.ReadFile(sb.log)
	called := map[string]bool{}
	anyFailed := false
	for _, l := range strings.Split(string(logData), "\n") {
		if l == "" {
			continue
		}
		if !strings.HasSuffix(l, ".2") {
			continue // the first command of a task: the task has completed when the second one has run
		}
		l = strings.TrimSuffix(l, ".2")
		inv.calls = append(inv.calls, call{l, !fail[l]})
		called[l] = true
		if fail[l] {
			anyFailed = true
		}
	}
	if k, err := os.ReadFile(filepath.Join(sb.ctl, "killed")); err == nil {
		inv.killed = strings.TrimSpace(string(k))
	}
	// the run order as logged (wording-independent: the last bracketed list that is a permutation of the closure)
	for _, m := range bracketList.FindAllStringSubmatch(se.String(), -1) {
		names := strings.Split(m[1], " ")
		c := append([]string{}, names...)
		sort.Strings(c)
		if strings.Join(c, ",") == strings.Join(sel, ",") {
			inv.order = names
		}
	}

	exit, sig := 0, syscall.Signal(0)
	if runErr != nil {
		var ee *exec.ExitError
		if !errors.As(runErr, &ee) {
			inv.fatal = "NO-BINARY"
			return inv
		}
		exit = ee.ExitCode()
		if ws, ok := ee.Sys().(syscall.WaitStatus); ok && ws.Signaled() {
			sig = ws.Signal()
		}
	}
	switch {
	case (sig == syscall.SIGKILL || sig == syscall.SIGTERM && cs.term) && cs.killAt > 0:
		inv.errClass = "crash"
		inv.crash = fmt.Sprintf("K%d", len(inv.calls)+1)
		if len(inv.calls)+1 != cs.killAt || inv.killed == "" {
			inv.errClass = "panic" // killed, but not by the command that was to do it
		}
	case sig == syscall.SIGKILL && cs.pointAt > 0:
		inv.errClass = "crash"
		j := (cs.pointAt + 1) / 2
		switch {
		case cs.pointAt%2 == 0:
			inv.crash = fmt.Sprintf("A%d", j)
		case cs.tear < 0:
			inv.crash = fmt.Sprintf("B%d", j)
		default:
			// fewer bytes than the new contents ⇒ what is on disk is a strict prefix of a JSON object: not a document
			data, err := os.ReadFile(filepath.Join(sb.proj, cache.Path))
			var m map[string]string
			if err == nil && json.Unmarshal(data, &m) == nil {
				inv.crash = fmt.Sprintf("A%d", j)
			} else {
				inv.crash = fmt.Sprintf("T%d", j)
			}
		}
	case sig != 0 || exit == 2 && strings.Contains(se.String(), "goroutine "):
		inv.errClass = "panic"
	case exit == 0:
		var doc []jsonResult
		if json.Unmarshal(bytes.TrimSpace(so.Bytes()), &doc) != nil {
			inv.bad = true
		}
		for _, r := range doc {
			inv.results = append(inv.results, resEntry{r.Task, r.Skipped})
			for _, c := range r.Results {
				if c.Status != 0 {
					inv.bad = true // exit 0 with a failed command in the document
				}
			}
		}
		if anyFailed {
			inv.bad = true // a command failed and the invocation says nothing about it
		}
		inv.order = nil // the document is the order
	case strings.Contains(se.String(), "Could not load spok cache"):
		inv.errClass = "cache"
	case cs.errAt > 0 && exit != 0 && strings.Contains(se.String(), "(injected)"):
		// the injected write error was reached and reported: an explicit error about the cache
		inv.errClass = "other"
		inv.crash = fmt.Sprintf("E%d", cs.errAt)
	case exit == 1 && anyFailed && len(bytes.TrimSpace(so.Bytes())) == 0 && strings.Contains(se.String(), "exited with status"):
		// a failing command: spok reports it by exit status 1 and "Command … exited with status n", and prints no
		// document; who was skipped is inferred (a later task whose hashing fails also gives exit 1 after a failing
		// command, but then Run returned an error and not results: the message tells the two apart)
		order := inv.order
		if order == nil {
			order = fallbackOrder(inv, sel)
		}
		for _, n := range order {
			inv.results = append(inv.results, resEntry{n, !called[n]})
		}
	default:
		inv.errClass = "other"
	}
	return inv
}

// fallbackOrder: the order was not observable (killed before the sort was logged): commands that ran first, then
// the one that was killed, then the rest of the closure
func fallbackOrder(inv invocation, sel []string) []string {
	var order []string
	inOrd := map[string]bool{}
	for _, cl := range inv.calls {
		if !inOrd[cl.task] {
			order = append(order, cl.task)
			inOrd[cl.task] = true
		}
	}
	if inv.killed != "" && !inOrd[inv.killed] {
		order = append(order, inv.killed)
		inOrd[inv.killed] = true
	}
	for _, n := range sel {
		if !inOrd[n] {
			order = append(order, n)
		}
	}
	return order
}

func workCase(c string) string {
	w := strings.Fields(c)
	if len(w) == 0 || !strings.HasPrefix(w[0], "T") {
		return "BAD-CASE"
	}
	binary := strings.HasSuffix(w[0], "b")
	linkedSrc := strings.HasSuffix(w[0], "l")
	ti, err := strconv.Atoi(strings.TrimSuffix(strings.TrimSuffix(w[0][1:], "b"), "l"))
	if err != nil || ti < 0 || ti >= len(templates) {
		return "BAD-CASE"
	}
	tpl := templates[ti]
	text := tpl.text()

	root, err := os.MkdirTemp(tmpBase(), "vh-run-")
	if err != nil {
		return "BAD-TMP"
	}
	defer os.RemoveAll(root)
	root, _ = filepath.EvalSymlinks(root)
	proj := root
	var sb *sandbox
	if binary {
		var bad string
		if sb, bad = newSandbox(root, tpl); sb == nil {
			return bad
		}
		proj = sb.proj
	}
	if !binary {
		// the project directory's own name is full of glob meta-characters: dependencies are relative to it, never part
		// of a pattern
		proj = filepath.Join(root, "pr[o]j{a,b}")
	}
	if linkedSrc {
		// `src` is a symbolic link to a directory outside the project: what lies behind it belongs to the project all the same
		_ = os.MkdirAll(proj, 0o755)
		_ = os.MkdirAll(filepath.Join(root, "store-src"), 0o755)
		_ = os.Symlink(filepath.Join(root, "store-src"), filepath.Join(proj, "src"))
	}
	_ = os.MkdirAll(filepath.Join(proj, "src"), 0o755)
	// a hidden directory at the top of every project (it sorts before every other entry, `.spok` included), holding a file
	// called like a dependency: hidden entries are in no dependency set
	_ = os.MkdirAll(filepath.Join(proj, ".hid"), 0o755)
	_ = os.WriteFile(filepath.Join(proj, ".hid", "a"), []byte("v1"), 0o644)
	for _, f := range []int{0, 1, 2} {
		_ = os.WriteFile(filepath.Join(proj, files[f]), []byte("v1"), 0o644)
	}
	if ti == 14 {
		_ = os.MkdirAll(filepath.Join(proj, "many"), 0o755)
		for i := 0; i < manyN; i++ {
			_ = os.WriteFile(filepath.Join(proj, files[manyBase+i]), []byte("v1"), 0o644)
		}
	}
	// `b` starts its life as a symbolic link to a regular file kept outside the project: a dependency is the file the path
	// leads to (edits go through the link; a delete removes the link, a later write makes a plain file)
	store := filepath.Join(root, "store-b")
	if os.WriteFile(store, []byte("v1"), 0o644) == nil {
		_ = os.Remove(filepath.Join(proj, files[1]))
		_ = os.Symlink(store, filepath.Join(proj, files[1]))
	}

	fail := map[string]bool{}
	effects := map[string][2]string{} // task -> (file index, content code): what its command overwrites when it runs
	rmcache := map[string]bool{}      // tasks whose command removes the .spok directory
	digests := map[string]string{}    // real digest -> natDigest of the inputs it was computed from
	var names []string
	for _, td := range tpl.tasks {
		names = append(names, td.name)
	}
	sort.Strings(names)

	var sINP, sORD, sSEL, sCR, sRES, sEXEC, sERR, sCACHE []string

	for _, ev := range w[1:] {
		p := strings.Split(ev, ".")
		switch p[0] {
		case "w":
			if len(p) != 3 {
				return "BAD-CASE"
			}
			f, _ := strconv.Atoi(p[1])
			if f < 0 || f >= len(files) {
				return "BAD-CASE"
			}
			data := []byte("v" + p[2])
			switch p[2] {
			case "3":
				data = nil // w.<f>.3 writes an empty file
			case "4":
				data = []byte("1v1")
			}
			if p[2] == "5" {
				// a sparse file of 64 MiB + 1 byte (all zero)
				path := filepath.Join(proj, files[f])
				_ = os.Remove(path)
				if fh, err := os.Create(path); err == nil {
					_ = fh.Truncate(64<<20 + 1)
					fh.Close()
				}
				break
			}
			_ = os.WriteFile(filepath.Join(proj, files[f]), data, 0o644)
		case "t":
			if len(p) != 2 {
				return "BAD-CASE"
			}
			f, _ := strconv.Atoi(p[1])
			if f < 0 || f >= len(files) {
				return "BAD-CASE"
			}
			path := filepath.Join(proj, files[f])
			if st, err := os.Stat(path); err == nil {
				nt := st.ModTime().Add(time.Hour)
				_ = os.Chtimes(path, nt, nt)
			}
		case "d":
			if len(p) != 2 {
				return "BAD-CASE"
			}
			f, _ := strconv.Atoi(p[1])
			if f < 0 || f >= len(files) {
				return "BAD-CASE"
			}
			_ = os.Remove(filepath.Join(proj, files[f]))
		case "c":
			_ = os.RemoveAll(filepath.Join(proj, cache.Dir))
		case "f":
			if len(p) != 2 {
				return "BAD-CASE"
			}
			fail[p[1]] = !fail[p[1]]
			if binary {
				flag := filepath.Join(sb.ctl, "fail."+p[1])
				if fail[p[1]] {
					_ = os.WriteFile(flag, nil, 0o644)
				} else {
					_ = os.Remove(flag)
				}
			}
		case "x":
			if len(p) != 4 || binary {
				return "BAD-CASE"
			}
			if f, err := strconv.Atoi(p[2]); err != nil || f < 0 || f >= len(files) {
				return "BAD-CASE"
			}
			if cur, ok := effects[p[1]]; ok && cur == [2]string{p[2], p[3]} {
				delete(effects, p[1])
			} else {
				effects[p[1]] = [2]string{p[2], p[3]}
			}
		case "y":
			if len(p) != 2 || binary {
				return "BAD-CASE"
			}
			rmcache[p[1]] = !rmcache[p[1]]
		case "r":
			if len(p) != 4 && !(len(p) == 5 && (p[4] == "c1" || p[4] == "sd")) {
				return "BAD-CASE"
			}
			oneCPU := len(p) == 5 && p[4] == "c1" // binary mode: the process sees ONE cpu (runtime.NumCPU() == 1), as in a small container
			subdir := len(p) == 5 && p[4] == "sd" // binary mode: spok is started in <project>/src and finds the spokfile by climbing
			var req []string
			for _, ch := range p[1] {
				req = append(req, string(ch))
			}
			force := p[2] == "1"
			cs, ok := parseCrashSpec(p[3])
			if !ok {
				return "BAD-CASE"
			}

			// reference snapshots: the inputs of every task (and their real digests) before the invocation and,
			// when commands have side effects, after every command that ran to its end
			var snaps []map[string]inputs
			snap := func() {
				m := map[string]inputs{}
				for _, n := range names {
					in := refInputs(proj, *tpl.def(n), binary)
					m[n] = in
					if in.readable {
						if d, err := hash.New().Hash(in.paths); err == nil {
							digests[d] = in.natDigest()
						}
					}
				}
				snaps = append(snaps, m)
			}
			snap()
			sel := tpl.closure(req)
			sSEL = append(sSEL, joinOr(sel, ","))

			var onCall func(string)
			removedAt, ncalls := 0, 0
			if len(effects) > 0 || len(rmcache) > 0 {
				onCall = func(task string) {
					ncalls++
					if rmcache[task] {
						_ = os.RemoveAll(filepath.Join(proj, cache.Dir))
						if removedAt == 0 {
							removedAt = ncalls
						}
					}
					if e, ok := effects[task]; ok {
						f, _ := strconv.Atoi(e[0])
						path := filepath.Join(proj, files[f])
						if st, err := os.Stat(path); err == nil && st.Mode().IsRegular() {
							data := []byte("v" + e[1])
							if e[1] == "3" {
								data = nil
							}
							_ = os.WriteFile(path, data, 0o644)
						}
					}
					snap()
				}
			}
			var inv invocation
			if binary {
				inv = invokeBinary(sb, sel, req, force, cs, fail, oneCPU, subdir)
			} else {
				inv = invokeInProc(text, proj, sel, req, force, cs, fail, onCall)
			}
			if inv.fatal != "" {
				return inv.fatal
			}
			if removedAt > 0 {
				if inv.crash != "-" {
					return "SKIPPED" // a removal AND a kill in one invocation: not modelled
				}
				inv.crash = fmt.Sprintf("R%d", removedAt)
			}
			sCR = append(sCR, inv.crash)

			called := map[string]bool{}
			okOf := map[string]bool{}
			var ex []string
			for _, cl := range inv.calls {
				called[cl.task] = true
				okOf[cl.task] = cl.ok
				if cl.ok {
					ex = append(ex, cl.task+":1")
				} else {
					ex = append(ex, cl.task+":0")
				}
			}
			sEXEC = append(sEXEC, joinOr(ex, ","))

			var order []string
			errClass := inv.errClass
			if errClass != "" {
				sRES = append(sRES, "-")
			} else {
				errClass = "none"
				var rs []string
				seen := map[string]bool{}
				for _, x := range inv.results {
					order = append(order, x.task)
					if seen[x.task] || x.skipped == called[x.task] {
						errClass = "bad" // the report contradicts what the Runner / the side-effect log saw
					}
					seen[x.task] = true
					switch {
					case x.skipped:
						rs = append(rs, x.task+":S")
					case okOf[x.task]:
						rs = append(rs, x.task+":O")
					default:
						rs = append(rs, x.task+":F")
					}
				}
				for t := range called {
					if !seen[t] {
						errClass = "bad" // a command ran for a task that is not in the report
					}
				}
				if inv.bad {
					errClass = "bad"
				}
				sRES = append(sRES, joinOr(rs, ","))
			}
			sERR = append(sERR, errClass)
			if order == nil {
				order = inv.order
			}
			if order == nil {
				order = fallbackOrder(inv, sel)
			}
			sORD = append(sORD, joinOr(order, ","))

			// INP: what every task saw when its turn came = the snapshot after the commands that completed before it
			pos := map[string]int{}
			for i, t := range order {
				if _, dup := pos[t]; !dup {
					pos[t] = i
				}
			}
			var inp []string
			for _, n := range names {
				k := 0
				if pn, in := pos[n]; in {
					for _, cl := range inv.calls {
						if pc, ok := pos[cl.task]; ok && pc < pn {
							k++
						}
					}
				}
				if k >= len(snaps) {
					k = len(snaps) - 1
				}
				inp = append(inp, n+"="+snaps[k][n].String())
			}
			sINP = append(sINP, strings.Join(inp, ","))

			// the cache file afterwards
			data, err := os.ReadFile(filepath.Join(proj, cache.Path))
			switch {
			case err != nil:
				sCACHE = append(sCACHE, "missing")
			default:
				var m map[string]string
				if json.Unmarshal(data, &m) != nil {
					sCACHE = append(sCACHE, "corrupt")
					break
				}
				var cs []string
				for _, n := range names {
					d := m[n]
					switch {
					case d == "":
						cs = append(cs, n+"=-")
					default:
						if id, ok := digests[d]; ok {
							cs = append(cs, fmt.Sprintf("%s=%s", n, id))
						} else {
							cs = append(cs, n+"=?"+d[:min(8, len(d))])
						}
					}
				}
				for k := range m {
					if tpl.def(k) == nil {
						cs = append(cs, "?extra")
						break
					}
				}
				sCACHE = append(sCACHE, joinOr(cs, ","))
			}
		default:
			return "BAD-CASE"
		}
	}
	sec := func(name string, l []string) string { return name + " " + joinOr(l, " / ") }
	return strings.Join([]string{sec("INP", sINP), sec("ORD", sORD), sec("SEL", sSEL), sec("CR", sCR),
		sec("RES", sRES), sec("EXEC", sEXEC), sec("ERR", sERR), sec("CACHE", sCACHE)}, " ; ")
}

// ------------------------------------------------------------------------------------------------
// Gen

type alphabet struct {
	edits []string // w / d / c / f
	runs  []string // r.<tasks>.<force>.-  (crash-free)
}

func (a alphabet) all() []string { return append(append([]string{}, a.edits...), a.runs...) }

func runsOf(sets []string) []string {
	var out []string
	for _, s := range sets {
		out = append(out, "r."+s+".0.-", "r."+s+".1.-")
	}
	return out
}

// the small-scope alphabets of the exhaustive part
var alpha = map[int]alphabet{
	0: {[]string{"c", "w.0.1", "w.0.2", "w.3.1", "w.3.2", "d.3", "f.A", "f.B"}, runsOf([]string{"A", "B", "AN", "NB"})},
	1: {[]string{"c", "w.0.1", "w.0.2", "d.0", "w.1.2", "f.A"}, runsOf([]string{"A", "B", "AB"})},
	2: {[]string{"c", "w.0.1", "w.0.2", "w.1.2", "f.B"}, runsOf([]string{"A", "B", "AB"})},
	6: {[]string{"c", "w.0.2", "w.0.1", "w.3.1", "d.3", "f.A"}, runsOf([]string{"A", "B"})},
	7: {[]string{"w.0.1", "d.0", "w.4.1", "d.4", "w.0.2"}, runsOf([]string{"A"})},
	8: {[]string{"d.2", "w.2.1", "w.2.3", "w.3.3", "d.3"}, runsOf([]string{"A"})},
	9: {[]string{"w.2.1", "w.2.2", "x.A.2.2", "x.A.2.1", "f.B"}, runsOf([]string{"B", "A"})},
	10: {[]string{"w.6.1", "w.6.2", "d.6", "w.1.2", "w.1.1"}, runsOf([]string{"A"})},
	11: {[]string{"w.0.1", "w.0.2", "d.0", "w.2.2", "w.2.1"}, runsOf([]string{"A"})},
	12: {[]string{"w.7.1", "w.7.2", "w.1.2", "w.0.2", "d.7"}, runsOf([]string{"B", "A"})},
	13: {[]string{"w.1.4", "w.1.1", "d.1", "w.8.1", "d.8", "w.8.4"}, runsOf([]string{"A"})},
	14: {[]string{"w.27.2", "w.27.1", "w.9.2", "w.16.2", "d.27", "w.16.1"}, runsOf([]string{"A"})},
}

// touchFamily: the modification time of a dependency moves and nothing else: every task is still up to date (also for
// a file too big to be worth reading twice: 64 MiB + 1, sparse)
func touchFamily(w *bufio.Writer, big bool) {
	for _, t := range []int{1, 2} {
		fmt.Fprintf(w, "T%d r.AB.0.- t.0 r.AB.0.- t.1 t.0 r.AB.0.- w.0.2 r.AB.0.- t.0 r.AB.0.-\n", t)
		fmt.Fprintf(w, "T%d w.0.3 r.AB.0.- t.0 r.AB.0.- w.0.1 t.0 r.AB.0.-\n", t)
	}
	fmt.Fprintf(w, "T0 r.AB.0.- t.3 r.AB.0.- t.0 r.B.0.-\n")
	fmt.Fprintf(w, "T7 r.A.0.- t.4 t.0 r.A.0.-\n")
	if big {
		fmt.Fprintf(w, "T2 w.0.5 r.AB.0.- t.0 r.AB.0.- r.A.0.- w.0.1 r.A.0.- w.0.5 r.A.0.- t.0 r.A.0.-\n")
	}
}

// linkedSrcFamily: the templates with files below `src`, in a project whose `src` is a symbolic link to a directory
func linkedSrcFamily(w *bufio.Writer, depth int) {
	for _, t := range []int{7, 3, 0} {
		a := alpha[t]
		if t == 3 {
			a = alphabet{[]string{"w.2.1", "w.2.2", "w.3.1", "d.3"}, runsOf([]string{"A"})}
		}
		all := a.all()
		var rec func(h []string)
		rec = func(h []string) {
			if len(h) == depth-1 {
				for _, r := range a.runs {
					fmt.Fprintf(w, "T%dl %s %s\n", t, strings.Join(h, " "), r)
				}
				return
			}
			for _, o := range all {
				rec(append(h, o))
			}
		}
		rec(nil)
	}
}

// all histories of exactly `depth` events whose last event is a run (their prefixes are checked on the way)
func exhaustive(w *bufio.Writer, t int, depth int) int {
	a := alpha[t]
	all := a.all()
	n := 0
	var rec func(h []string)
	rec = func(h []string) {
		if len(h) == depth-1 {
			for _, r := range a.runs {
				fmt.Fprintf(w, "T%d %s %s\n", t, strings.Join(h, " "), r)
				n++
			}
			return
		}
		for _, o := range all {
			rec(append(h, o))
		}
	}
	rec(nil)
	return n
}

// removalFamily: both tasks recorded, then every history of `depth` events over {toggle "the command of A / B removes the
// cache", edit, revert, run any set in any order}
func removalFamily(w *bufio.Writer, t int, depth int) int {
	a := alphabet{[]string{"y.A", "y.B", "w.0.2", "w.0.1"}, runsOf([]string{"A", "B", "AB", "BA"})}
	all := a.all()
	n := 0
	var rec func(h []string)
	rec = func(h []string) {
		if len(h) == depth-1 {
			for _, r := range a.runs {
				fmt.Fprintf(w, "T%d r.AB.0.- %s %s\n", t, strings.Join(h, " "), r)
				n++
			}
			return
		}
		for _, o := range all {
			rec(append(h, o))
		}
	}
	rec(nil)
	return n
}

func crashSpecs(maxPoint int, tears []int) []string {
	out := []string{"K1", "K2", "K3", "E1", "E2", "E3", "E4", "F1", "F2", "F3"}
	for k := 1; k <= maxPoint; k++ {
		out = append(out, fmt.Sprintf("P%d", k))
		if k%2 == 1 {
			for _, n := range tears {
				out = append(out, fmt.Sprintf("P%dt%d", k, n))
			}
		}
	}
	return out
}

// prefix (≤ preDepth events) ; a run killed at every point ; continuation ; unforced run(s) of everything
func crashFamily(w *bufio.Writer, t int, preDepth int, maxPoint int, tears []int, stride int) int {
	a := alpha[t]
	all := a.all()
	var runSets []string
	for _, r := range a.runs {
		if strings.HasSuffix(r, ".0.-") {
			runSets = append(runSets, strings.Split(r, ".")[1])
		}
	}
	full := runSets[len(runSets)-1]
	conts := [][]string{{}, {"w.0.2"}, {"w.0.1"}}
	// … or another invocation first, one that may not write the cache at all (a dependency-less task, a skip), then the edit
	for _, set := range runSets[:len(runSets)-1] {
		conts = append(conts, []string{"r." + set + ".0.-", "w.0.1"}, []string{"r." + set + ".0.-", "w.0.2"})
	}
	n, idx := 0, 0
	var rec func(h []string)
	rec = func(h []string) {
		for _, set := range runSets {
			for _, f := range []string{"0", "1"} {
				for _, cs := range crashSpecs(maxPoint, tears) {
					for _, ct := range conts {
						idx++
						if idx%stride != 0 {
							continue
						}
						ev := append(append([]string{}, h...), "r."+set+"."+f+"."+cs)
						ev = append(ev, ct...)
						ev = append(ev, "r."+full+".0.-", "r."+full+".0.-")
						fmt.Fprintf(w, "T%d %s\n", t, strings.Join(ev, " "))
						n++
					}
				}
			}
		}
		if len(h) == preDepth {
			return
		}
		for _, o := range all {
			rec(append(h, o))
		}
	}
	rec(nil)
	return n
}

// ---- binary mode (T<k>b): the same histories against the real binary

// binaryKillFamily: for the two-task templates 1 and 2
//
//	[run AB] edit [run killed at K1 K2 / every crash point k (± torn 0, 9, half, full)] revert [run AB]     ± --force on the killed run
//	[run AB] remove the cache [the killed run, now through cache.Init: points 1..10] [run AB]
//	[the killed run in a fresh project] [run AB]
//
// every `stride`-th of them, starting at `offset`
func binaryKillFamily(w *bufio.Writer, stride, offset int) int {
	tears := []int{0, 9, 70, 100000} // the cache file of two tasks is 15 / 79 / 143 bytes long
	specs := func(maxPoint int) []string {
		out := []string{"K1", "K2", "S1", "S2"}
		for k := 1; k <= maxPoint; k++ {
			out = append(out, fmt.Sprintf("P%d", k))
			if k%2 == 1 {
				for _, n := range tears {
					out = append(out, fmt.Sprintf("P%dt%d", k, n))
				}
			}
		}
		return out
	}
	n, idx := 0, offset
	emit := func(t int, ev ...string) {
		idx++
		if idx%stride != 0 {
			return
		}
		fmt.Fprintf(w, "T%db %s\n", t, strings.Join(ev, " "))
		n++
	}
	for _, t := range []int{1, 2} {
		for _, f := range []string{"0", "1"} {
			for _, set := range []string{"AB", "A"} {
				for _, ed := range [][2]string{{"w.0.2", "w.0.1"}, {"w.1.2", "w.1.1"}} {
					for _, cs := range specs(8) {
						emit(t, "r.AB.0.-", ed[0], "r."+set+"."+f+"."+cs, ed[1], "r.AB.0.-")
						// … and without the revert: what the killed run left must not pass for a completed run on the NEW inputs
						emit(t, "r.AB.0.-", ed[0], "r."+set+"."+f+"."+cs, "r.AB.0.-")
					}
				}
			}
			for _, cs := range specs(10) {
				emit(t, "r.AB.0.-", "c", "r.AB."+f+"."+cs, "r.AB.0.-")
				emit(t, "r.AB."+f+"."+cs, "r.AB.0.-")
			}
			// a kill while the OTHER task is at work, then a whole edit / run / revert / run cycle of the first one: whatever the
			// killed process left behind (a lock, a marker, a temporary file) must not freeze what later runs record
			for _, cs := range specs(6) {
				emit(t, "r.AB.0.-", "w.1.2", "r.AB."+f+"."+cs, "w.0.2", "r.AB.0.-", "w.0.1", "r.AB.0.-")
			}
		}
	}
	return n
}

func randomHistories(w *bufio.Writer, rng *rand.Rand, count int, maxDepth int, pCrash, pForce float64) {
	randomHistoriesMode(w, rng, count, maxDepth, pCrash, pForce, "")
}

func randomHistoriesMode(w *bufio.Writer, rng *rand.Rand, count int, maxDepth int, pCrash, pForce float64, mode string) {
	for i := 0; i < count; i++ {
		t := rng.Intn(len(templates))
		tpl := templates[t]
		depth := 2 + rng.Intn(maxDepth-1)
		var ev []string
		noCrash := false // once a command removes the cache, no kills (the combination is not modelled)
		for len(ev) < depth {
			switch x := rng.Intn(10); {
			case x < 3:
				f := tpl.used[rng.Intn(len(tpl.used))]
				if rng.Intn(4) == 0 {
					ev = append(ev, fmt.Sprintf("d.%d", f))
				} else if rng.Intn(6) == 0 {
					ev = append(ev, fmt.Sprintf("t.%d", f))
				} else {
					ev = append(ev, fmt.Sprintf("w.%d.%d", f, 1+rng.Intn(3)))
				}
			case x == 3:
				if rng.Intn(3) == 0 {
					ev = append(ev, "c")
				} else if mode == "" && rng.Intn(6) == 0 {
					ev = append(ev, "y."+tpl.tasks[rng.Intn(len(tpl.tasks))].name)
					noCrash = true
				} else if mode == "" && rng.Intn(3) == 0 {
					// a command with a side effect on one of the files (in-process mode only)
					f := tpl.used[rng.Intn(len(tpl.used))]
					ev = append(ev, fmt.Sprintf("x.%s.%d.%d", tpl.tasks[rng.Intn(len(tpl.tasks))].name, f, 1+rng.Intn(3)))
				} else {
					ev = append(ev, "f."+tpl.tasks[rng.Intn(len(tpl.tasks))].name)
				}
			default:
				if noCrash {
					ev = append(ev, randomRun(rng, tpl, 0, pForce))
				} else {
					ev = append(ev, randomRun(rng, tpl, pCrash, pForce))
				}
			}
		}
		ev = append(ev, randomRun(rng, tpl, 0, 0))
		fmt.Fprintf(w, "T%d%s %s\n", t, mode, strings.Join(ev, " "))
	}
}

func randomRun(rng *rand.Rand, tpl template, pCrash, pForce float64) string {
	var set string
	for set == "" {
		for _, td := range tpl.tasks {
			if rng.Intn(2) == 0 {
				set += td.name
			}
		}
	}
	if rng.Intn(2) == 0 { // request order is free
		b := []byte(set)
		rng.Shuffle(len(b), func(i, j int) { b[i], b[j] = b[j], b[i] })
		set = string(b)
	}
	f := "0"
	if rng.Float64() < pForce {
		f = "1"
	}
	cs := "-"
	if rng.Float64() < pCrash {
		switch rng.Intn(4) {
		case 3:
			cs = fmt.Sprintf("%s%d", []string{"E", "F"}[rng.Intn(2)], 1+rng.Intn(5))
		case 0:
			cs = fmt.Sprintf("K%d", 1+rng.Intn(3))
		case 1:
			cs = fmt.Sprintf("P%d", 1+rng.Intn(10))
		default:
			cs = fmt.Sprintf("P%dt%d", 1+2*rng.Intn(5), rng.Intn(200))
		}
	}
	return "r." + set + "." + f + "." + cs
}

func gen(w *bufio.Writer, args map[string]string) {
	prop := args["prop"]
	thorough := args["tier"] == "thorough"
	seed := int64(sup.Atoi(args["seed"], 1))
	rng := rand.New(rand.NewSource(seed*7919 + int64(len(prop))*104729 + int64(prop[len(prop)-1])))
	sup.CorpusLines(w, "run")

	// binary mode first (processes are slower than calls: let them overlap with the rest): C10, and a small sample for C01
	brng := rand.New(rand.NewSource(seed*104729 + 17))
	off := int(seed % 1000)
	switch {
	case prop == "C10" && thorough:
		binaryKillFamily(w, 1, 0)
		randomHistoriesMode(w, brng, 100, 7, 0.5, 0.2, "b")
	case prop == "C10":
		for _, t := range []int{1, 2} { // always: a kill from inside each task position, a torn and a completed write
			for _, cs := range []string{"K1", "K2", "S1", "S2", "P1t9", "P3t70", "P2", "P4"} {
				fmt.Fprintf(w, "T%db r.AB.0.- w.0.2 r.AB.1.%s w.0.1 r.AB.0.-\n", t, cs)
			}
			for _, cs := range []string{"K1", "S1", "S2"} {
				fmt.Fprintf(w, "T%db r.AB.0.- w.0.2 r.AB.0.%s r.AB.0.-\n", t, cs)
			}
		}
		for _, cs := range []string{"K1", "P1", "P2t20", "P4"} {
			fmt.Fprintf(w, "T2b r.AB.0.- w.1.2 r.AB.0.%s w.0.2 r.AB.0.- w.0.1 r.AB.0.-\n", cs)
		}
		binaryKillFamily(w, 17, off)
		randomHistoriesMode(w, brng, 12, 7, 0.5, 0.2, "b")
	case prop == "C01" && thorough:
		binaryKillFamily(w, 12, off)
		randomHistoriesMode(w, brng, 30, 7, 0.3, 0.2, "b")
	case prop == "C01":
		binaryKillFamily(w, 80, off)
		randomHistoriesMode(w, brng, 4, 7, 0.3, 0.2, "b")
	case prop == "C02":
		// the same unchanged project run by processes that see different numbers of CPUs (a laptop, then a one-CPU container
		// sharing the checkout): unchanged inputs are unchanged inputs
		for _, t := range []int{1, 4, 0} {
			all := "AB"
			if t == 4 {
				all = "C"
			}
			fmt.Fprintf(w, "T%db r.%s.0.- r.%s.0.-.c1 r.%s.0.-\n", t, all, all, all)
			fmt.Fprintf(w, "T%db r.%s.0.-.c1 r.%s.0.- w.0.2 r.%s.0.-.c1 r.%s.0.-\n", t, all, all, all, all)
			// … and started from different directories of the project (the spokfile is found by climbing)
			fmt.Fprintf(w, "T%db r.%s.0.- r.%s.0.-.sd r.%s.0.-\n", t, all, all, all)
			fmt.Fprintf(w, "T%db r.%s.0.-.sd r.%s.0.- w.0.2 r.%s.0.-.sd r.%s.0.-\n", t, all, all, all, all)
		}
	}

	quickTears := []int{0, 9, 100000}
	var allTears []int
	for n := 0; n <= 170; n++ {
		allTears = append(allTears, n)
	}
	nrand := 2000
	if thorough {
		nrand = 20000
	}
	switch prop {
	case "C10":
		// kills at every point, then continuations; a lighter crash-free base
		if thorough {
			crashFamily(w, 0, 2, 10, quickTears, 1)
			crashFamily(w, 1, 2, 8, quickTears, 1)
			crashFamily(w, 2, 2, 8, quickTears, 1)
			crashFamily(w, 2, 1, 8, allTears, 1) // every byte prefix of every cache file written
			crashFamily(w, 1, 1, 8, allTears, 3)
			exhaustive(w, 2, 5)
		} else {
			crashFamily(w, 0, 1, 10, quickTears, 1)
			crashFamily(w, 2, 2, 8, quickTears, 2)
			crashFamily(w, 1, 1, 8, quickTears, 1)
			exhaustive(w, 2, 4)
		}
		randomHistories(w, rng, nrand, 12, 0.35, 0.2)
	case "C14":
		if thorough {
			exhaustive(w, 1, 5)
			exhaustive(w, 2, 5)
			exhaustive(w, 6, 5)
			exhaustive(w, 0, 4)
		} else {
			exhaustive(w, 0, 4)
			exhaustive(w, 2, 4)
			exhaustive(w, 8, 5) // a glob that comes to match nothing under a forced run, then the same files again
		}
		crashFamily(w, 2, 1, 8, quickTears, 4)
		// a forced run in a process that sees ONE cpu records what it ran on like any other
		fmt.Fprintf(w, "T1b r.AB.1.-.c1 w.0.2 r.AB.0.-.c1 r.AB.0.-\n")
		fmt.Fprintf(w, "T2b r.AB.0.- w.1.2 r.AB.1.-.c1 w.1.1 r.AB.0.-.c1\n")
		// a forced run records what it ran on — also for files that are reached through a symbolic link to a directory
		linkedSrcFamily(w, 3)
		for _, t := range []int{7, 0, 3} {
			all, f := "A", "4"
			if t == 0 {
				all, f = "AB", "3"
			} else if t == 3 {
				f = "3"
			}
			fmt.Fprintf(w, "T%dl w.%s.1 r.%s.1.- w.%s.2 r.%s.0.- r.%s.0.- w.%s.1 r.%s.1.- r.%s.0.-\n", t, f, all, f, all, all, f, all, all)
		}
		// a forced run on changed inputs that is cut short or cannot write the cache, then the revert: --force never
		// licenses a later skip on inputs the task did not complete on
		for _, t := range []int{1, 2} {
			for _, cs := range []string{"E1", "E2", "E3", "F1", "F2", "F3", "K1", "K2", "P1", "P2", "P3", "P4", "P1t9", "P3t20"} {
				for _, set := range []string{"AB", "A"} {
					fmt.Fprintf(w, "T%d r.AB.0.- w.0.2 r.%s.1.%s w.0.1 r.AB.0.-\n", t, set, cs)
					fmt.Fprintf(w, "T%d r.AB.0.- w.0.2 r.%s.1.%s r.AB.0.-\n", t, set, cs)
				}
			}
		}
		randomHistories(w, rng, nrand, 12, 0.1, 0.5)
	case "C09":
		// the run loop's part of C09 (extra engine of the cli check): failing tasks, alone and together with write errors
		// of the cache file and kills — the failure is in the results, and nothing later treats the task as up to date
		for _, t := range []int{1, 2} {
			for _, cs := range []string{"-", "E1", "E2", "E3", "F1", "F2", "K1", "K2", "P2", "P3"} {
				for _, fl := range []string{"f.A", "f.B"} {
					fmt.Fprintf(w, "T%d r.AB.0.- w.0.2 %s r.AB.0.%s r.AB.0.- %s r.AB.0.-\n", t, fl, cs, fl)
					fmt.Fprintf(w, "T%d %s r.AB.0.%s w.0.2 r.AB.0.- r.AB.1.-\n", t, fl, cs)
				}
			}
		}
		exhaustive(w, 2, 4)
		exhaustive(w, 1, 4)
		randomHistories(w, rng, nrand, 10, 0.2, 0.2)
	default: // C01, C02
		if thorough {
			exhaustive(w, 1, 5)
			exhaustive(w, 2, 5)
			exhaustive(w, 6, 5)
			exhaustive(w, 0, 4)
			exhaustive(w, 7, 6)
			exhaustive(w, 8, 7)
			exhaustive(w, 9, 5)
			exhaustive(w, 10, 6)
			exhaustive(w, 11, 6)
			exhaustive(w, 12, 5)
			exhaustive(w, 13, 6)
			exhaustive(w, 14, 5)
			touchFamily(w, true)
			linkedSrcFamily(w, 4)
			removalFamily(w, 2, 5)
			removalFamily(w, 1, 4)
			removalFamily(w, 0, 4)
			if prop == "C01" {
				crashFamily(w, 2, 2, 8, quickTears, 1)
			}
		} else {
			exhaustive(w, 0, 4)
			exhaustive(w, 1, 4)
			// focused single-task families, one level deeper: a moved file under a recursive glob; a glob that
			// comes to match nothing and then the same files again
			exhaustive(w, 7, 5)
			exhaustive(w, 8, 6)
			exhaustive(w, 9, 4) // commands that rewrite the files a later task of the same run depends on
			exhaustive(w, 10, 5)
			exhaustive(w, 11, 5)
			exhaustive(w, 12, 4)
			exhaustive(w, 13, 5)
			exhaustive(w, 14, 4)
			touchFamily(w, prop == "C02")
			linkedSrcFamily(w, 3)
			removalFamily(w, 2, 4)
			if prop == "C01" {
				crashFamily(w, 2, 1, 8, quickTears, 2)
			} else {
				exhaustive(w, 6, 4)
			}
		}
		pc := 0.15
		if prop == "C02" {
			pc = 0.03
		}
		randomHistories(w, rng, nrand, 12, pc, 0.2)
	}
}
