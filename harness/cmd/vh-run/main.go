// vh-run: generator and implementation runner of the run engine (C01 C02 C10 C14).
//
// A case is a whole history over a small project:
//
//	T<k> ev ev ...     ev = w.<file>.<v> | d.<file> | c | f.<Task> | r.<Tasks>.<force>.<crash>
//	crash = - | K<j> (the scripted Runner panics in its j-th call: kill -9 during a command)
//	          | P<k> (panic at the k-th cache.VerifPoint) | P<k>t<n> (… after writing only the first n bytes: torn write)
//
// Work builds a temp project and, for every r event, a FRESH SpokFile (glob expansions are cached in the struct),
// runs the real SpokFile.Run with a scripted shell.Runner, and reports per invocation: the inputs of every task
// (computed here from the tree by reference code, digests by hash.New()), the run order, where it was killed, and
// the observables RES / EXEC / ERR / CACHE (see lean/Spok/Oracle/Run.lean for the line format).
package main

import (
	"bufio"
	"encoding/json"
	"fmt"
	"math/rand"
	"os"
	"path/filepath"
	"sort"
	"strconv"
	"strings"
	"time"

	"github.com/FollowTheProcess/spok/cache"
	"github.com/FollowTheProcess/spok/file"
	"github.com/FollowTheProcess/spok/hash"
	"github.com/FollowTheProcess/spok/iostream"
	"github.com/FollowTheProcess/spok/parser"
	"github.com/FollowTheProcess/spok/shell"

	"verif/harness/sup"
)

func main() {
	sup.Main("run", &sup.Engine{Gen: gen, Work: work, Recycle: 4000, Timeout: 30 * time.Second})
}

// ------------------------------------------------------------------------------------------------
// universe

var files = []string{"a", "b", "src/x", "src/y", "src/a"}

type taskDef struct {
	name  string
	deps  []string // file dependencies: a literal of `files`, or a glob ("src/*", "*")
	tasks []string // task dependencies
}

type template struct {
	tasks []taskDef
	used  []int // files whose state matters
}

var templates = []template{
	// 0: literal, glob + task dependency, dependency-less task (the reconnaissance template)
	{[]taskDef{{"A", []string{"a"}, nil}, {"B", []string{"src/*"}, []string{"A"}}, {"N", nil, nil}}, []int{0, 3}},
	// 1: two tasks sharing a file
	{[]taskDef{{"A", []string{"a", "b"}, nil}, {"B", []string{"a"}, nil}}, []int{0, 1}},
	// 2: two independent tasks (the D1 witnesses)
	{[]taskDef{{"A", []string{"a"}, nil}, {"B", []string{"b"}, nil}}, []int{0, 1}},
	// 3: a file matched twice (glob and literal): multiplicity; the literal may be missing
	{[]taskDef{{"A", []string{"src/*", "src/x"}, nil}}, []int{2, 3}},
	// 4: a chain of three, a shared file
	{[]taskDef{{"A", []string{"a"}, nil}, {"B", []string{"b"}, []string{"A"}}, {"C", []string{"src/*", "a"}, []string{"B"}}}, []int{0, 1, 3}},
	// 5: a glob that also matches a directory
	{[]taskDef{{"A", []string{"*"}, nil}, {"N", nil, nil}}, []int{0, 1}},
	// 6: a task with only a task dependency (no files: always runs)
	{[]taskDef{{"A", []string{"src/*", "a"}, nil}, {"B", nil, []string{"A"}}}, []int{0, 2, 3}},
	// 7: a recursive glob over files with the same base name in different directories (a move keeps name and content)
	{[]taskDef{{"A", []string{"**/a"}, nil}}, []int{0, 4}},
	// 8: a glob-only task whose glob can come to match nothing (src/x is removed in the focused family)
	{[]taskDef{{"A", []string{"src/*"}, nil}, {"B", []string{"b"}, []string{"A"}}}, []int{2, 3, 1}},
}

func (t template) text() string {
	var b strings.Builder
	for _, td := range t.tasks {
		var args []string
		for _, d := range td.deps {
			args = append(args, strconv.Quote(d))
		}
		args = append(args, td.tasks...)
		fmt.Fprintf(&b, "task %s(%s) {\n    run %s\n}\n\n", td.name, strings.Join(args, ", "), td.name)
	}
	return b.String()
}

func (t template) def(name string) *taskDef {
	for i := range t.tasks {
		if t.tasks[i].name == name {
			return &t.tasks[i]
		}
	}
	return nil
}

// closure of the requested tasks under task dependencies, sorted
func (t template) closure(req []string) []string {
	seen := map[string]bool{}
	var visit func(n string)
	visit = func(n string) {
		if seen[n] {
			return
		}
		seen[n] = true
		if d := t.def(n); d != nil {
			for _, x := range d.tasks {
				visit(x)
			}
		}
	}
	for _, r := range req {
		visit(r)
	}
	var out []string
	for n := range seen {
		out = append(out, n)
	}
	sort.Strings(out)
	return out
}

// ------------------------------------------------------------------------------------------------
// reference inputs of a task from the tree (independent of spok's glob code)

type inputs struct {
	readable bool
	dirs     int
	items    [][2]int // (file index, content id), sorted
	paths    []string // what is handed to the hasher (absolute)
}

func content(root string, f int) int {
	b, err := os.ReadFile(filepath.Join(root, files[f]))
	if err != nil {
		return 0
	}
	if string(b) == "v1" {
		return 1
	}
	return 2
}

func refInputs(root string, td taskDef) inputs {
	in := inputs{readable: true}
	add := func(f int) {
		c := content(root, f)
		if c != 0 {
			in.items = append(in.items, [2]int{f, c})
			in.paths = append(in.paths, filepath.Join(root, files[f]))
		}
	}
	var lits []string
	for _, d := range td.deps {
		switch d {
		case "src/*":
			add(2)
			add(3)
		case "**/a":
			add(0)
			add(4)
		case "*":
			add(0)
			add(1)
			if st, err := os.Stat(filepath.Join(root, "src")); err == nil && st.IsDir() {
				in.dirs++
				in.paths = append(in.paths, filepath.Join(root, "src"))
			}
		default:
			lits = append(lits, d)
		}
	}
	for _, d := range lits {
		found := false
		for f, name := range files {
			if name == d {
				found = true
				if content(root, f) == 0 {
					in.readable = false
				} else {
					add(f)
				}
			}
		}
		if !found {
			in.readable = false
		}
	}
	sort.Slice(in.items, func(i, j int) bool {
		if in.items[i][0] != in.items[j][0] {
			return in.items[i][0] < in.items[j][0]
		}
		return in.items[i][1] < in.items[j][1]
	})
	return in
}

func (in inputs) String() string {
	if !in.readable {
		return "x"
	}
	var it []string
	for _, x := range in.items {
		it = append(it, fmt.Sprintf("%d.%d", x[0], x[1]))
	}
	return fmt.Sprintf("%d:%s", in.dirs, strings.Join(it, "+"))
}

// natDigest of lean/Spok/Run.lean
func (in inputs) natDigest() uint64 {
	var a uint64
	for _, x := range in.items {
		a = a*64 + uint64(x[0]*4+x[1]+1)
	}
	return a
}

// ------------------------------------------------------------------------------------------------
// scripted collaborators

type killed struct{ what string }

// rlog records every []string a Debug call is given: the last one that is a permutation of the selected closure is
// the run order (independent of the wording of the log line)
type rlog struct{ lists [][]string }

func (*rlog) Sync() error { return nil }
func (l *rlog) Debug(_ string, args ...any) {
	for _, a := range args {
		if names, ok := a.([]string); ok {
			l.lists = append(l.lists, append([]string{}, names...))
		}
	}
}

func (l *rlog) order(sel []string) []string {
	for i := len(l.lists) - 1; i >= 0; i-- {
		c := append([]string{}, l.lists[i]...)
		sort.Strings(c)
		if strings.Join(c, ",") == strings.Join(sel, ",") {
			return l.lists[i]
		}
	}
	return nil
}

type call struct {
	task string
	ok   bool
}

type runner struct {
	fail   map[string]bool
	calls  []call
	killAt int // 1-based call index at which the process is killed; 0 = never
	n      int
	killed string // the task whose command was running when the process was killed
}

func (r *runner) Run(cmd string, _ iostream.IOStream, task string, _ []string) (shell.Result, error) {
	r.n++
	if r.n == r.killAt {
		r.killed = task
		panic(killed{fmt.Sprintf("K%d", r.n)})
	}
	st := 0
	if r.fail[task] {
		st = 1
	}
	r.calls = append(r.calls, call{task, st == 0})
	return shell.Result{Cmd: cmd, Status: st}, nil
}

// ------------------------------------------------------------------------------------------------
// Work

func joinOr(l []string, sep string) string {
	if len(l) == 0 {
		return "-"
	}
	return strings.Join(l, sep)
}

func work(c string) string {
	res, ok := sup.WithWatchdog(25*time.Second, func() string { return workCase(c) })
	if !ok {
		return "HANG"
	}
	return res
}

// tmpBase prefers a memory-backed directory: a history is thousands of tiny file operations
func tmpBase() string {
	if os.Getenv("TMPDIR") == "" {
		if st, err := os.Stat("/dev/shm"); err == nil && st.IsDir() {
			if f, err := os.CreateTemp("/dev/shm", "vh-probe-"); err == nil {
				f.Close()
				os.Remove(f.Name())
				return "/dev/shm"
			}
		}
	}
	return ""
}

func workCase(c string) string {
	w := strings.Fields(c)
	if len(w) == 0 || !strings.HasPrefix(w[0], "T") {
		return "BAD-CASE"
	}
	ti, err := strconv.Atoi(w[0][1:])
	if err != nil || ti < 0 || ti >= len(templates) {
		return "BAD-CASE"
	}
	tpl := templates[ti]
	text := tpl.text()

	root, err := os.MkdirTemp(tmpBase(), "vh-run-")
	if err != nil {
		return "BAD-TMP"
	}
	defer os.RemoveAll(root)
	root, _ = filepath.EvalSymlinks(root)
	_ = os.MkdirAll(filepath.Join(root, "src"), 0o755)
	for _, f := range []int{0, 1, 2} {
		_ = os.WriteFile(filepath.Join(root, files[f]), []byte("v1"), 0o644)
	}

	fail := map[string]bool{}
	digests := map[string]uint64{} // real digest -> natDigest of the inputs it was computed from
	var names []string
	for _, td := range tpl.tasks {
		names = append(names, td.name)
	}
	sort.Strings(names)

	var sINP, sORD, sSEL, sCR, sRES, sEXEC, sERR, sCACHE []string

	for _, ev := range w[1:] {
		p := strings.Split(ev, ".")
		switch p[0] {
		case "w":
			if len(p) != 3 {
				return "BAD-CASE"
			}
			f, _ := strconv.Atoi(p[1])
			if f < 0 || f >= len(files) {
				return "BAD-CASE"
			}
			_ = os.WriteFile(filepath.Join(root, files[f]), []byte("v"+p[2]), 0o644)
		case "d":
			if len(p) != 2 {
				return "BAD-CASE"
			}
			f, _ := strconv.Atoi(p[1])
			if f < 0 || f >= len(files) {
				return "BAD-CASE"
			}
			_ = os.Remove(filepath.Join(root, files[f]))
		case "c":
			_ = os.RemoveAll(filepath.Join(root, cache.Dir))
		case "f":
			if len(p) != 2 {
				return "BAD-CASE"
			}
			fail[p[1]] = !fail[p[1]]
		case "r":
			if len(p) != 4 {
				return "BAD-CASE"
			}
			var req []string
			for _, ch := range p[1] {
				req = append(req, string(ch))
			}
			force := p[2] == "1"
			killAt, pointAt, tear := 0, 0, -1
			switch {
			case p[3] == "-":
			case strings.HasPrefix(p[3], "K"):
				killAt, _ = strconv.Atoi(p[3][1:])
			case strings.HasPrefix(p[3], "P"):
				q := strings.Split(p[3][1:], "t")
				pointAt, _ = strconv.Atoi(q[0])
				if len(q) > 1 {
					tear, _ = strconv.Atoi(q[1])
				}
			default:
				return "BAD-CASE"
			}

			// inputs of every task now, and their real digests
			var inp []string
			for _, n := range names {
				in := refInputs(root, *tpl.def(n))
				inp = append(inp, n+"="+in.String())
				if in.readable {
					if d, err := hash.New().Hash(in.paths); err == nil {
						digests[d] = in.natDigest()
					}
				}
			}
			sINP = append(sINP, strings.Join(inp, ","))
			sel := tpl.closure(req)
			sSEL = append(sSEL, joinOr(sel, ","))

			tree, err := parser.New(text).Parse()
			if err != nil {
				return "BAD-TEMPLATE " + sup.Hx(err.Error())
			}
			lg := &rlog{}
			sf, err := file.New(tree, root, lg)
			if err != nil {
				return "BAD-TEMPLATE " + sup.Hx(err.Error())
			}
			rn := &runner{fail: fail, killAt: killAt}
			npoints := 0
			cache.VerifPoint = func(point, path string, contents []byte) {
				npoints++
				if npoints != pointAt {
					return
				}
				j := (npoints + 1) / 2
				if point == "dump:before" {
					if tear >= 0 {
						n := tear
						if n > len(contents) {
							n = len(contents)
						}
						_ = os.WriteFile(path, contents[:n], 0o666)
						if n < len(contents) {
							panic(killed{fmt.Sprintf("T%d", j)})
						}
						panic(killed{fmt.Sprintf("A%d", j)})
					}
					panic(killed{fmt.Sprintf("B%d", j)})
				}
				panic(killed{fmt.Sprintf("A%d", j)})
			}
			var results []struct {
				task    string
				skipped bool
			}
			var runErr error
			crash := "-"
			errClass := ""
			func() {
				defer func() {
					cache.VerifPoint = nil
					if r := recover(); r != nil {
						if k, ok := r.(killed); ok {
							crash = k.what
							errClass = "crash"
						} else {
							errClass = "panic"
						}
					}
				}()
				rs, err := sf.Run(iostream.Null(), rn, force, req...)
				runErr = err
				if err == nil {
					for _, x := range rs {
						results = append(results, struct {
							task    string
							skipped bool
						}{x.Task, x.Skipped})
					}
				}
			}()
			sCR = append(sCR, crash)

			called := map[string]bool{}
			okOf := map[string]bool{}
			var ex []string
			for _, cl := range rn.calls {
				called[cl.task] = true
				okOf[cl.task] = cl.ok
				if cl.ok {
					ex = append(ex, cl.task+":1")
				} else {
					ex = append(ex, cl.task+":0")
				}
			}
			sEXEC = append(sEXEC, joinOr(ex, ","))

			var order []string
			switch {
			case errClass != "":
				sRES = append(sRES, "-")
			case runErr != nil:
				sRES = append(sRES, "-")
				if strings.Contains(runErr.Error(), "Could not load spok cache file") {
					errClass = "cache"
				} else {
					errClass = "other"
				}
			default:
				errClass = "none"
				var rs []string
				seen := map[string]bool{}
				for _, x := range results {
					order = append(order, x.task)
					if seen[x.task] || x.skipped == called[x.task] {
						errClass = "bad" // the report contradicts what the Runner saw
					}
					seen[x.task] = true
					switch {
					case x.skipped:
						rs = append(rs, x.task+":S")
					case okOf[x.task]:
						rs = append(rs, x.task+":O")
					default:
						rs = append(rs, x.task+":F")
					}
				}
				for t := range called {
					if !seen[t] {
						errClass = "bad" // a Runner call for a task that is not in the report
					}
				}
				sRES = append(sRES, joinOr(rs, ","))
			}
			sERR = append(sERR, errClass)
			if order == nil {
				order = lg.order(sel)
			}
			if order == nil {
				// not observable (killed before the sort was logged): Runner calls first, then the rest of the closure
				inOrd := map[string]bool{}
				for _, cl := range rn.calls {
					if !inOrd[cl.task] {
						order = append(order, cl.task)
						inOrd[cl.task] = true
					}
				}
				if rn.killed != "" && !inOrd[rn.killed] {
					order = append(order, rn.killed)
					inOrd[rn.killed] = true
				}
				for _, n := range sel {
					if !inOrd[n] {
						order = append(order, n)
					}
				}
			}
			sORD = append(sORD, joinOr(order, ","))

			// the cache file afterwards
			data, err := os.ReadFile(filepath.Join(root, cache.Path))
			switch {
			case err != nil:
				sCACHE = append(sCACHE, "missing")
			default:
				var m map[string]string
				if json.Unmarshal(data, &m) != nil {
					sCACHE = append(sCACHE, "corrupt")
					break
				}
				var cs []string
				for _, n := range names {
					d := m[n]
					switch {
					case d == "":
						cs = append(cs, n+"=-")
					default:
						if id, ok := digests[d]; ok {
							cs = append(cs, fmt.Sprintf("%s=%d", n, id))
						} else {
							cs = append(cs, n+"=?"+d[:min(8, len(d))])
						}
					}
				}
				for k := range m {
					if tpl.def(k) == nil {
						cs = append(cs, "?extra")
						break
					}
				}
				sCACHE = append(sCACHE, joinOr(cs, ","))
			}
		default:
			return "BAD-CASE"
		}
	}
	sec := func(name string, l []string) string { return name + " " + joinOr(l, " / ") }
	return strings.Join([]string{sec("INP", sINP), sec("ORD", sORD), sec("SEL", sSEL), sec("CR", sCR),
		sec("RES", sRES), sec("EXEC", sEXEC), sec("ERR", sERR), sec("CACHE", sCACHE)}, " ; ")
}

// ------------------------------------------------------------------------------------------------
// Gen

type alphabet struct {
	edits []string // w / d / c / f
	runs  []string // r.<tasks>.<force>.-  (crash-free)
}

func (a alphabet) all() []string { return append(append([]string{}, a.edits...), a.runs...) }

func runsOf(sets []string) []string {
	var out []string
	for _, s := range sets {
		out = append(out, "r."+s+".0.-", "r."+s+".1.-")
	}
	return out
}

// the small-scope alphabets of the exhaustive part
var alpha = map[int]alphabet{
	0: {[]string{"c", "w.0.1", "w.0.2", "w.3.1", "w.3.2", "d.3", "f.A", "f.B"}, runsOf([]string{"A", "B", "AN", "NB"})},
	1: {[]string{"c", "w.0.1", "w.0.2", "d.0", "w.1.2", "f.A"}, runsOf([]string{"A", "B", "AB"})},
	2: {[]string{"c", "w.0.1", "w.0.2", "w.1.2", "f.B"}, runsOf([]string{"A", "B", "AB"})},
	6: {[]string{"c", "w.0.2", "w.0.1", "w.3.1", "d.3", "f.A"}, runsOf([]string{"A", "B"})},
	7: {[]string{"w.0.1", "d.0", "w.4.1", "d.4", "w.0.2"}, runsOf([]string{"A"})},
	8: {[]string{"d.2", "w.2.1", "w.2.2", "f.A"}, runsOf([]string{"A"})},
}

// all histories of exactly `depth` events whose last event is a run (their prefixes are checked on the way)
func exhaustive(w *bufio.Writer, t int, depth int) int {
	a := alpha[t]
	all := a.all()
	n := 0
	var rec func(h []string)
	rec = func(h []string) {
		if len(h) == depth-1 {
			for _, r := range a.runs {
				fmt.Fprintf(w, "T%d %s %s\n", t, strings.Join(h, " "), r)
				n++
			}
			return
		}
		for _, o := range all {
			rec(append(h, o))
		}
	}
	rec(nil)
	return n
}

func crashSpecs(maxPoint int, tears []int) []string {
	out := []string{"K1", "K2", "K3"}
	for k := 1; k <= maxPoint; k++ {
		out = append(out, fmt.Sprintf("P%d", k))
		if k%2 == 1 {
			for _, n := range tears {
				out = append(out, fmt.Sprintf("P%dt%d", k, n))
			}
		}
	}
	return out
}

// prefix (≤ preDepth events) ; a run killed at every point ; continuation ; unforced run(s) of everything
func crashFamily(w *bufio.Writer, t int, preDepth int, maxPoint int, tears []int, stride int) int {
	a := alpha[t]
	all := a.all()
	var runSets []string
	for _, r := range a.runs {
		if strings.HasSuffix(r, ".0.-") {
			runSets = append(runSets, strings.Split(r, ".")[1])
		}
	}
	full := runSets[len(runSets)-1]
	conts := [][]string{{}, {"w.0.2"}, {"w.0.1"}}
	n, idx := 0, 0
	var rec func(h []string)
	rec = func(h []string) {
		for _, set := range runSets {
			for _, f := range []string{"0", "1"} {
				for _, cs := range crashSpecs(maxPoint, tears) {
					for _, ct := range conts {
						idx++
						if idx%stride != 0 {
							continue
						}
						ev := append(append([]string{}, h...), "r."+set+"."+f+"."+cs)
						ev = append(ev, ct...)
						ev = append(ev, "r."+full+".0.-", "r."+full+".0.-")
						fmt.Fprintf(w, "T%d %s\n", t, strings.Join(ev, " "))
						n++
					}
				}
			}
		}
		if len(h) == preDepth {
			return
		}
		for _, o := range all {
			rec(append(h, o))
		}
	}
	rec(nil)
	return n
}

func randomHistories(w *bufio.Writer, rng *rand.Rand, count int, maxDepth int, pCrash, pForce float64) {
	for i := 0; i < count; i++ {
		t := rng.Intn(len(templates))
		tpl := templates[t]
		depth := 2 + rng.Intn(maxDepth-1)
		var ev []string
		for len(ev) < depth {
			switch x := rng.Intn(10); {
			case x < 3:
				f := tpl.used[rng.Intn(len(tpl.used))]
				if rng.Intn(4) == 0 {
					ev = append(ev, fmt.Sprintf("d.%d", f))
				} else {
					ev = append(ev, fmt.Sprintf("w.%d.%d", f, 1+rng.Intn(2)))
				}
			case x == 3:
				if rng.Intn(3) == 0 {
					ev = append(ev, "c")
				} else {
					ev = append(ev, "f."+tpl.tasks[rng.Intn(len(tpl.tasks))].name)
				}
			default:
				ev = append(ev, randomRun(rng, tpl, pCrash, pForce))
			}
		}
		ev = append(ev, randomRun(rng, tpl, 0, 0))
		fmt.Fprintf(w, "T%d %s\n", t, strings.Join(ev, " "))
	}
}

func randomRun(rng *rand.Rand, tpl template, pCrash, pForce float64) string {
	var set string
	for set == "" {
		for _, td := range tpl.tasks {
			if rng.Intn(2) == 0 {
				set += td.name
			}
		}
	}
	if rng.Intn(2) == 0 { // request order is free
		b := []byte(set)
		rng.Shuffle(len(b), func(i, j int) { b[i], b[j] = b[j], b[i] })
		set = string(b)
	}
	f := "0"
	if rng.Float64() < pForce {
		f = "1"
	}
	cs := "-"
	if rng.Float64() < pCrash {
		switch rng.Intn(3) {
		case 0:
			cs = fmt.Sprintf("K%d", 1+rng.Intn(3))
		case 1:
			cs = fmt.Sprintf("P%d", 1+rng.Intn(10))
		default:
			cs = fmt.Sprintf("P%dt%d", 1+2*rng.Intn(5), rng.Intn(200))
		}
	}
	return "r." + set + "." + f + "." + cs
}

func gen(w *bufio.Writer, args map[string]string) {
	prop := args["prop"]
	thorough := args["tier"] == "thorough"
	seed := int64(sup.Atoi(args["seed"], 1))
	rng := rand.New(rand.NewSource(seed*7919 + int64(len(prop))*104729 + int64(prop[len(prop)-1])))
	sup.CorpusLines(w, "run")

	quickTears := []int{0, 9, 100000}
	var allTears []int
	for n := 0; n <= 170; n++ {
		allTears = append(allTears, n)
	}
	nrand := 2000
	if thorough {
		nrand = 20000
	}
	switch prop {
	case "C10":
		// kills at every point, then continuations; a lighter crash-free base
		if thorough {
			crashFamily(w, 0, 2, 10, quickTears, 1)
			crashFamily(w, 1, 2, 8, quickTears, 1)
			crashFamily(w, 2, 2, 8, quickTears, 1)
			crashFamily(w, 2, 1, 8, allTears, 1) // every byte prefix of every cache file written
			crashFamily(w, 1, 1, 8, allTears, 3)
			exhaustive(w, 2, 5)
		} else {
			crashFamily(w, 0, 1, 10, quickTears, 1)
			crashFamily(w, 2, 2, 8, quickTears, 2)
			crashFamily(w, 1, 1, 8, quickTears, 1)
			exhaustive(w, 2, 4)
		}
		randomHistories(w, rng, nrand, 12, 0.35, 0.2)
	case "C14":
		if thorough {
			exhaustive(w, 1, 5)
			exhaustive(w, 2, 5)
			exhaustive(w, 6, 5)
			exhaustive(w, 0, 4)
		} else {
			exhaustive(w, 0, 4)
			exhaustive(w, 2, 4)
		}
		crashFamily(w, 2, 1, 8, quickTears, 4)
		randomHistories(w, rng, nrand, 12, 0.1, 0.5)
	default: // C01, C02
		if thorough {
			exhaustive(w, 1, 5)
			exhaustive(w, 2, 5)
			exhaustive(w, 6, 5)
			exhaustive(w, 0, 4)
			exhaustive(w, 7, 6)
			exhaustive(w, 8, 7)
			if prop == "C01" {
				crashFamily(w, 2, 2, 8, quickTears, 1)
			}
		} else {
			exhaustive(w, 0, 4)
			exhaustive(w, 1, 4)
			// focused single-task families, one level deeper: a moved file under a recursive glob; a glob that
			// comes to match nothing and then the same files again
			exhaustive(w, 7, 5)
			exhaustive(w, 8, 6)
			if prop == "C01" {
				crashFamily(w, 2, 1, 8, quickTears, 2)
			} else {
				exhaustive(w, 6, 4)
			}
		}
		pc := 0.15
		if prop == "C02" {
			pc = 0.03
		}
		randomHistories(w, rng, nrand, 12, pc, 0.2)
	}
}
