//go:build verif

package main

import "github.com/FollowTheProcess/spok/cache"

// the hooks of the spok tree built with -tags verif
const hooksOn = true

func setVerifPoint(f func(point, path string, contents []byte)) { cache.VerifPoint = f }
func setWriteError(f func(path string) error)                   { cache.VerifWriteError = f }
