// vh-graph: implementation side of the graph engine (property C03).
//
// case:  TASKS a:b,c b: c:a ; REQ a zz ; FAIL b ; REP 0 [; VARS a c]    ("-" = empty list)
//
//	the task table in spokfile order (name:dependencies in source order), the requested names,
//	the tasks whose command exits 1, and a repetition counter (map iteration order varies between runs);
//	VARS: global variables of these names are declared above the tasks (`a := "."`): a variable that shares
//	its name with a task is no business of the task graph.
//
//	FDEPS a:x,y: task a also declares FILE dependencies "x", "y" (created, empty, in the project directory), first in
//	its list when REP is even, last when odd: a file dependency, however it is spelled, is no business of the task graph.
//
//	BODYLESS i j: the i-th and j-th definitions (0-based, in TASKS order) have an EMPTY body — only used where a name is defined
//	twice: a placeholder is a definition like any other.
//
// obs:   OUTCOME ok|duplicate|no-such-task|no-such-dependency|cycle|other|parse-error|panic|hang ; ORDER a b c ; RESULTS a b c
//
//	ORDER = task name of every shell.Runner call in call order, RESULTS = task names of the returned results.
package main

import (
	"bufio"
	"fmt"
	"math/bits"
	"math/rand"
	"os"
	"strconv"
	"strings"
	"time"

	"github.com/FollowTheProcess/spok/file"
	"github.com/FollowTheProcess/spok/iostream"
	"github.com/FollowTheProcess/spok/parser"
	"github.com/FollowTheProcess/spok/shell"

	"verif/harness/sup"
)

func main() {
	sup.Main("graph", &sup.Engine{Gen: graphGen, Work: graphWork, Recycle: 50000, Timeout: 30 * time.Second})
}

// ---------------------------------------------------------------------------------------------
// implementation run

type nolog struct{}

func (nolog) Sync() error          { return nil }
func (nolog) Debug(string, ...any) {}

// recorder is the scripted shell.Runner: it records which task every call belongs to and makes the
// commands of the tasks in fail exit with status 1 (a failing command, not a runner error)
type recorder struct {
	fail  map[string]bool
	calls []string
}

func (r *recorder) Run(cmd string, _ iostream.IOStream, task string, _ []string) (shell.Result, error) {
	r.calls = append(r.calls, task)
	if r.fail[task] {
		return shell.Result{Cmd: cmd, Status: 1, Stderr: "cued failure"}, nil
	}
	return shell.Result{Cmd: cmd}, nil
}

type def struct {
	name string
	deps []string
}

func sections(s string) map[string]string {
	m := map[string]string{}
	for _, part := range strings.Split(s, " ; ") {
		part = strings.TrimSpace(part)
		if part == "" {
			continue
		}
		k, v, _ := strings.Cut(part, " ")
		m[k] = strings.TrimSpace(v)
	}
	return m
}

func listOf(s string) []string {
	var out []string
	for _, w := range strings.Fields(s) {
		if w != "-" {
			out = append(out, w)
		}
	}
	return out
}

func showList(l []string) string {
	if len(l) == 0 {
		return "-"
	}
	return strings.Join(l, " ")
}

// fileDeps: the FDEPS section
func fileDeps(c string) (map[string][]string, bool) {
	sec := sections(c)
	out := map[string][]string{}
	for _, w := range listOf(sec["FDEPS"]) {
		name, fs, _ := strings.Cut(w, ":")
		for _, x := range strings.Split(fs, ",") {
			if x != "" {
				out[name] = append(out[name], x)
			}
		}
	}
	return out, sec["REP"] == "" || strings.HasSuffix(sec["REP"], "0") || strings.HasSuffix(sec["REP"], "2") || strings.HasSuffix(sec["REP"], "4") || strings.HasSuffix(sec["REP"], "6") || strings.HasSuffix(sec["REP"], "8")
}

func parseCase(c string) (defs []def, req []string, fail map[string]bool, vars []string, ok bool) {
	sec := sections(c)
	t, ok1 := sec["TASKS"]
	r, ok2 := sec["REQ"]
	f, ok3 := sec["FAIL"]
	if !ok1 || !ok2 || !ok3 {
		return nil, nil, nil, nil, false
	}
	for _, w := range listOf(t) {
		name, ds, found := strings.Cut(w, ":")
		if !found || name == "" {
			return nil, nil, nil, nil, false
		}
		d := def{name: name}
		for _, x := range strings.Split(ds, ",") {
			if x != "" {
				d.deps = append(d.deps, x)
			}
		}
		defs = append(defs, d)
	}
	fail = map[string]bool{}
	for _, x := range listOf(f) {
		fail[x] = true
	}
	return defs, listOf(r), fail, listOf(sec["VARS"]), true
}

func spokfileText(defs []def, vars []string, fdeps map[string][]string, filesFirst bool, bodyless map[int]bool) string {
	var b strings.Builder
	for _, v := range vars {
		fmt.Fprintf(&b, "%s := \".\"\n", v)
	}
	if len(vars) > 0 {
		b.WriteString("\n")
	}
	for di, d := range defs {
		var all []string
		for _, f := range fdeps[d.name] {
			all = append(all, `"`+f+`"`)
		}
		if filesFirst {
			all = append(all, d.deps...)
		} else {
			all = append(append([]string{}, d.deps...), all...)
		}
		if bodyless[di] {
			fmt.Fprintf(&b, "task %s(%s) {}\n\n", d.name, strings.Join(all, ", "))
			continue
		}
		fmt.Fprintf(&b, "task %s(%s) {\n    echo %s\n}\n\n", d.name, strings.Join(all, ", "), d.name)
	}
	return b.String()
}

func classOf(err error, fromNew bool) string {
	if err == nil {
		return "ok"
	}
	msg := err.Error()
	switch {
	case fromNew && strings.HasPrefix(msg, "Duplicate task"):
		return "duplicate"
	case fromNew:
		return "other"
	case strings.HasPrefix(msg, "Spokfile has no task "):
		return "no-such-task"
	case strings.HasPrefix(msg, "Task ") && strings.Contains(msg, " declares a dependency on task ") && strings.Contains(msg, "which does not exist"):
		return "no-such-dependency"
	case strings.HasPrefix(msg, "graph contains a cycle"):
		return "cycle"
	}
	return "other"
}

// tempBase: a memory-backed directory when there is one (a fresh directory per case is created and removed;
// on a disk-backed /tmp that dominates the run time by a factor of ten)
func tempBase() string {
	if d := os.Getenv("VERIF_TMP"); d != "" {
		return d
	}
	if st, err := os.Stat("/dev/shm"); err == nil && st.IsDir() {
		if f, err := os.CreateTemp("/dev/shm", "vh-probe-"); err == nil {
			f.Close()
			os.Remove(f.Name())
			return "/dev/shm"
		}
	}
	return ""
}

var tempBaseOnce = tempBase()

func graphWork(c string) string {
	defs, req, fail, vars, ok := parseCase(c)
	if !ok {
		return "BAD-CASE"
	}
	fdeps, filesFirst := fileDeps(c)
	bodyless := map[int]bool{}
	for _, x := range listOf(sections(c)["BODYLESS"]) {
		bodyless[sup.Atoi(x, -1)] = true
	}
	res, _ := sup.WithWatchdog(20*time.Second, func() string {
		tree, err := parser.New(spokfileText(defs, vars, fdeps, filesFirst, bodyless)).Parse()
		if err != nil {
			return "OUTCOME parse-error ; ORDER - ; RESULTS -"
		}
		dir, err := os.MkdirTemp(tempBaseOnce, "vh-graph-")
		if err != nil {
			return "OUTCOME harness-tempdir ; ORDER - ; RESULTS -"
		}
		defer os.RemoveAll(dir)
		for _, fs := range fdeps {
			for _, f := range fs {
				_ = os.WriteFile(dir+"/"+f, nil, 0o644)
			}
		}
		sf, err := file.New(tree, dir, nolog{})
		if err != nil {
			return fmt.Sprintf("OUTCOME %s ; ORDER - ; RESULTS -", classOf(err, true))
		}
		rec := &recorder{fail: fail}
		results, err := sf.Run(iostream.Null(), rec, true /* force: no cache effects */, req...)
		var names []string
		for _, r := range results {
			names = append(names, r.Task)
		}
		return fmt.Sprintf("OUTCOME %s ; ORDER %s ; RESULTS %s", classOf(err, false), showList(rec.calls), showList(names))
	})
	if res == "panic" || res == "hang" {
		return fmt.Sprintf("OUTCOME %s ; ORDER - ; RESULTS -", res)
	}
	return res
}

// ---------------------------------------------------------------------------------------------
// generation

var taskNames = []string{"a", "b", "c", "d", "e", "f", "g", "h"}

const undefinedName = "zz"

type tcase struct {
	defs []def
	req  []string
	fail []string
	vars []string
	fdep []string // "task:file,file"
	bodyless []int
}

func emit(w *bufio.Writer, t tcase, rep int) {
	var ds []string
	for _, d := range t.defs {
		ds = append(ds, d.name+":"+strings.Join(d.deps, ","))
	}
	if len(t.bodyless) > 0 {
		var bl []string
		for _, i := range t.bodyless {
			bl = append(bl, strconv.Itoa(i))
		}
		fmt.Fprintf(w, "TASKS %s ; REQ %s ; FAIL %s ; REP %d ; VARS %s ; BODYLESS %s\n", showList(ds), showList(t.req), showList(t.fail), rep, showList(t.vars), showList(bl))
		return
	}
	if len(t.fdep) > 0 {
		fmt.Fprintf(w, "TASKS %s ; REQ %s ; FAIL %s ; REP %d ; VARS %s ; FDEPS %s\n", showList(ds), showList(t.req), showList(t.fail), rep, showList(t.vars), showList(t.fdep))
		return
	}
	if len(t.vars) > 0 {
		fmt.Fprintf(w, "TASKS %s ; REQ %s ; FAIL %s ; REP %d ; VARS %s\n", showList(ds), showList(t.req), showList(t.fail), rep, showList(t.vars))
		return
	}
	fmt.Fprintf(w, "TASKS %s ; REQ %s ; FAIL %s ; REP %d\n", showList(ds), showList(t.req), showList(t.fail), rep)
}

// graphDefs: task i depends on task j iff bit i*n+j of mask. variant 0: definitions and dependencies ascending,
// 1: dependencies descending, 2: definitions descending (the depth-first closure and the error it reports first
// depend on these orders)
func graphDefs(n int, mask uint64, variant int) []def {
	defs := make([]def, 0, n)
	for i := 0; i < n; i++ {
		d := def{name: taskNames[i]}
		for j := 0; j < n; j++ {
			if mask&(1<<uint(i*n+j)) != 0 {
				d.deps = append(d.deps, taskNames[j])
			}
		}
		if variant%3 == 1 {
			for l, r := 0, len(d.deps)-1; l < r; l, r = l+1, r-1 {
				d.deps[l], d.deps[r] = d.deps[r], d.deps[l]
			}
		}
		defs = append(defs, d)
	}
	if variant%3 == 2 {
		for l, r := 0, len(defs)-1; l < r; l, r = l+1, r-1 {
			defs[l], defs[r] = defs[r], defs[l]
		}
	}
	return defs
}

// requestLists: all non-empty lists of length ≤ maxLen over pool
func requestLists(pool []string, maxLen int) [][]string {
	var out [][]string
	var rec func(cur []string)
	rec = func(cur []string) {
		if len(cur) > 0 {
			out = append(out, append([]string{}, cur...))
		}
		if len(cur) == maxLen {
			return
		}
		for _, p := range pool {
			rec(append(cur, p))
		}
	}
	rec(nil)
	return out
}

func cloneDefs(defs []def) []def {
	out := make([]def, len(defs))
	for i, d := range defs {
		out[i] = def{name: d.name, deps: append([]string{}, d.deps...)}
	}
	return out
}

func subsetNames(n int, bitsSet uint) []string {
	var out []string
	for i := 0; i < n; i++ {
		if bitsSet&(1<<uint(i)) != 0 {
			out = append(out, taskNames[i])
		}
	}
	return out
}

// requestPool: every non-empty list of length ≤ maxLen over the n defined names, plus lists that name an undefined task
// alone, after and before a defined one
func requestPool(n, maxLen int) [][]string {
	out := requestLists(taskNames[:n], maxLen)
	out = append(out, []string{undefinedName}, []string{taskNames[0], undefinedName}, []string{undefinedName, taskNames[n-1]})
	if maxLen >= 3 {
		out = append(out, []string{taskNames[0], undefinedName, taskNames[n-1]})
	}
	return out
}

type block struct {
	n                  int  // tasks
	minEdges, maxEdges int  // graphs with that many edges (self-loops included), all of them
	reqLen             int  // request lists: requestPool(n, reqLen)
	sampleLen3         int  // > 0: instead of all lists of length 3, that many random ones per graph
	reps               int  // runs per (graph, request) without failing commands
	failsPerReq        int  // extra runs per (graph, request) with failing commands
	variants           bool // per graph: undefined-dependency and duplicate-definition variants
	loopOnce           bool // graphs with a self-loop (mostly a certain cycle error) get one run per request, not reps
}

// selfLoops: the diagonal of the n×n edge matrix
func selfLoops(n int) uint64 {
	var m uint64
	for i := 0; i < n; i++ {
		m |= 1 << uint(i*n+i)
	}
	return m
}

func genBlock(w *bufio.Writer, rng *rand.Rand, b block) {
	n := b.n
	reqs := requestPool(n, b.reqLen)
	var short [][]string
	if b.sampleLen3 > 0 {
		short = requestPool(n, 2)
	}
	small := requestPool(n, 1)
	for mask := uint64(0); mask < 1<<uint(n*n); mask++ {
		if e := bits.OnesCount64(mask); e > b.maxEdges || e < b.minEdges {
			continue
		}
		rs := reqs
		if b.sampleLen3 > 0 {
			rs = append([][]string{}, short...)
			for k := 0; k < b.sampleLen3; k++ {
				rs = append(rs, []string{taskNames[rng.Intn(n)], taskNames[rng.Intn(n)], taskNames[rng.Intn(n)]})
			}
		}
		reps, first := b.reps, 0
		if b.loopOnce && reps > 1 && mask&selfLoops(n) != 0 {
			reps, first = 1, bits.OnesCount64(mask)%3
		}
		for _, r := range rs {
			for rep := first; rep < first+reps; rep++ {
				emit(w, tcase{defs: graphDefs(n, mask, rep), req: r}, rep)
			}
			// failing-task variants: the run loop must carry on and keep the order
			for k := 0; k < b.failsPerReq; k++ {
				var fs uint
				switch {
				case n <= 3 && k < n:
					fs = 1 << uint(k) // each single task
				case n <= 3 && k == n:
					fs = 1<<uint(n) - 1 // all of them
				default:
					fs = uint(rng.Intn(1<<uint(n)-1) + 1)
				}
				emit(w, tcase{defs: graphDefs(n, mask, k), req: r, fail: subsetNames(n, fs)}, k)
			}
		}
		if !b.variants {
			continue
		}
		for i := 0; i < n; i++ {
			// task i also depends on a name that is not defined (first or last in its list)
			for pos := 0; pos < 2; pos++ {
				defs := cloneDefs(graphDefs(n, mask, 0))
				if pos == 0 {
					defs[i].deps = append([]string{undefinedName}, defs[i].deps...)
				} else {
					defs[i].deps = append(defs[i].deps, undefinedName)
				}
				for _, r := range small {
					emit(w, tcase{defs: defs, req: r}, pos)
				}
			}
			// task i is defined a second time (with different dependencies), at the end or at the front
			defs := cloneDefs(graphDefs(n, mask, 0))
			dup := def{name: taskNames[i]}
			if len(defs[i].deps) == 0 {
				dup.deps = []string{taskNames[(i+1)%n]}
			}
			for _, r := range small {
				emit(w, tcase{defs: append(cloneDefs(defs), dup), req: r}, 0)
				emit(w, tcase{defs: append([]def{dup}, defs...), req: r}, 1)
				// … one of the two definitions being an empty placeholder `task x() {}`
				emit(w, tcase{defs: append([]def{{name: taskNames[i]}}, defs...), req: r, bodyless: []int{0}}, 0)
				emit(w, tcase{defs: append(cloneDefs(defs), def{name: taskNames[i]}), req: r, bodyless: []int{len(defs)}}, 0)
			}
		}
	}
}

// random graphs over up to 8 tasks: sparse to dense, mostly acyclic (edges from later to earlier tasks under a random
// relabelling) with a few back edges, occasional undefined names and duplicate definitions
func genRandom(w *bufio.Writer, rng *rand.Rand, graphs, reqsPer, reps int) {
	for g := 0; g < graphs; g++ {
		n := rng.Intn(6) + 3 // 3..8
		perm := rng.Perm(n)
		density := []float64{0.15, 0.3, 0.5, 0.8}[rng.Intn(4)]
		back := 0.0
		if rng.Intn(3) == 0 {
			back = []float64{0.03, 0.1, 0.3}[rng.Intn(3)]
		}
		defs := make([]def, n)
		for i := 0; i < n; i++ {
			defs[i].name = taskNames[i]
		}
		for i := 0; i < n; i++ {
			for j := 0; j < n; j++ {
				p := back
				if perm[j] < perm[i] {
					p = density
				}
				if rng.Float64() < p {
					defs[i].deps = append(defs[i].deps, taskNames[j])
				}
			}
			rng.Shuffle(len(defs[i].deps), func(a, b int) { defs[i].deps[a], defs[i].deps[b] = defs[i].deps[b], defs[i].deps[a] })
			if rng.Intn(25) == 0 {
				k := rng.Intn(len(defs[i].deps) + 1)
				defs[i].deps = append(defs[i].deps[:k:k], append([]string{undefinedName}, defs[i].deps[k:]...)...)
			}
			if len(defs[i].deps) > 0 && rng.Intn(15) == 0 {
				defs[i].deps = append(defs[i].deps, defs[i].deps[rng.Intn(len(defs[i].deps))]) // a dependency listed twice
			}
		}
		rng.Shuffle(n, func(a, b int) { defs[a], defs[b] = defs[b], defs[a] })
		if rng.Intn(30) == 0 {
			defs = append(defs, def{name: defs[rng.Intn(n)].name})
		}
		pool := append(append([]string{}, taskNames[:n]...), undefinedName)
		for k := 0; k < reqsPer; k++ {
			m := rng.Intn(3) + 1
			var r []string
			for x := 0; x < m; x++ {
				idx := rng.Intn(n)
				if rng.Intn(20) == 0 {
					idx = n
				}
				r = append(r, pool[idx])
			}
			var fl []string
			if rng.Intn(3) == 0 {
				fl = subsetNames(n, uint(rng.Intn(1<<uint(n))))
			}
			// now and then global variables, some sharing their name with a task (also with a depended-upon one)
			var vs []string
			if rng.Intn(4) == 0 {
				vs = subsetNames(n, uint(rng.Intn(1<<uint(n))))
				if rng.Intn(2) == 0 {
					vs = append(vs, "VAR")
				}
			}
			for rep := 0; rep < reps; rep++ {
				emit(w, tcase{defs: defs, req: r, fail: fl, vars: vs}, rep)
			}
		}
	}
}

func graphGen(w *bufio.Writer, a map[string]string) {
	thorough := a["tier"] == "thorough"
	seed := int64(sup.Atoi(a["seed"], 1))
	rng := rand.New(rand.NewSource(seed))
	sup.CorpusLines(w, "graph")
	if !thorough {
		// all graphs over ≤ 3 tasks, all graphs over 4 tasks with ≤ 5 edges; request lists of length ≤ 2; 3 runs each
		// (4 tasks: one run for the graphs with a self-loop, where a cycle error is the rule)
		genBlock(w, rng, block{n: 1, maxEdges: 1, reqLen: 2, reps: 3, failsPerReq: 2, variants: true})
		genBlock(w, rng, block{n: 2, maxEdges: 4, reqLen: 2, reps: 3, failsPerReq: 3, variants: true})
		genBlock(w, rng, block{n: 3, maxEdges: 9, reqLen: 2, reps: 3, failsPerReq: 4, variants: true})
		genBlock(w, rng, block{n: 4, maxEdges: 5, reqLen: 2, reps: 3, loopOnce: true})
		genBlock(w, rng, block{n: 4, maxEdges: 4, reqLen: 1, failsPerReq: 2})
		genBlock(w, rng, block{n: 4, maxEdges: 2, reqLen: 1, variants: true})
		genRandom(w, rng, 600, 4, 3)
		genWithVars(w, 3)
		genPrefixes(w, 3)
		genFileDeps(w, 3)
		genCollide(w, 3)
		return
	}
	genBlock(w, rng, block{n: 1, maxEdges: 1, reqLen: 3, reps: 3, failsPerReq: 2, variants: true})
	genBlock(w, rng, block{n: 2, maxEdges: 4, reqLen: 3, reps: 3, failsPerReq: 3, variants: true})
	genBlock(w, rng, block{n: 3, maxEdges: 9, reqLen: 3, reps: 3, failsPerReq: 4, variants: true})
	// all 2^16 graphs over 4 tasks: every request list of length ≤ 2; of length 3 all of them up to 6 edges, a sample above
	genBlock(w, rng, block{n: 4, maxEdges: 6, reqLen: 3, reps: 1})
	genBlock(w, rng, block{n: 4, minEdges: 7, maxEdges: 16, reqLen: 3, sampleLen3: 8, reps: 1})
	// 20 repetitions where the iteration order has room to vary
	genBlock(w, rng, block{n: 4, maxEdges: 4, reqLen: 2, reps: 20, failsPerReq: 1})
	genBlock(w, rng, block{n: 4, minEdges: 5, maxEdges: 5, reqLen: 2, reps: 6})
	genBlock(w, rng, block{n: 4, maxEdges: 3, reqLen: 1, variants: true})
	genRandom(w, rng, 5000, 4, 20)
	genWithVars(w, 3)
	genPrefixes(w, 3)
	genFileDeps(w, 3)
	genCollide(w, 4)
}

// genPrefixes: tasks with longer names ("aa", "bb", …), requested by a proper prefix ("a") or by a longer spelling ("aaa"):
// a name that is not the name of a task is an undefined task, however close it comes
func genPrefixes(w *bufio.Writer, n int) {
	long := func(defs []def) []def {
		out := cloneDefs(defs)
		for i := range out {
			out[i].name += out[i].name
			for j := range out[i].deps {
				out[i].deps[j] += out[i].deps[j]
			}
		}
		return out
	}
	for k := 1; k <= n; k++ {
		for mask := uint64(0); mask < 1<<uint(k*k); mask++ {
			defs := long(graphDefs(k, mask, 0))
			for i := 0; i < k; i++ {
				nm := taskNames[i]
				emit(w, tcase{defs: defs, req: []string{nm}}, 0)
				emit(w, tcase{defs: defs, req: []string{nm + nm + nm}}, 0)
				emit(w, tcase{defs: defs, req: []string{nm + nm, nm}}, 0)
			}
		}
	}
}

// genWithVars: every graph over ≤ n tasks again with a global variable for every task name (and one more), every single request
func genWithVars(w *bufio.Writer, n int) {
	for k := 1; k <= n; k++ {
		for mask := uint64(0); mask < 1<<uint(k*k); mask++ {
			defs := graphDefs(k, mask, 0)
			for i := 0; i < k; i++ {
				emit(w, tcase{defs: defs, req: []string{taskNames[i]}, vars: append(append([]string{}, taskNames[:k]...), "VAR")}, 0)
			}
		}
	}
}

// genFileDeps: every graph over ≤ n tasks where every task also has FILE dependencies spelled like the tasks (its own name
// included) — before the task dependencies (even rep) and after them (odd rep)
func genFileDeps(w *bufio.Writer, n int) {
	for k := 1; k <= n; k++ {
		for mask := uint64(0); mask < 1<<uint(k*k); mask++ {
			defs := graphDefs(k, mask, 0)
			var fd []string
			for i := 0; i < k; i++ {
				fd = append(fd, taskNames[i]+":"+strings.Join(taskNames[:k], ","))
			}
			for i := 0; i < k; i++ {
				for rep := 0; rep < 2; rep++ {
					emit(w, tcase{defs: defs, req: []string{taskNames[i]}, fdep: fd}, rep)
				}
			}
			emit(w, tcase{defs: defs, req: append([]string{}, taskNames[:k]...), fdep: fd[:1]}, 0)
		}
	}
}

// genCollide: graphs over task names whose concatenations collide ("a"+"bc" = "ab"+"c", "x"+"yx" = "xy"+"x"): every
// graph with ≤ maxEdges edges over {a, ab, bc, c}, every single request and all four at once, three runs each
func genCollide(w *bufio.Writer, maxEdges int) {
	for _, alt := range [][]string{{"a", "ab", "bc", "c"}, {"x", "xy", "yx", "xx"}} {
		for mask := uint64(0); mask < 1<<16; mask++ {
			if e := bits.OnesCount64(mask); e == 0 || e > maxEdges || mask&selfLoops(4) != 0 {
				continue
			}
			defs := graphDefs(4, mask, 0)
			for i := range defs {
				defs[i].name = alt[i]
				for j, d := range defs[i].deps {
					defs[i].deps[j] = alt[strings.Index("abcd", d)]
				}
			}
			for rep := 0; rep < 3; rep++ {
				emit(w, tcase{defs: defs, req: append([]string{}, alt...)}, rep)
				emit(w, tcase{defs: defs, req: []string{alt[3], alt[2], alt[1], alt[0]}}, rep)
			}
		}
	}
}
