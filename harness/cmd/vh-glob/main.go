// vh-glob: implementation side of the correspondence check for property C05 (glob expansion).
//
// case:  T <tree> P <pattern>        (see lean/Spok/Oracle/Glob.lean)
//
//	<tree>: comma-separated f:<path> (regular file) / d:<path> (directory), "-" = empty tree
//	<pattern>: the dependency string of the only task of the spokfile
//	optional, after the pattern:  R <hex>  the name of the project directory (default "r"; names with glob
//	meta-characters must not matter: the pattern is relative to the directory, never part of it);
//	Q <pattern>  a SECOND task of the same spokfile depends on this pattern (which may overlap the first): the expansion of
//	one pattern is no business of any other pattern (OBS… are about the first pattern, SETQ is the second one's set);
//	L <path,…>  entries of the tree that are realised as symbolic links to a copy kept OUTSIDE the project
//	(a linked directory is traversed like any directory, a linked file is a file: the model sees only paths)
//
// observation:  OBS <e…> ; OBS2 <e…> ; OBSB <e…> ; SEQ <e…>|na ; SET <e…> ; LEG <e…>|na|err
//
// The tree is built for real in a fresh temp directory; a spokfile text with one task whose dependency is
// the pattern is parsed (parser.New), turned into a SpokFile (file.New) and sf.ExpandGlobs() is called —
// the very code path of SpokFile.Run — and sf.Globs[pattern] is read, made relative to the root, each path
// tagged with its kind (Lstat).  OBS2 is the same on a second, fresh SpokFile; OBSB is the first SpokFile
// after a second ExpandGlobs() (the cached path through hasGlob).
//
// LEG validates the part of the model that spok's present callback never reaches: doublestar.GlobWalk is
// called directly on the same tree with a callback that answers SkipDir for every hidden path (the pinned
// `ignoreHiddenGlobFn`), and the recorded paths are compared with the walk model run with that callback
// (`Glob.legacyCallback`) — the three SkipDir behaviours of globDirWalk / globDoubleStarWalk. `na` for
// patterns with `{` (globAltsWalk is not mirrored).
package main

import (
	"bufio"
	"fmt"
	"io/fs"
	"math/rand"
	"os"
	"path/filepath"
	"sort"
	"strings"
	"time"

	"github.com/FollowTheProcess/spok/file"
	"github.com/FollowTheProcess/spok/parser"
	"github.com/bmatcuk/doublestar/v4"

	"verif/harness/sup"
)

type nolog struct{}

func (nolog) Sync() error          { return nil }
func (nolog) Debug(string, ...any) {}

var base string

func scratchRoot() string {
	if os.Getenv("VERIF_TMP") != "" {
		return os.Getenv("VERIF_TMP")
	}
	if st, err := os.Stat("/dev/shm"); err == nil && st.IsDir() {
		if f, err := os.CreateTemp("/dev/shm", "vhprobe"); err == nil {
			f.Close()
			os.Remove(f.Name())
			return "/dev/shm"
		}
	}
	return os.TempDir()
}

func ensureBase() string {
	if base == "" {
		b, err := os.MkdirTemp(scratchRoot(), fmt.Sprintf("vhglob-%d-", os.Getppid()))
		if err != nil {
			panic(err)
		}
		if r, err := filepath.EvalSymlinks(b); err == nil {
			b = r
		}
		base = b
	}
	return base
}

func showList(xs []string) string {
	if len(xs) == 0 {
		return "-"
	}
	return strings.Join(xs, " ")
}

// expansion of the pattern as the SpokFile sees it; ok=false: spok does not treat the string as a glob
func tag(root string, abs []string) []string {
	out := make([]string, 0, len(abs))
	for _, a := range abs {
		rel, err := filepath.Rel(root, a)
		if err != nil {
			rel = "!" + a
		}
		rel = filepath.ToSlash(rel)
		k := "f:"
		if fi, err := os.Stat(a); err != nil { // links are followed: a linked directory is a directory
			k = "?:"
		} else if fi.IsDir() {
			k = "d:"
		}
		out = append(out, k+rel)
	}
	return out
}

var secondPattern string // set per case (the worker handles one case at a time)

func newSpokFile(root, pattern string) (*file.SpokFile, string) {
	src := "task t(\"" + pattern + "\") {\n    run it\n}\n"
	if secondPattern != "" {
		// the other task comes FIRST in the file and sorts first by name; map iteration decides who is expanded first
		src = "task a(\"" + secondPattern + "\") {\n    run it\n}\n\n" + src + "\ntask z(\"" + secondPattern + "\", \"" + pattern + "\") {\n    run it\n}\n"
	}
	tree, err := parser.New(src).Parse()
	if err != nil {
		return nil, "PARSE-ERR"
	}
	sf, err := file.New(tree, root, nolog{})
	if err != nil {
		return nil, "NEW-ERR"
	}
	return sf, ""
}

func globWork(c string) string {
	f := strings.Fields(c)
	if len(f) < 4 || len(f)%2 != 0 || f[0] != "T" || f[2] != "P" {
		return "BAD-CASE"
	}
	pattern := f[3]
	rootName := "r"
	pattern2 := ""
	var links []string
	for i := 4; i+1 < len(f); i += 2 {
		switch f[i] {
		case "R":
			n, ok := sup.Unhx(f[i+1])
			if !ok || n == "" || strings.ContainsAny(n, "/\x00") {
				return "BAD-CASE"
			}
			rootName = n
		case "L":
			links = strings.Split(f[i+1], ",")
		case "Q":
			pattern2 = f[i+1]
		default:
			return "BAD-CASE"
		}
	}
	b := ensureBase()
	root := filepath.Join(b, rootName)
	ext := filepath.Join(b, "outside")
	_ = os.RemoveAll(root)
	_ = os.RemoveAll(ext)
	if err := os.Mkdir(root, 0o755); err != nil {
		return "BAD-SETUP " + sup.Hx(err.Error())
	}
	defer os.RemoveAll(root)
	defer os.RemoveAll(ext)
	if f[1] != "-" {
		for _, e := range strings.Split(f[1], ",") {
			if len(e) < 3 {
				return "BAD-CASE"
			}
			p := filepath.Join(root, filepath.FromSlash(e[2:]))
			var err error
			switch e[:2] {
			case "d:":
				err = os.MkdirAll(p, 0o755)
			case "f:":
				if err = os.MkdirAll(filepath.Dir(p), 0o755); err == nil {
					err = os.WriteFile(p, []byte("x"), 0o644)
				}
			default:
				return "BAD-CASE"
			}
			if err != nil {
				return "BAD-SETUP " + sup.Hx(err.Error())
			}
		}
	}

	for i, l := range links {
		p := filepath.Join(root, filepath.FromSlash(l))
		if _, err := os.Lstat(p); err != nil {
			return "BAD-CASE"
		}
		target := filepath.Join(ext, fmt.Sprintf("t%d", i))
		if err := os.MkdirAll(ext, 0o755); err != nil {
			return "BAD-SETUP " + sup.Hx(err.Error())
		}
		if err := os.Rename(p, target); err != nil {
			return "BAD-SETUP " + sup.Hx(err.Error())
		}
		if err := os.Symlink(target, p); err != nil {
			return "BAD-SETUP " + sup.Hx(err.Error())
		}
	}

	secondPattern = pattern2
	defer func() { secondPattern = "" }()
	sf1, bad := newSpokFile(root, pattern)
	if bad != "" {
		return "OBS " + bad
	}
	if _, isGlob := sf1.Globs[pattern]; !isGlob {
		return "OBS notglob ; OBS2 notglob ; OBSB notglob ; SEQ notglob ; SET notglob ; LEG notglob"
	}
	if err := sf1.ExpandGlobs(); err != nil {
		return "OBS EXPAND-ERR"
	}
	obs := tag(root, sf1.Globs[pattern])
	if err := sf1.ExpandGlobs(); err != nil {
		return "OBS EXPAND-ERR"
	}
	obsB := tag(root, sf1.Globs[pattern])
	sf2, bad := newSpokFile(root, pattern)
	if bad != "" {
		return "OBS " + bad
	}
	if err := sf2.ExpandGlobs(); err != nil {
		return "OBS EXPAND-ERR"
	}
	obs2 := tag(root, sf2.Globs[pattern])

	seq := showList(obs)
	leg := "na"
	if strings.Contains(pattern, "{") {
		seq = "na"
	} else {
		leg = legacyWalk(root, pattern)
	}
	set := append([]string{}, obs...)
	sort.Strings(set)
	ded := set[:0]
	for i, s := range set {
		if i == 0 || s != set[i-1] {
			ded = append(ded, s)
		}
	}
	setq := "na"
	if pattern2 != "" {
		if _, ok := sf1.Globs[pattern2]; ok {
			q := tag(root, sf1.Globs[pattern2])
			sort.Strings(q)
			dq := q[:0]
			for i, x := range q {
				if i == 0 || x != q[i-1] {
					dq = append(dq, x)
				}
			}
			setq = showList(dq)
		} else {
			setq = "notglob"
		}
	}
	return fmt.Sprintf("OBS %s ; OBS2 %s ; OBSB %s ; SEQ %s ; SET %s ; LEG %s ; SETQ %s", showList(obs), showList(obs2), showList(obsB), seq, showList(ded), leg, setq)
}

// legacyWalk: doublestar.GlobWalk with the pinned callback (SkipDir for a hidden path)
func legacyWalk(root, pattern string) string {
	var rec []string
	err := doublestar.GlobWalk(os.DirFS(root), pattern, func(p string, d fs.DirEntry) error {
		if strings.HasPrefix(p, ".") {
			return filepath.SkipDir
		}
		k := "f:"
		if d.IsDir() {
			k = "d:"
		} else if fi, err := os.Stat(filepath.Join(root, filepath.FromSlash(p))); err == nil && fi.IsDir() {
			k = "d:" // a linked directory: the DirEntry is the link's, the entry is a directory
		}
		rec = append(rec, k+p)
		return nil
	})
	if err != nil {
		return "err"
	}
	return showList(rec)
}

// ---------------------------------------------------------------------------------------------
// generation

// the pool of the property: top-level and nested files, dot-files and dot-directories at both levels,
// names sorting before ('-') and after ('m', 'z') the dot
var pool = []string{"f:main.x", "f:-early.x", "f:.hid.x", "f:zz.y", "f:sub/s.x", "f:sub/.dot.x", "f:.git/g.x", "f:sub/deep/d.x", "f:sub/.h2/e.x", "f:other/o.y"}

// a second pool for kinds: a regular file where patterns expect a directory, empty directories,
// directories whose names match file patterns, hidden empty directories
var kindPool = []string{"f:sub", "d:emp", "d:dir.x", "f:dir.x/in.x", "d:other/.hd", "f:o", "d:other/e.x", "f:-a/b.x"}

var patterns = []string{
	"*.x", "**/*.x", "sub/*", "*/*", "**", "sub/**", "*.{x,y}", "**/*.{x,y}", "sub/*.x", "**/d.x",
	"sub/**/*.x", "*", "s*/*.x", "**/deep/*", "**/.dot.x", ".git/*", "**/s.x", "*/*/*.x", "o*/**", "*/**",
	"**/*", "**/**", "{sub,other}/*", ".*", "**/.*", "**/.*/*", "s?b/*.x", "*.?", "**/sub/**", "*/**/*.x",
	"**/{s,d}.x", "-*", "?ain.x",
}

func subsets(w *bufio.Writer, pool []string, pats []string) {
	for mask := 0; mask < 1<<len(pool); mask++ {
		var es []string
		for i, p := range pool {
			if mask&(1<<i) != 0 {
				es = append(es, p)
			}
		}
		tr := "-"
		if len(es) > 0 {
			tr = strings.Join(es, ",")
		}
		for _, p := range pats {
			fmt.Fprintf(w, "T %s P %s\n", tr, p)
		}
	}
}

var comps = []string{"a", "b", "ab", "a.x", "b.x", "c.y", ".h", ".h.x", "-a.x", "sub", "x", "d.x", "~z", "A.x", "s.x", "deep", ".git", "o"}

func randTree(rng *rand.Rand) string {
	n := rng.Intn(26)
	kind := map[string]byte{} // path -> 'f' | 'd'
	var order []string
	for i := 0; i < n; i++ {
		depth := 1 + rng.Intn(4)
		parts := make([]string, depth)
		for j := range parts {
			parts[j] = comps[rng.Intn(len(comps))]
		}
		k := byte('f')
		if rng.Intn(8) == 0 {
			k = 'd'
		}
		// every proper prefix must not be a file; the path itself must be new
		ok := true
		for j := 1; j < depth; j++ {
			if kind[strings.Join(parts[:j], "/")] == 'f' {
				ok = false
			}
		}
		p := strings.Join(parts, "/")
		if _, seen := kind[p]; seen {
			ok = false
		}
		if !ok {
			continue
		}
		for j := 1; j < depth; j++ {
			kind[strings.Join(parts[:j], "/")] = 'd'
		}
		kind[p] = k
		order = append(order, string(k)+":"+p)
	}
	if len(order) == 0 {
		return "-"
	}
	return strings.Join(order, ",")
}

var litPieces = []string{"a", "b", "x", ".", "s", "d", "-", "~", "h", "sub", ".x", "A", "o", "deep", "c", "y"}
var altPieces = []string{"a", "b", "x", "y", "sub", "a.x", "?", "s?", ".h", "d", "-a", "o", "deep"}

func randSeg(rng *rand.Rand) string {
	for {
		if rng.Intn(4) == 0 {
			return "**"
		}
		k := 1 + rng.Intn(4)
		s := ""
		for i := 0; i < k; i++ {
			switch rng.Intn(7) {
			case 0, 1:
				s += "*"
			case 2:
				s += "?"
			case 3:
				m := 1 + rng.Intn(3)
				alts := make([]string, m)
				for j := range alts {
					alts[j] = altPieces[rng.Intn(len(altPieces))]
				}
				s += "{" + strings.Join(alts, ",") + "}"
			default:
				s += litPieces[rng.Intn(len(litPieces))]
			}
		}
		if s == "." || s == ".." || strings.Contains(s, "***") {
			continue
		}
		return s
	}
}

var rootNames = []string{"proj[1]", "rel{ease}", "a*b", "q?x", "back\\slash", "sp ace", "[ab]", "{a,b}", "**", ".hidden", "ünï", "r-1.0"}

// randExtras: now and then an unusual project directory name and/or some entries behind symbolic links
func randExtras(rng *rand.Rand, tr string) string {
	out := ""
	if rng.Intn(4) == 0 {
		out += " Q " + randPattern(rng)
	}
	if rng.Intn(4) == 0 {
		out += " R " + sup.Hx(rootNames[rng.Intn(len(rootNames))])
	}
	if tr != "-" && rng.Intn(3) == 0 {
		// candidates: every entry and every directory above one; linked entries must not be nested in one another
		seen := map[string]bool{}
		var cands []string
		for _, e := range strings.Split(tr, ",") {
			parts := strings.Split(e[2:], "/")
			for j := 1; j <= len(parts); j++ {
				p := strings.Join(parts[:j], "/")
				if !seen[p] {
					seen[p] = true
					cands = append(cands, p)
				}
			}
		}
		var ls []string
		for k := 1 + rng.Intn(2); k > 0; k-- {
			c := cands[rng.Intn(len(cands))]
			ok := true
			for _, l := range ls {
				if l == c || strings.HasPrefix(l, c+"/") || strings.HasPrefix(c, l+"/") {
					ok = false
				}
			}
			if ok {
				ls = append(ls, c)
			}
		}
		if len(ls) > 0 {
			out += " L " + strings.Join(ls, ",")
		}
	}
	return out
}

func randPattern(rng *rand.Rand) string {
	for tries := 0; ; tries++ {
		k := 1 + rng.Intn(4)
		segs := make([]string, k)
		for i := range segs {
			segs[i] = randSeg(rng)
		}
		p := strings.Join(segs, "/")
		if strings.Contains(p, "*") || rng.Intn(40) == 0 {
			return p
		}
	}
}

func globGen(w *bufio.Writer, args map[string]string) {
	sup.CorpusLines(w, "glob")
	tier := args["tier"]
	seed := int64(sup.Atoi(args["seed"], 1))
	// exhaustive in both tiers: every subset of the pool x every pattern, and every subset of the kind pool
	subsets(w, pool, patterns)
	subsets(w, kindPool, patterns)
	n := 1500
	if tier == "thorough" {
		n = 120000
	}
	rng := rand.New(rand.NewSource(seed))
	for i := 0; i < n; i++ {
		tr := randTree(rng)
		// a few patterns per random tree
		for j := 0; j < 2; j++ {
			fmt.Fprintf(w, "T %s P %s%s\n", tr, randPattern(rng), randExtras(rng, tr))
		}
	}
	// the fixed pool again under unusual project directory names and with every entry of a small tree linked in turn
	for _, rn := range rootNames {
		for _, p := range patterns {
			fmt.Fprintf(w, "T f:main.x,f:sub/a.x,f:sub/deep/b.x,f:.h.x,d:sub/empty P %s R %s\n", p, sup.Hx(rn))
		}
	}
	// two overlapping patterns in one spokfile, every ordered pair of the fixed patterns
	for _, p := range patterns {
		for _, q := range patterns {
			fmt.Fprintf(w, "T f:main.x,f:sub/a.x,f:sub/deep/b.x,f:.h.x,d:sub/empty,f:zz.y P %s Q %s\n", p, q)
		}
	}
	// `$` in names and patterns (javac's Outer$Inner.class, cost$USD.txt): a character like any other — nobody's variable
	for _, p := range []string{"*$*.class", "**/*$*.class", "cost$USD*.txt", "a$b/*", "*$*", "$*", "*$", "**/$HOME/*", "${x}*", "*.class", "cost*.txt"} {
		for _, tr := range []string{
			"f:Outer.class,f:Outer$Inner.class,f:cost$USD1.txt,f:costX.txt,f:cost1.txt,f:a$b/c.x,f:ab/c.x,f:$HOME/h.x,f:sub/In$1.class,f:sub/In.class,f:${x}y,f:y,f:tail$",
			"f:Outer.class,f:costX.txt,f:ab/c.x,f:y",
		} {
			fmt.Fprintf(w, "T %s P %s\n", tr, p)
		}
	}
	// a backslash escapes the next character of a pattern: files with a star, a question mark, a brace in their NAMES
	for _, p := range []string{`a\**.x`, `a\*b.x`, `\**`, `m\ain.x`, `main\.x`, `*\.x`, `sub/\s.x`, `a\?*.x`, `**/a\*.x`, `a*.x`, `a?*.x`} {
		for _, tr := range []string{"f:a*b.x,f:a*.x,f:ab.x,f:a/x.x,f:main.x,f:sub/s.x,f:a?c.x,f:aXc.x,f:{b}.x,f:sub/a*.x", "f:ab.x,f:a/x.x,f:main.x"} {
			fmt.Fprintf(w, "T %s P %s\n", tr, p)
		}
	}
	for _, l := range []string{"sub", "sub/deep", "main.x", "sub/a.x", "sub/empty", "sub,main.x", ".hid"} {
		for _, p := range patterns {
			fmt.Fprintf(w, "T f:main.x,f:sub/a.x,f:sub/deep/b.x,f:.h.x,d:sub/empty,f:.hid/c.x P %s L %s\n", p, l)
		}
	}
}

func main() {
	if len(os.Args) > 1 && os.Args[1] == "exec" {
		defer func() {
			old, _ := filepath.Glob(filepath.Join(scratchRoot(), fmt.Sprintf("vhglob-%d-*", os.Getpid())))
			for _, d := range old {
				_ = os.RemoveAll(d)
			}
		}()
	}
	defer func() {
		if base != "" {
			_ = os.RemoveAll(base)
		}
	}()
	sup.Main("glob", &sup.Engine{Gen: globGen, Work: globWork, Recycle: 5000, Timeout: 20 * time.Second})
}
