package sup

import (
	"bufio"
	"encoding/hex"
	"fmt"
	"os"
	"path/filepath"
	"strings"
	"time"
)

// Hx hex-encodes a string for the line protocol ("-" for the empty string)
func Hx(s string) string {
	if s == "" {
		return "-"
	}
	return hex.EncodeToString([]byte(s))
}

// Unhx is the inverse of Hx
func Unhx(s string) (string, bool) {
	if s == "-" {
		return "", true
	}
	b, err := hex.DecodeString(s)
	return string(b), err == nil
}

// WithWatchdog runs f in a goroutine, recovering a panic in that goroutine as "panic";
// ok=false ("hang") when it did not finish in time
func WithWatchdog(d time.Duration, f func() string) (res string, ok bool) {
	ch := make(chan string, 1)
	go func() {
		defer func() {
			if r := recover(); r != nil {
				ch <- "panic"
			}
		}()
		ch <- f()
	}()
	select {
	case s := <-ch:
		return s, true
	case <-time.After(d):
		return "hang", false
	}
}

// CorpusLines copies the non-comment lines of /verif/corpus/<engine>/*.txt to w (they run first)
func CorpusLines(w *bufio.Writer, engine string) {
	dir := os.Getenv("VERIF_CORPUS")
	if dir == "" {
		dir = "/verif/corpus"
	}
	files, _ := filepath.Glob(filepath.Join(dir, engine, "*.txt"))
	for _, f := range files {
		data, err := os.ReadFile(f)
		if err != nil {
			continue
		}
		for _, line := range strings.Split(string(data), "\n") {
			line = strings.TrimSpace(line)
			if line == "" || strings.HasPrefix(line, "//") {
				continue
			}
			fmt.Fprintln(w, line)
		}
	}
}
