// Package sup is the shared part of the vh-<engine> binaries, the implementation side of the correspondence checks: for every engine it can generate
// cases (`vh gen <engine> ...`), and run the real spok code on them (`vh exec <engine> in out`),
// writing one line per case: `<case> | <what the implementation did>`.
//
// exec is a supervisor: the cases are handed to child processes (`vh worker <engine>`) so that a
// crash of the code under test (a panic in a goroutine, a SIGSEGV) is an observation about one
// case, not the end of the run; children are recycled regularly because a failed parse leaks the
// blocked lexer goroutine.
package sup

import (
	"bufio"
	"fmt"
	"io"
	"os"
	"os/exec"
	"runtime"
	"strconv"
	"strings"
	"sync"
	"sync/atomic"
	"time"
)

type Engine struct {
	// gen writes cases, one per line, to w
	Gen func(w *bufio.Writer, args map[string]string)
	// work runs the implementation on one case and returns the observation (no newlines)
	Work func(c string) string
	// recycle: restart a worker after this many cases (0 = never)
	Recycle int
	// per-case wall clock limit enforced by the supervisor
	Timeout time.Duration
	// Poison reports that an observation means the worker is no longer fit for use (its own watchdog gave up on a
	// call that may still be spinning in a leaked goroutine): the supervisor replaces the worker and counts the
	// case towards the limit of hangs/crashes after which the remaining cases are not run
	Poison func(res string) bool
}

func ArgMap(args []string) map[string]string {
	m := map[string]string{}
	for _, a := range args {
		if i := strings.Index(a, "="); i > 0 {
			m[strings.TrimLeft(a[:i], "-")] = a[i+1:]
		}
	}
	return m
}

func Atoi(s string, def int) int {
	if s == "" {
		return def
	}
	n, err := strconv.Atoi(s)
	if err != nil {
		return def
	}
	return n
}

// Main is the entry point of every vh-<engine> binary: `gen k=v...`, `exec <in> <out> [j=N]`, `worker`.
func Main(name string, e *Engine) {
	if len(os.Args) < 2 {
		fmt.Fprintln(os.Stderr, "usage: vh-"+name+" gen|exec|worker ...")
		os.Exit(2)
	}
	switch os.Args[1] {
	case "gen":
		w := bufio.NewWriterSize(os.Stdout, 1<<20)
		e.Gen(w, ArgMap(os.Args[2:]))
		w.Flush()
	case "worker":
		worker(e)
	case "exec":
		if len(os.Args) < 4 {
			fmt.Fprintln(os.Stderr, "usage: exec <in> <out> [j=N]")
			os.Exit(2)
		}
		supervise(name, e, os.Args[2], os.Args[3], Atoi(ArgMap(os.Args[4:])["j"], runtime.NumCPU()))
	default:
		os.Exit(2)
	}
}

func worker(e *Engine) {
	in := bufio.NewReaderSize(os.Stdin, 1<<20)
	out := bufio.NewWriter(os.Stdout)
	for {
		line, err := in.ReadString('\n')
		if len(line) > 0 {
			c := strings.TrimRight(line, "\n")
			res := e.Work(c)
			out.WriteString(strings.ReplaceAll(res, "\n", " "))
			out.WriteByte('\n')
			out.Flush()
		}
		if err != nil {
			return
		}
	}
}

type child struct {
	cmd    *exec.Cmd
	stdin  io.WriteCloser
	stdout *bufio.Reader
	served int
}

func startChild(name string) *child {
	cmd := exec.Command(os.Args[0], "worker")
	cmd.Stderr = io.Discard
	stdin, _ := cmd.StdinPipe()
	stdout, _ := cmd.StdoutPipe()
	if err := cmd.Start(); err != nil {
		fmt.Fprintln(os.Stderr, "vh: cannot start worker:", err)
		os.Exit(2)
	}
	return &child{cmd: cmd, stdin: stdin, stdout: bufio.NewReaderSize(stdout, 1<<20)}
}

// stop ends a worker: closing its stdin lets it return from main (so that a -cover build flushes its
// counters); a worker that does not exit by itself within two seconds is killed.
func (c *child) stop() {
	c.stdin.Close()
	done := make(chan struct{})
	go func() {
		_ = c.cmd.Wait()
		close(done)
	}()
	select {
	case <-done:
	case <-time.After(2 * time.Second):
		_ = c.cmd.Process.Kill()
		<-done
	}
}

// kill ends a worker that is known to be stuck or dead
func (c *child) kill() {
	c.stdin.Close()
	_ = c.cmd.Process.Kill()
	_ = c.cmd.Wait()
}

// ask sends one case and waits for the answer; ok=false means the child died or timed out
func (c *child) ask(line string, timeout time.Duration) (string, string) {
	if _, err := io.WriteString(c.stdin, line+"\n"); err != nil {
		return "", "CRASH"
	}
	type ans struct {
		s   string
		err error
	}
	ch := make(chan ans, 1)
	go func() {
		s, err := c.stdout.ReadString('\n')
		ch <- ans{s, err}
	}()
	select {
	case a := <-ch:
		if a.err != nil {
			return "", "CRASH"
		}
		return strings.TrimRight(a.s, "\n"), ""
	case <-time.After(timeout):
		return "", "HANG"
	}
}

func supervise(name string, e *Engine, inPath, outPath string, j int) {
	data, err := os.ReadFile(inPath)
	if err != nil {
		fmt.Fprintln(os.Stderr, "vh:", err)
		os.Exit(2)
	}
	lines := strings.Split(strings.TrimRight(string(data), "\n"), "\n")
	if len(lines) == 1 && lines[0] == "" {
		lines = nil
	}
	results := make([]string, len(lines))
	var wg sync.WaitGroup
	next := 0
	var mu sync.Mutex
	const chunk = 64
	take := func() (int, int) {
		mu.Lock()
		defer mu.Unlock()
		if next >= len(lines) {
			return -1, -1
		}
		a := next
		b := a + chunk
		if b > len(lines) {
			b = len(lines)
		}
		next = b
		return a, b
	}
	timeout := e.Timeout
	if timeout == 0 {
		timeout = 20 * time.Second
	}
	// a tree on which the code under test hangs or crashes on MANY cases must not turn a check into hours of
	// waiting for timeouts: after maxBad such observations the remaining cases are not run (SKIPPED, dropped by
	// the driver) — the observations made so far are already violations with replays
	maxBad := int64(Atoi(os.Getenv("VERIF_MAX_BAD"), 24))
	var bad64 atomic.Int64
	for w := 0; w < j; w++ {
		wg.Add(1)
		go func() {
			defer wg.Done()
			var c *child
			defer func() {
				if c != nil {
					c.stop()
				}
			}()
			for {
				a, b := take()
				if a < 0 {
					return
				}
				for i := a; i < b; i++ {
					if bad64.Load() >= maxBad {
						results[i] = lines[i] + " | SKIPPED"
						continue
					}
					if c == nil || (e.Recycle > 0 && c.served >= e.Recycle) {
						if c != nil {
							c.stop()
						}
						c = startChild(name)
					}
					res, bad := c.ask(lines[i], timeout)
					c.served++
					if bad != "" {
						c.kill()
						c = nil
						res = bad
						bad64.Add(1)
					} else if e.Poison != nil && e.Poison(res) {
						c.kill()
						c = nil
						bad64.Add(1)
					}
					results[i] = lines[i] + " | " + res
				}
			}
		}()
	}
	wg.Wait()
	f, err := os.Create(outPath)
	if err != nil {
		fmt.Fprintln(os.Stderr, "vh:", err)
		os.Exit(2)
	}
	w := bufio.NewWriterSize(f, 1<<20)
	for _, r := range results {
		w.WriteString(r)
		w.WriteByte('\n')
	}
	w.Flush()
	f.Close()
}
